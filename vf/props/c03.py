"""C03 - KEK derivation agrees on both sides and with an independent implementation.

Monitor: GroupKeyEnvelope.new_kek() (encrypting side; its os.urandom draws are forced by the
Entropy instrument so the ephemeral key / nonce is an input) and get_kek(key_identifier) on the
seed-holding envelope are executed on the real code; both KEKs and the emitted key_info are
compared with an independent SP800-108 / FFC-DH / ECDH / SP800-56A implementation.
Leading-zero shared secrets / public values / coordinates are *constructed* (not hoped for):
eph = k * priv_server^-1 mod q for a small k whose g^k (or x(kG), y(kG)) has leading zero bytes.
"""
from __future__ import annotations

import typing as t
import uuid

from vf.core.framework import Recorder
from vf.instruments import monitors as mon
from vf.props import common
from vf.ref import crypto, gkdi as rg

ID = "C03"
LEVEL = "exploration"
RULE = (
    "cases = (hash, algorithm in {nonce, DH, ECDH_P256, ECDH_P384}, L2 seed, forced ephemeral key or nonce, DH group in {RFC 5114 2048/256, "
    "small prime groups with key_length >= / == prime size}, private_key_length). distinct = digest of (all key material); non-trivial = "
    "some value among {shared secret, public value, x, y, private key} has a leading zero byte, or the group is not RFC 5114, or the "
    "hash/agreement pair differs from the Windows vector's use (counted only when at least one of these holds)"
    " Also: nonce-mode envelopes in the five shapes A-E (L2 <31/=31 x L1 key x L2 key present/absent); every third case keeps root key id and position of the previous one with a new seed; if the library does not draw through os.urandom the reference is recomputed from the emitted public value."
)
ASSUMPTIONS = [
    "independent implementation: hashlib/hmac + Python integers + pure-Python P-256/P-384 (calibrated each run; the full reference decrypts the 12 public-key Windows blobs)",
    "EC private_key_length equals the curve size (as in the Windows vectors); ECDH_P521 is outside the property's list",
    "ephemeral EC scalars are in [1, n-1] (os.urandom never yields 0 in practice)",
]

RFC5114_Q = int("8CF83642A709A097B447997640129DA299B1A47D1EB3750BA308B0FE64F5FBD3", 16)
SMALL_GROUPS = [  # (p, g, key_length): primes; any g works for the arithmetic
    ((1 << 127) - 1, 3, 16),  # exactly fitting
    ((1 << 127) - 1, 3, 20),  # key_length larger than the prime: every value has leading zeros
    ((1 << 61) - 1, 7, 8),
    ((1 << 61) - 1, 7, 32),
    (0xFFFFFFFFFFFFFFC5, 5, 8),  # 2^64 - 59
    ((1 << 521) - 1, 2, 66),
    (65537, 3, 3),
    (251, 6, 1),
    # moduli above 2048 bits (the arithmetic does not need primality): 3072, 4096 and 8192 bits
    ((1 << 3072) - 1103717, 2, 384),
    ((1 << 4096) - 3, 5, 512),
    ((1 << 8191) - 1 | (1 << 8100), 7, 1024),
]


def plan(tier, seed):
    n = 180 if tier == "quick" else 6000
    return [{"name": f"kek-{i}", "kind": "kek", "n": n} for i in range(16)]


def finalize(agg, tier):
    r = []
    if agg.counter("entropy_draws_forced") + agg.counter("entropy_not_steerable") == 0:
        r.append("monitor never reached: new_kek entropy observation")
    for c in ("enc_dec_agree_checked", "ref_kek_compared", "key_info_compared"):
        if agg.counter(c) == 0:
            r.append(f"monitor never reached: {c}")
    for alg in ("nonce", "DH", "ECDH_P256", "ECDH_P384"):
        if agg.counter(f"alg_{alg}") == 0:
            r.append(f"algorithm {alg} never exercised")
    for c in ("leading_zero_shared_secret", "leading_zero_public_value"):
        if agg.counter(c) == 0:
            r.append(f"corner never produced: {c}")
    return r


def lz(v: int, width: int) -> bool:
    return width > 0 and v < (1 << (8 * (width - 1)))


def envelope(G, h, alg, sec_params, privlen, publen, flags, l0, l1, l2, rkid, l1_key, l2_key):
    return G.GroupKeyEnvelope(
        version=1,
        flags=flags,
        l0=l0,
        l1=l1,
        l2=l2,
        root_key_identifier=rkid,
        kdf_algorithm="SP800_108_CTR_HMAC",
        kdf_parameters=rg.enc_kdf_parameters(h),
        secret_algorithm=alg,
        secret_parameters=sec_params,
        private_key_length=privlen,
        public_key_length=publen,
        domain_name="c03.test",
        forest_name="c03.test",
        l1_key=l1_key,
        l2_key=l2_key,
    )


_small_k_cache: t.Dict[str, t.List[int]] = {}


def small_k_with_leading_zero(kind: str) -> t.List[int]:
    """small scalars k whose g^k mod p (RFC 5114) / x(kG) / y(kG) start with a zero byte."""
    if kind in _small_k_cache:
        return _small_k_cache[kind]
    out = []
    if kind == "dh":
        v = 1
        for k in range(1, 4000):
            v = v * common.RFC5114_G % common.RFC5114_P
            if lz(v, 256):
                out.append(k)
            if len(out) >= 8:
                break
    else:
        curve = crypto.CURVES["P256" if "256" in kind else "P384"]
        acc = None
        k = 0
        while len(out) < 6 and k < 6000:
            k += 1
            acc = (curve.gx, curve.gy) if acc is None else _affine_add(curve, acc, (curve.gx, curve.gy))
            if lz(acc[0] if kind.endswith("x") else acc[1], curve.size):
                out.append(k)
    _small_k_cache[kind] = out
    return out


def _affine_add(c, P, Q):
    p = c.p
    if P == Q:
        lam = (3 * P[0] * P[0] + c.a) * pow(2 * P[1], -1, p) % p
    else:
        lam = (Q[1] - P[1]) * pow(Q[0] - P[0], -1, p) % p
    x = (lam * lam - P[0] - Q[0]) % p
    return (x, (lam * (P[0] - x) - P[1]) % p)


_last_ids: t.Dict[tuple, tuple] = {}


def one_case(rec: Recorder, rng, idx: int) -> None:
    from dpapi_ng import _gkdi as G

    h = common.HASHES[idx % 4]
    alg = ["nonce", "DH", "ECDH_P256", "ECDH_P384", "DH", "DH"][(idx // 4) % 6]
    seed = rng.randbytes(64)
    rkid = uuid.UUID(int=rng.getrandbits(128))
    l0, l1, l2 = rng.randrange(1000), rng.randrange(32), rng.randrange(31)
    # every third case of a (hash, algorithm) pair keeps the identifiers (root key id and position) of the previous one
    # while the seed - and with it the group public key, as under another security descriptor - is new: the KEK depends
    # on the peer key actually given, not on the identifiers it came with
    prev = _last_ids.get((h, alg))
    if prev is not None and (idx // 24) % 3 == 1:
        rkid, l0, l1, l2 = prev
        rec.count("same_identifiers_other_seed")
    _last_ids[(h, alg)] = (rkid, l0, l1, l2)
    wit: t.Dict[str, t.Any] = {"hash": h, "alg": alg, "seed": seed, "pos": [l0, l1, l2], "rkid": str(rkid)}
    nontrivial = False
    rec.count(f"alg_{alg}")

    if alg == "nonce":
        mode = idx % 5
        nonce = [rng.randbytes(32), bytes(32), b"\x00" * 31 + b"\x01", b"\x00" * 8 + rng.randbytes(24), b"\xff" * 32][mode]
        if idx % 3 == 0:
            # nonces that LOOK like one of the structures the decrypting side knows (2^-30 under a real RNG, but legal)
            magic = rng.choice([b"DHPB", b"DHPM", b"ECK1", b"ECK3", b"ECK5", b"KDSK"])
            nonce = magic + rng.choice([(8).to_bytes(4, "little"), (32).to_bytes(4, "little"), rng.randbytes(4)]) + rng.randbytes(24)
            rec.count("structure_lookalike_nonces")
        wit["nonce"] = nonce
        # the shapes of envelope the encrypting side can hold (MS-GKDI 2.2.4 / what protect builds from its cache):
        #  A  L2 < 31, L2 key only                      (from the cache, mid interval)
        #  B  L2 = 31, L2 key only                      (from the cache, last L2 slot of an L1 interval)
        #  C  L2 = 31, L1 key and L2 key                (from a DC)
        #  D  L2 = 31, L1 key, L2 key absent            (from a DC that omits the derivable key)
        #  E  L2 < 31, L1 key (for L1-1) and L2 key     (from a DC, mid interval)
        shape = rng.choice("AABCDE")
        l1key = rng.randbytes(64)
        ctx31 = crypto.kdf_ctx(rkid, l0, l1, 31)
        if shape in "BCD":
            l2 = 31
            wit["pos"] = [l0, l1, l2]
        if shape in "CD":
            seed = crypto.sp800_108_ctr(h, l1key, crypto.KDS_LABEL, ctx31, 64)  # the L2 key at (l1, 31) IS derived from the L1 key
            wit["seed"] = seed
        env_l1 = l1key if shape in "CDE" else b""
        env_l2 = b"" if shape == "D" else seed
        wit["envelope_shape"] = shape
        rec.count(f"nonce_envelope_shape_{shape}")
        env_seed = envelope(G, h, "DH", b"", 512, 2048, rng.choice([0, 2]), l0, l1, l2, rkid, env_l1, env_l2)
        with mon.ENTROPY.record({32: [nonce]}) as ent:
            try:
                kek_enc, kid = env_seed.new_kek()
            except Exception as e:
                rec.violation("new-kek-exception", f"{type(e).__name__}: {e}", wit)
                return
        if ent.draws == 1 and kid.key_info == nonce:
            rec.count("entropy_draws_forced", ent.draws)
        else:
            # the implementation obtained its nonce some other way than one os.urandom(32) draw: that is its right (C19
            # judges the quality of the source); the chosen nonce classes are then not steered, but whatever nonce it
            # did emit must still give the same KEK on both sides and in the reference
            rec.count("entropy_not_steerable")
            nonce = kid.key_info
            wit["nonce"] = nonce
            if len(nonce) != 32:
                rec.violation("nonce-length", f"emitted nonce of {len(nonce)} bytes, MS-GKDI / the decrypting side use 32", wit)
                return
        want = crypto.kek_nonce(h, seed, nonce)
        nontrivial = mode != 0 or h != "SHA512" or shape != "A"
        secret_alg = "DH"
        # the decrypting side never holds shape B (an L2 = 31 envelope comes with its L1 key there): it is compared with the
        # reference only; every other shape is also handed to get_kek
        env_dec = None if shape == "B" else env_seed
    else:
        secret_alg = alg
        if alg == "DH":
            gsel = idx % 3
            if gsel == 0:
                p, g, kl, q = common.RFC5114_P, common.RFC5114_G, 256, RFC5114_Q
            else:
                p, g, kl = rng.choice(SMALL_GROUPS)
                q = None
                nontrivial = True
            privlen = rng.choice([512, 512, 256, 384, 521, 13, 8, 1000])
            priv_s = int.from_bytes(crypto.private_from_seed(h, seed, "DH", privlen), "big")
            y_s = pow(g, priv_s, p)
            nbytes = -(-privlen // 8)
            mode = idx % 7
            if mode == 0:
                eph = rng.getrandbits(8 * nbytes)
            elif mode == 1:
                eph = rng.choice([0, 1, 2])
            elif mode == 2:
                eph = rng.getrandbits(8 * max(1, nbytes - rng.randrange(1, nbytes + 1))) if nbytes > 1 else 1
            elif mode in (3, 4) and q is not None and nbytes >= 32:
                ks = small_k_with_leading_zero("dh")
                k = rng.choice(ks)
                inv = pow(priv_s % q, -1, q)
                eph = k * inv % q if mode == 3 else k  # 3: shared secret g^k has a leading zero; 4: public value does
            else:
                eph = (1 << (8 * nbytes)) - 1 - rng.randrange(3)
            eph_bytes = eph.to_bytes(nbytes, "big")
            wit.update(group=[str(p), str(g), kl], privlen=privlen, eph=eph_bytes)
            peer = rg.enc_ffc_dh_key(kl, p, g, y_s)
            sec_params = rg.enc_ffc_dh_parameters(kl, p, g)
            z_int = pow(y_s, eph, p)
            z = z_int.to_bytes(kl, "big")
            pub_int = pow(g, eph, p)
            want_info = rg.enc_ffc_dh_key(kl, p, g, pub_int)
            want = crypto.kek_from_secret(h, z, "sha256")
            publen = kl * 8
            if lz(z_int, kl):
                rec.count("leading_zero_shared_secret")
                nontrivial = True
            if lz(pub_int, kl):
                rec.count("leading_zero_public_value")
                nontrivial = True
            if lz(eph, nbytes):
                rec.count("leading_zero_private_key")
                nontrivial = True
            rec.seen("dh_groups", f"{p.bit_length()}bit/kl{kl}")
        else:
            cname = "P256" if alg.endswith("256") else "P384"
            c = crypto.CURVES[cname]
            privlen = c.size * 8
            priv_s = int.from_bytes(crypto.private_from_seed(h, seed, alg, privlen), "big")
            if not (1 <= priv_s < c.n):
                return  # 2^-32: seed gives an out-of-range scalar
            Ys = c.mul(priv_s, c.gx, c.gy)
            mode = idx % 6
            inv = pow(priv_s, -1, c.n)
            if mode == 0:
                eph = rng.randrange(1, c.n)
            elif mode == 1:
                eph = rng.choice(small_k_with_leading_zero(cname + "x"))  # public x has a leading zero
            elif mode == 2:
                eph = rng.choice(small_k_with_leading_zero(cname + "y"))  # public y has a leading zero
            elif mode == 3:
                eph = rng.choice(small_k_with_leading_zero(cname + "x")) * inv % c.n  # shared secret x has a leading zero
            elif mode == 4:
                eph = rng.randrange(1, 1 << (8 * (c.size - 1)))  # private key with a leading zero byte
            else:
                eph = c.n - 1 - rng.randrange(3)
            eph_bytes = eph.to_bytes(c.size, "big")
            wit.update(curve=cname, eph=eph_bytes)
            peer = rg.enc_ecdh_key(cname, c.size, Ys[0], Ys[1])
            sec_params = b""
            pub = c.mul(eph, c.gx, c.gy)
            zpt = c.mul(eph, Ys[0], Ys[1])
            z = zpt[0].to_bytes(c.size, "big")
            want_info = rg.enc_ecdh_key(cname, c.size, pub[0], pub[1])
            want = crypto.kek_from_secret(h, z, crypto.CURVE_HASH[cname])
            publen = privlen
            nbytes = c.size
            if lz(zpt[0], c.size):
                rec.count("leading_zero_shared_secret")
                nontrivial = True
            if lz(pub[0], c.size) or lz(pub[1], c.size):
                rec.count("leading_zero_public_value")
                nontrivial = True
            if lz(eph, c.size):
                rec.count("leading_zero_private_key")
                nontrivial = True
        nontrivial = nontrivial or h != "SHA512"
        # (the public-key flag is bit 0; Windows key identifiers of such blobs carry 3, other bits are not ours to interpret)
        pub_flags = rng.choice([1, 1, 3, 3, 5, 0x80000001])
        rec.seen("public_envelope_flags", pub_flags)
        env_pub = envelope(G, h, secret_alg, sec_params, privlen, publen, pub_flags, l0, l1, l2, rkid, b"", peer)
        with mon.ENTROPY.record({nbytes: [eph_bytes]}) as ent:
            try:
                kek_enc, kid = env_pub.new_kek()
            except Exception as e:
                rec.violation("new-kek-exception", f"{alg}: {type(e).__name__}: {e}", wit)
                return
        steered = ent.draws == 1 and ent.log[0][0] == nbytes
        if steered:
            rec.count("entropy_draws_forced", ent.draws)
        else:
            # ephemeral key generated some other way (e.g. by the crypto backend or the secrets module): the forced key
            # does not apply.  Recompute the reference from the DC's side instead: the emitted public value and the
            # private key derived from the seed give the same shared secret.
            rec.count("entropy_not_steerable")
            try:
                if alg == "DH":
                    kl2, p2, g2, pub_int = rg.dec_ffc_dh_key(kid.key_info)
                    if (kl2, p2, g2) != (kl, p, g):
                        raise ValueError("group parameters in the emitted key differ from the group's")
                    z_int = pow(pub_int, priv_s, p)
                    want_info = rg.enc_ffc_dh_key(kl, p, g, pub_int)
                    want = crypto.kek_from_secret(h, z_int.to_bytes(kl, "big"), "sha256")
                    if lz(z_int, kl):
                        rec.count("leading_zero_shared_secret_unsteered")
                else:
                    cn2, ks2, px, py = rg.dec_ecdh_key(kid.key_info)
                    if cn2 != cname or not c.on_curve(px, py):
                        raise ValueError("emitted point is not on the root key's curve")
                    zpt = c.mul(priv_s, px, py)
                    want_info = rg.enc_ecdh_key(cname, c.size, px, py)
                    want = crypto.kek_from_secret(h, zpt[0].to_bytes(c.size, "big"), crypto.CURVE_HASH[cname])
                    if lz(zpt[0], c.size):
                        rec.count("leading_zero_shared_secret_unsteered")
            except Exception as e:
                rec.violation("key-info-encoding", f"{alg}: emitted public value structure cannot be used by the decrypting side: {type(e).__name__}: {e}", dict(wit, got=kid.key_info))
                return
        rec.count("key_info_compared")
        if kid.key_info != want_info:
            rec.violation("key-info-encoding", f"{alg}: emitted public value structure differs from the reference encoding", dict(wit, got=kid.key_info, want=want_info))
            return
        if not kid.is_public_key:
            rec.violation("key-id-flags", f"{alg}: key identifier of a public-key KEK lacks the public-key flag", wit)
        env_dec = envelope(G, h, secret_alg, sec_params, privlen, publen, 0, l0, l1, l2, rkid, b"", seed)

    if (kid.l0, kid.l1, kid.l2, kid.root_key_identifier) != (l0, l1, l2, rkid):
        rec.violation("key-id-position", f"key identifier names {(kid.l0, kid.l1, kid.l2)} not {(l0, l1, l2)}", wit)
    if want is not None:
        rec.count("ref_kek_compared")
        if kek_enc != want:
            rec.violation("kek-enc-vs-reference", f"{alg}/{h}: new_kek KEK differs from the independent implementation", wit)
            return
    if env_dec is None:
        rec.case((h, alg, seed, wit.get("eph", wit.get("nonce"))), nontrivial=nontrivial)
        return
    try:
        kek_dec = env_dec.get_kek(kid)
    except Exception as e:
        rec.violation("get-kek-exception", f"{alg}: {type(e).__name__}: {e}", wit)
        return
    rec.count("enc_dec_agree_checked")
    if kek_dec != kek_enc:
        rec.violation("kek-enc-vs-dec", f"{alg}/{h}: KEK computed when decrypting differs from the one used to encrypt", wit)
    rec.case((h, alg, seed, wit.get("eph", wit.get("nonce"))), nontrivial=nontrivial, sample={k: v for k, v in wit.items() if k != "group"} if idx < 2 else None)


def run_shard(spec, rec: Recorder):
    if not common.calibrate(rec, "crypto", "gkdi", "cms"):
        return
    rng = common.rng_for(ID, spec)
    base = int(spec["name"].split("-")[1]) * 7
    for i in range(spec["n"]):
        one_case(rec, rng, base + i)


def replay(body, rec: Recorder):
    spec = {"name": body["shard"], "seed": body["seed"], "tier": body["tier"], "kind": "kek", "n": 180 if body["tier"] == "quick" else 6000}
    run_shard(spec, rec)
    rec.violations[:] = [v for v in rec.violations if v["mechanism"] == body["mechanism"]][:3]
