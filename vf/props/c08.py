"""C08 - SID and target security descriptor bytes follow MS-DTYP for every SID.

Monitor: ProtectionDescriptor.parse(sid).get_target_sd() is compared with an independent
MS-DTYP builder and decoded by a strict self-relative SD parser; an injectivity monitor keeps a
digest -> SID map for the whole shard; near-miss strings must raise ValueError.
"""
from __future__ import annotations

import random
import typing as t

from vf.core.framework import Recorder, digest
from vf.props import common
from vf.ref import sd as rsd

ID = "C08"
LEVEL = "exploration"
RULE = (
    "well-formed SIDs S-R-A-s1..sn generated with n in 1..15 (all), R in 0..9 (all), A and s_i from boundary classes "
    "{0,1,5,2^31,2^32-1 / 2^32,2^48-1,random}; near-miss strings from the classes named in the property. distinct = SID "
    "string; non-trivial = not one of the two SIDs used by the repository's tests"
    " Also: conversions from 8 threads at once; near-misses in other numeral notations (hex, octal, binary, exponent, separators, signs, full-width digits)."
)
ASSUMPTIONS = [
    "ref.sd transcribes MS-DTYP 2.4.2.2/2.4.4.2/2.4.5/2.4.6 (calibrated on the real SD of the Windows seed-key vector)",
    "leading zeros in a component (S-1-05-18) are not judged: they denote the same SID and the property does not decide them",
]
SUITE_SIDS = {"S-1-5-21-2185496602-3367037166-1388177638-1103", "S-1-5-21-4151808797-3430561092-2843464588-1104", "S-1-5-18", "S-1-1-0"}

SUB_CLASSES = [0, 1, 2**31 - 1, 2**31, 2**32 - 1]
AUTH_CLASSES = [0, 1, 5, 2**32, 2**48 - 1]


def plan(tier: str, seed: int) -> t.List[dict]:
    n = 2500 if tier == "quick" else 62500
    specs = [{"name": f"sids-{i}", "kind": "sids", "n": n} for i in range(16)]
    specs.append({"name": "grid", "kind": "grid"})
    specs.append({"name": "small", "kind": "small"})
    specs.append({"name": "nearmiss", "kind": "nearmiss", "n": 4000 if tier == "quick" else 100000})
    for i in range(2 if tier == "quick" else 8):
        specs.append({"name": f"threads-{i}", "kind": "threads", "n": 300 if tier == "quick" else 1500, "rounds": 4 if tier == "quick" else 10})
    return specs


def finalize(agg, tier):
    r = []
    for c in ("sd_compared", "sd_parsed_strictly", "nearmiss_rejected", "injectivity_entries"):
        if agg.counter(c) == 0:
            r.append(f"monitor never reached: {c} == 0")
    return r


def _blob():
    from dpapi_ng import _blob

    return _blob


def gen_sid(rng: random.Random, n: t.Optional[int] = None, r: t.Optional[int] = None) -> rsd.Sid:
    n = n or rng.randrange(1, 16)
    r = rng.randrange(0, 10) if r is None else r
    a = rng.choice(AUTH_CLASSES + [rng.randrange(2**48), rng.randrange(256)])
    subs = tuple(rng.choice(SUB_CLASSES + [rng.randrange(2**32), rng.randrange(2**32), rng.randrange(100000)]) for _ in range(n))
    return rsd.Sid(r, a, subs)


def _classify_reject(text: str) -> str:
    try:
        _blob().ProtectionDescriptor.parse(text).get_target_sd()
    except ValueError:
        return "ValueError"
    except Exception as e:  # noqa: BLE001
        return type(e).__name__
    return "accepted"


def check_sid(rec: Recorder, sid: rsd.Sid, seen: t.Dict[str, str]) -> None:
    s = str(sid)
    wit = {"sid": s}
    try:
        got = _blob().ProtectionDescriptor.parse(s).get_target_sd()
    except Exception as e:
        rec.violation("wellformed-sid-rejected", f"{s}: {type(e).__name__}: {e}", wit)
        return
    want = rsd.target_sd(sid)
    rec.count("sd_compared")
    if got != want:
        rec.violation("sd-bytes-mismatch", f"{s}: got {got.hex()} want {want.hex()}", wit)
        return
    try:
        p = rsd.parse_sd(got)
        rec.count("sd_parsed_strictly")
        aces = p["dacl"]["aces"]
        ok = (
            p["control"] == 0x8004
            and p["owner"] == rsd.SYSTEM
            and p["group"] == rsd.SYSTEM
            and p["sacl"] is None
            and [(a[0], a[1], a[2], a[3]) for a in aces] == [(0, 0, 3, sid), (0, 0, 2, rsd.EVERYONE)]
            and p["regions"] == ["header", "dacl", "owner", "group"]
        )
        if not ok:
            rec.violation("sd-semantic-mismatch", f"{s}: parsed {p}", wit)
    except Exception as e:
        rec.violation("sd-inconsistent", f"{s}: strict parser: {type(e).__name__}: {e}", wit)
    d = digest(got)
    prev = seen.get(d)
    if prev is not None and prev != s:
        rec.violation("sd-not-injective", f"{s} and {prev} give the same SD bytes", {"sid": s, "other": prev})
    seen[d] = s
    rec.count("injectivity_entries")


def near_misses(rng: random.Random) -> t.Iterator[t.Tuple[str, str]]:
    base = gen_sid(rng, n=rng.randrange(1, 5), r=1)
    s = str(base)
    big = [2**32, 2**32 + 1, 2**48, 2**63, 2**64 - 1, 2**64, 2**64 + 7, 10**30]
    yield "n0", f"S-{base.revision}-{base.authority}"
    yield "n16", s.rsplit("-", len(base.subs))[0] + "-" + "-".join(str(rng.randrange(100)) for _ in range(16))
    yield "n17", "S-1-5-" + "-".join("1" for _ in range(17))
    yield "sub-range", s + "-" + str(rng.choice(big)) if len(base.subs) < 15 else f"S-1-5-{rng.choice(big)}"
    yield "sub-range-mid", f"S-1-5-{rng.choice(big)}-7"
    yield "auth-range", f"S-1-{rng.choice([2**48, 2**48 + 1, 2**56, 2**63, 2**64 - 1, 2**64, 2**64 + 1, 10**30])}-{rng.randrange(1000)}"
    yield "trailing-nl", s + "\n"
    yield "trailing-crlf", s + "\r\n"
    yield "leading-nl", "\n" + s
    yield "trailing-space", s + " "
    yield "leading-space", " " + s
    yield "inner-space", s.replace("-", "- ", 1)
    yield "inner-space2", s.replace("-", " -", 2)
    yield "tab", s.replace("-", "-\t", 3) if s.count("-") >= 3 else s + "\t"
    for name, digits in (("arabic-indic", "٠١٢٣٤٥٦٧٨٩"), ("fullwidth", "０１２３４５６７８９"), ("devanagari", "०१२३४५६७८९")):
        d = str(rng.randrange(10, 99))
        yield name, f"S-1-5-{''.join(digits[int(c)] for c in d)}"
        yield name + "-rev", f"S-{digits[1]}-5-18"
        yield name + "-auth", f"S-1-{digits[5]}-18"
    yield "plus", f"S-1-5-+{rng.randrange(100)}"
    yield "minus", f"S-1-5--{rng.randrange(1, 100)}"
    yield "minus2", f"S-1--5-{rng.randrange(1, 100)}"
    yield "plus-auth", f"S-1-+5-{rng.randrange(100)}"
    yield "empty-part", f"S-1-5--"
    yield "empty-mid", f"S-1-5--{rng.randrange(100)}-3"
    yield "empty-rev", f"S--5-18"
    yield "trailing-dash", s + "-"
    yield "lower-s", "s" + s[1:]
    yield "two-digit-rev", f"S-1{rng.randrange(10)}-5-18"
    yield "no-prefix", s[2:]
    yield "prefix-junk", "x" + s
    yield "suffix-junk", s + "x"
    yield "hex", f"S-1-5-0x{rng.randrange(255):x}"
    yield "underscore", f"S-1-5-1_000"
    yield "float", f"S-1-5-1.0"
    yield "exp", f"S-1-5-1e3"
    yield "nul", s + "\x00"
    yield "unicode-minus", s.replace("-", "−", 1)
    yield "vertical-tab", s + "\x0b"
    yield "form-feed", "\x0c" + s
    yield "nbsp", s + "\u00a0"
    yield "bom", "\ufeff" + s
    yield "superscript-digit", "S-1-5-\u00b2"
    yield "superscript-rev", "S-\u00b9-5-18"
    yield "circled-digit", "S-1-5-\u2460"
    yield "roman-numeral", "S-1-5-\u2167"
    yield "embedded-nul", s.replace("-", "-\x00", 2) if s.count("-") >= 2 else "S-1-\x005-18"
    yield "thousands-of-digits", "S-1-5-" + "9" * rng.choice([4300, 5000, 20000])
    yield "thousands-of-zeros-then-big", "S-1-5-" + "0" * 5000 + str(2**32)
    yield "many-parts", "S-1-5" + "-1" * rng.choice([16, 17, 100, 5000])
    yield "line-separator", s + "\u2028"
    yield "next-line", s + "\x85"
    yield "fullwidth-S", "\uff33" + s[1:]
    yield "fullwidth-dash", s.replace("-", "\uff0d", 1)
    yield "en-dash", s.replace("-", "\u2013", 1)
    yield "empty", ""
    yield "just-S", "S"
    yield "S-", "S-"
    # descriptor-rule syntax around a SID (what NCryptCreateProtectionDescriptor takes) is not a SID string either
    for form in ("SID={}", "sid={}", "SID=={}", "SID= {}", "SID={} AND SID=S-1-5-18", "SID=S-1-5-18 AND SID={}", "SID={} OR SID=S-1-1-0", "{};", "({})", "SID:{}", "LOCAL=user;SID={}", "SDDL=O:{}"):
        yield "descriptor-rule-syntax", form.format(s)
    # other numeral notations, in and out of range (none of them is the canonical decimal form)
    auths = ["0x5", "0X5", "0x000000000005", "0xFFFFFFFFFFFF", "0x1000000000000", "0x10000000000000000", "0x" + "F" * 40, "0o5", "0b101", "5e3", "1_0", "\uff15", "-5", "+5", " 5"]
    subsn = ["0x12", "0xFFFFFFFF", "0x100000000", "0x10000000000000000", "0x" + "f" * 64, "1_000", "1e3", "0o17", "+1", "-1", " 1", "1 ", "\uff12", "0x0"]
    for _ in range(6):
        good_sub = str(rng.randrange(2**32))
        yield "notation-authority", "-".join(["S", "1", rng.choice(auths)] + [good_sub] * rng.choice([1, 2, 15]))
        k = rng.choice([1, 2, 5, 15])
        parts = [good_sub] * k
        parts[rng.randrange(k)] = rng.choice(subsn)
        yield "notation-subauthority", "-".join(["S", "1", "5"] + parts)
        yield "notation-revision", "-".join([rng.choice(["S", "s"]), rng.choice(["0x1", "+1", "\uff11", "1 "]), "5", good_sub])


def check_near_miss(rec: Recorder, cls: str, s: str) -> None:
    if rsd.canonical_sid_from_string(s) is not None:
        rec.inconclusive_because(f"generator bug: near-miss {s!r} is canonical")
        return
    wit = {"class": cls, "string": s}
    try:
        got = _blob().ProtectionDescriptor.parse(s).get_target_sd()
    except ValueError:
        rec.count("nearmiss_rejected")
        rec.seen("nearmiss_classes_rejected", cls)
        return
    except Exception as e:
        mech = "sid-range" if isinstance(e, OverflowError) else f"nearmiss-{type(e).__name__}"
        rec.violation(mech, f"near-miss {s!r} ({cls}) raised {type(e).__name__} instead of ValueError: {e}", wit)
        return
    rec.violation("sid-grammar", f"near-miss {s!r} ({cls}) accepted -> {got.hex()[:80]}", wit)


def run_shard(spec: dict, rec: Recorder) -> None:
    if not common.calibrate(rec, "sd"):
        return
    rng = common.rng_for(ID, spec)
    seen: t.Dict[str, str] = {}
    if spec["kind"] == "threads":
        # the same conversions from 8 threads at once (different SIDs in flight in different threads), against the reference
        # bytes computed beforehand: "for every SID" must not depend on what other threads of the process are converting
        from dpapi_ng import _security_descriptor as sdm

        tasks = []
        for i in range(spec["n"]):
            sid = gen_sid(rng)
            text = str(sid)
            want_sd = rsd.target_sd(sid)
            want_sid = rsd.sid_bytes(sid) if hasattr(rsd, "sid_bytes") else None
            tasks.append((lambda text=text: _blob().ProtectionDescriptor.parse(text).get_target_sd(), want_sd, {"sid": text, "kind": "threads"}))
            if want_sid is not None:
                tasks.append((lambda text=text: sdm.sid_to_bytes(text), want_sid, {"sid": text, "kind": "threads", "fn": "sid_to_bytes"}))
            rec.case(("threads", spec["name"], text))
        for bad in ("S-1-5-4294967296", "S-1-281474976710656-1", "S-1-5", "S-1-5-18\n"):
            tasks.append((lambda bad=bad: _classify_reject(bad), "ValueError", {"sid": bad, "kind": "threads-nearmiss"}))
        common.hammer(rec, tasks, "sd-bytes-mismatch-under-threads", rounds=spec["rounds"], seed=spec["seed"])
        rec.count("sd_compared", len(tasks))
        return
    if spec["kind"] == "sids":
        for i in range(spec["n"]):
            sid = gen_sid(rng)
            check_sid(rec, sid, seen)
            rec.case(("sid", str(sid)), nontrivial=str(sid) not in SUITE_SIDS, sample={"sid": str(sid)} if i < 2 else None)
        rec.seen("subauthority_counts", "all 1..15")
    elif spec["kind"] == "small":
        # every small SID: the well-known ones live here, and so would any table of special cases
        for a in range(0, 23):
            for v in range(0, 1100):
                sid = rsd.Sid(1, a, (v,))
                check_sid(rec, sid, seen)
            rec.case(("small", a))
        for first in (21, 32, 64, 80, 90):
            for v in list(range(0, 20)) + list(range(480, 600)) + [1000, 1104]:
                check_sid(rec, rsd.Sid(1, 5, (first, v)), seen)
                check_sid(rec, rsd.Sid(1, 5, (first, 1, 2, 3, v)), seen)
        for a in (15, 16, 18, 19):
            for v in range(0, 70):
                for w in (0, 1, 2, 4096, 8192, 12288, 16384):
                    check_sid(rec, rsd.Sid(1, a, (v, w)), seen)
        rec.count("small_sid_grid")
        rec.mark_exhaustive("S-1-a-v for a in 0..22, v in 0..1099; S-1-5-{21,32,64,80,90}-v well-known ranges")
    elif spec["kind"] == "grid":
        # every (n, R) with every boundary class in every position once
        for n in range(1, 16):
            for r in range(10):
                for a in AUTH_CLASSES:
                    for cls in SUB_CLASSES:
                        pos = rng.randrange(n)
                        subs = tuple(cls if j == pos else rng.choice(SUB_CLASSES) for j in range(n))
                        sid = rsd.Sid(r, a, subs)
                        check_sid(rec, sid, seen)
                        rec.case(("sid", str(sid)))
        for s in SUITE_SIDS:
            check_sid(rec, rsd.canonical_sid_from_string(s), seen)
            rec.case(("sid", s), nontrivial=False)
        # the longest canonical strings: every component at (or next to) its maximum
        for n in range(1, 16):
            for a in (2**48 - 1, 2**48 - 2, 10**14, 2**32):
                for top in (2**32 - 1, 2**32 - 2, 4000000000, 10**9):
                    sid = rsd.Sid(rng.choice([1, 9]), a, tuple(top - (j % 2) for j in range(n)))
                    check_sid(rec, sid, seen)
                    rec.case(("sid", str(sid)))
                    rec.range("sid_string_length", len(str(sid)))
        # state between calls: look-alike SIDs interleaved and repeated in both orders must not share results
        for _ in range(300):
            a = gen_sid(rng, n=rng.randrange(1, 16))
            pos = rng.randrange(len(a.subs))
            variants = [a, a._replace(subs=a.subs[:pos] + ((a.subs[pos] + 2**31) % 2**32,) + a.subs[pos + 1 :]), a._replace(authority=(a.authority + 2**32) % 2**48), a._replace(revision=(a.revision + 1) % 10), a._replace(subs=a.subs[:-1] + ((a.subs[-1] + 1) % 2**32,))]
            order = variants + variants[::-1] + [a]
            for v in order:
                check_sid(rec, v, seen)
            rec.case(("interleaved", str(a)))
        rec.count("interleaved_lookalike_groups", 300)
        rec.mark_exhaustive("(n in 1..15) x (R in 0..9) x authority classes x sub-authority classes")
    else:
        i = 0
        while i < spec["n"]:
            for cls, s in near_misses(rng):
                check_near_miss(rec, cls, s)
                rec.case(("nearmiss", s), sample={"class": cls, "string": s} if i < 3 else None)
                i += 1


def replay(body: dict, rec: Recorder) -> None:
    w = body["witness"]
    if "string" in w:
        check_near_miss(rec, w.get("class", "?"), w["string"])
    else:
        seen: t.Dict[str, str] = {}
        if "other" in w:
            check_sid(rec, rsd.canonical_sid_from_string(w["other"]), seen)
            rec.violations.clear()
        check_sid(rec, rsd.canonical_sid_from_string(w["sid"]), seen)
    rec.case(("replay", repr(w)))
