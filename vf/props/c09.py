"""C09 - encryption names the group key of the interval containing the current time.

Monitor: time.time_ns / time.time are replaced by a scripted clock (reads are counted); protect
runs on the real code with an offline root key; the key identifier is read back from the blob
with the independent CMS/GKDI parsers and compared with exact integer arithmetic.
"""
from __future__ import annotations

import math
import typing as t
import uuid

from vf.core.framework import Recorder
from vf.instruments import monitors as mon
from vf.props import common
from vf.ref import cms, gkdi

ID = "C09"
LEVEL = "exploration"
RULE = (
    "instants t (100ns ticks since 1601): every offset in [-64,+64] around L0 boundaries (quick 40, thorough 361 epochs), "
    "around L1 and L2 boundaries (quick 200 each, thorough 2000 each), sub-tick ns phases {0,1,50,99}, random instants in "
    "1970..2200 and the real clock. distinct = (t, phase); non-trivial = within 64 ticks of an interval boundary"
    " Also: a clock that advances on every read with a boundary between the 1st..6th read (moving-* shards); TZ configurations; seed-key caches; if the code does not read a scripted clock the case is judged against the real clock."
)
ASSUMPTIONS = [
    "the library obtains 'now' through time.time_ns or time.time (scripted; if the read counter stays 0 the case is judged against the real clock instead, without boundary steering)",
    "t = ns // 100 + 116444736000000000 (FILETIME), B = 3.6e11 ticks per L2 interval (MS-GKDI 3.1.4.1)",
]

B = 360000000000
SID = "S-1-5-21-2185496602-3367037166-1388177638-1103"
RKID = uuid.UUID("d1ff5b1c-4b3f-4e2a-9d60-0c1f0c09a7b1")
ROOT = bytes(range(64))


def expected(t_: int) -> t.Tuple[int, int, int]:
    return (t_ // (1024 * B), (t_ // (32 * B)) % 32, (t_ // B) % 32)


def float_neighbours(ft: int) -> t.Set[t.Tuple[int, int, int]]:
    """Intervals within two double-precision ulps of t (what a reader of time.time() can legitimately see)."""
    fuzz = int(math.ulp(mon.filetime_to_ns(ft, 0) / 1e9) * 1e7 * 2) + 2
    return {expected(ft - fuzz), expected(ft + fuzz)}


def plan(tier: str, seed: int) -> t.List[dict]:
    q = tier == "quick"
    specs = []
    l0s = list(range(340, 701))
    if q:
        import random

        r = random.Random(f"C09:{seed}")
        l0s = sorted(set(r.sample(l0s, 37) + [361, 362, 363]))
    for i, chunk in enumerate(common.split(l0s, 8 if q else 16)):
        specs.append({"name": f"l0-{i}", "kind": "l0", "l0s": chunk})
    n12 = 200 if q else 2000
    for i in range(8 if q else 16):
        specs.append({"name": f"l1l2-{i}", "kind": "l1l2", "n": n12 // (8 if q else 16)})
    for i in range(8 if q else 16):
        specs.append({"name": f"rand-{i}", "kind": "rand", "n": (5000 if q else 100000) // (8 if q else 16)})
    for i in range(4 if q else 16):
        specs.append({"name": f"seedcache-{i}", "kind": "seedcache", "n": 6 if q else 40})
    for i in range(2 if q else 8):
        specs.append({"name": f"moving-{i}", "kind": "moving", "n": 40 if q else 400})
    # the process environment is part of the configuration: local time zones (set before the interpreter imports anything)
    for tz in ("Europe/Berlin", "America/New_York", "Australia/Sydney", "Asia/Kolkata") if q else ("Europe/Berlin", "America/New_York", "Australia/Sydney", "Asia/Kolkata", "Pacific/Chatham", "America/St_Johns", "Africa/Monrovia", "UTC"):
        specs.append({"name": f"tz-{tz.replace('/', '_')}", "kind": "l0", "l0s": [361, 362, 400 + len(tz)], "env": {"TZ": tz}})
        specs.append({"name": f"tzrand-{tz.replace('/', '_')}", "kind": "rand", "n": 300 if q else 3000, "env": {"TZ": tz}})
    return specs


def finalize(agg, tier):
    r = []
    if agg.counter("clock_reads") == 0 and agg.counter("clock_not_steerable") == 0:
        r.append("no clock observation at all")
    if agg.counter("identifiers_compared") == 0:
        r.append("no key identifier compared")
    if agg.counter("realclock_cases") == 0:
        r.append("real clock case missing")
    if agg.counter("seedcache_identifiers_compared") == 0:
        r.append("the 'previously retrieved seed keys' path was never exercised")
    return r


_cache = None


def cache():
    global _cache
    if _cache is None:
        import dpapi_ng

        _cache = dpapi_ng.KeyCache()
        _cache.load_key(ROOT, RKID)
    return _cache


SIDS = [SID, "S-1-5-18", "S-1-5-21-1-2-3-4-5-6-7-8-9-10-11-12-13-14", "S-1-0-0"]
RKID2 = uuid.UUID("0f3c5a6e-1111-4222-8333-944455556666")
_n = [0]


def protect_at(ft: int, phase: int = 0, fresh_cache: bool = False) -> bytes:
    import dpapi_ng

    c = cache()
    if fresh_cache:
        c = dpapi_ng.KeyCache()
        c.load_key(ROOT, RKID)
    _n[0] += 1
    sid = SIDS[_n[0] % 4 if _n[0] % 3 == 0 else 0]  # mostly one SID (stateful effects), regularly the others
    if _n[0] == 1000:
        c.load_key(bytes(range(64, 128)), RKID2)  # a second root key appears in the shared cache later on
    rk = RKID2 if (_n[0] > 1000 and _n[0] % 7 == 0 and not fresh_cache) else RKID
    with mon.CLOCK.at_ns(mon.filetime_to_ns(ft, phase)):
        return dpapi_ng.ncrypt_protect_secret(b"c09", sid, root_key_identifier=rk, cache=c)


def check_instant(rec: Recorder, ft: int, phase: int, near: bool, fresh: bool = False) -> None:
    wit = {"filetime": str(ft), "phase_ns": phase, "fresh_cache": fresh}
    before, fbefore = mon.CLOCK.sut_reads, mon.CLOCK.float_reads
    real0 = mon.CLOCK._orig_ns()
    try:
        blob = protect_at(ft, phase, fresh)
    except Exception as e:
        rec.violation("protect-raised", f"protect at t={ft}+{phase}ns raised {type(e).__name__}: {e}", wit)
        return
    rec.count("clock_reads", mon.CLOCK.sut_reads - before)
    try:
        kid = gkdi.dec_key_identifier(cms.parse(blob)["key_identifier"])
    except Exception as e:
        rec.violation("blob-unparseable", f"independent parser failed on emitted blob: {type(e).__name__}: {e}", wit)
        return
    got = (kid["l0"], kid["l1"], kid["l2"])
    exp = expected(ft)
    rec.count("identifiers_compared")
    if mon.CLOCK.sut_reads == before:
        # the code under test did not ask time.time_ns / time.time (e.g. datetime.now()): the scripted instant cannot be
        # imposed; the blob must then name the interval containing the REAL current time (either one if a boundary passed)
        rec.count("clock_not_steerable")
        real1 = mon.CLOCK._orig_ns()
        ok = {expected(real0 // 100 + mon.EPOCH_FILETIME), expected(real1 // 100 + mon.EPOCH_FILETIME)}
        if got not in ok:
            rec.violation("interval-mismatch", f"real clock {real0}..{real1} ns: blob names {got}, interval containing now is {sorted(ok)}", wit)
        rec.case((ft, phase), nontrivial=False)
        return
    if got != exp and mon.CLOCK.float_reads > fbefore and got in float_neighbours(ft):
        # 'now' was read as a float (time.time()): a double resolves 2.4e-7 s today (3.8e-6 s in the 24th century), so
        # instants within two ulps of a boundary are not distinguishable by the code under test - not judged
        rec.count("float_clock_boundary_not_judged")
        rec.case((ft, phase), nontrivial=False)
        return
    if got != exp:
        mech = "l0-float-division" if (got[0] == exp[0] + 1 and exp[1:] == (31, 31)) else "interval-mismatch"
        rec.violation(mech, f"t={ft} (+{phase}ns): blob names {got}, interval containing t is {exp}", wit)
    rec.case((ft, phase), nontrivial=near)


def run_moving(spec: dict, rec: Recorder) -> None:
    """A clock that moves while the call runs (every read of the clock returns a later instant, as a real clock does), placed
    so that an L2 / L1 / L0 boundary falls between the first and a later read.  Whatever number of times the code reads the
    clock, the blob must name the interval of ONE of the instants it was shown - never a mixture of two of them."""
    import dpapi_ng

    rng = common.rng_for(ID, spec)
    c = dpapi_ng.KeyCache()
    c.load_key(ROOT, RKID)
    for i in range(spec["n"]):
        l0 = rng.randrange(340, 701)
        level = i % 3
        bnd = (l0 * 1024 + (0 if level == 0 else rng.randrange(1, 32)) * 32 + (0 if level < 2 else rng.randrange(1, 32))) * B
        for step_ticks in (1, 7, 100):
            for before in range(0, 6):  # the boundary is crossed by the (before+1)-th read
                start_ft = bnd - before * step_ticks - 1
                wit = {"kind": "moving", "boundary_filetime": str(bnd), "level": ["L0", "L1", "L2"][level], "step_ticks": step_ticks, "reads_before_boundary": before}
                fb = mon.CLOCK.float_reads
                with mon.CLOCK.at_ns(mon.filetime_to_ns(start_ft, 50), step_ns=step_ticks * 100) as clk:
                    try:
                        blob = dpapi_ng.ncrypt_protect_secret(b"c09-moving", SID, root_key_identifier=RKID, cache=c)
                    except Exception as e:
                        rec.violation("protect-raised", f"moving clock around {bnd}: {type(e).__name__}: {e}", wit)
                        continue
                    served = list(clk.served)
                if not served:
                    rec.count("clock_not_steerable")
                    continue
                kid = gkdi.dec_key_identifier(cms.parse(blob)["key_identifier"])
                got = (kid["l0"], kid["l1"], kid["l2"])
                shown = {expected(v // 100 + mon.EPOCH_FILETIME) for v in served}
                if mon.CLOCK.float_reads > fb:
                    # read as a float: instants within two ulps of a boundary are not distinguishable by the code under test
                    for v in served:
                        shown |= float_neighbours(v // 100 + mon.EPOCH_FILETIME)
                rec.count("moving_clock_identifiers_compared")
                rec.range("clock_reads_per_protect", len(served))
                if got not in shown:
                    rec.violation("interval-mixed-from-several-clock-reads", f"the clock showed instants in {sorted(shown)} during the call, the blob names {got}: an interval the clock was never in", wit)
                rec.case(("moving", bnd, step_ticks, before), nontrivial=True)
    rec.sample({"kind": "moving clock", "boundaries": spec["n"], "steps": [1, 7, 100], "reads_before_boundary": "0..5"})


def run_seedcache(spec: dict, rec: Recorder) -> None:
    """The key comes from seed keys previously retrieved from a DC (no root key loaded): an unprotect
    through the in-memory reference DC fills the cache with the envelope for (L0, a, b); protect calls
    naming that root key at instants whose interval is covered must then name exactly that interval
    (taken from the cache: the network guard is armed, any DC contact would be recorded)."""
    import dpapi_ng
    from vf.props import online
    from vf.refdc import frontends as fe
    from vf.refdc.core import DCConfig, DCCore

    rng = common.rng_for(ID, spec)
    for rnd in range(spec["n"]):
        rkid = uuid.UUID(int=rng.getrandbits(128))
        rk = online.root_key(rng, rng.choice(common.HASHES), "DH")
        l0 = rng.randrange(340, 700)
        a, b = rng.randrange(1, 32), rng.randrange(0, 32)
        if rnd % 3 == 2:
            a = 0  # the first L1 interval of an L0: the DC's envelope then has no L1 key at all
        cfg = DCConfig({rkid: rk}, rkid, now=(l0, 31, 31), security="scripted")
        cfg.l2_key_absent_at_31 = rng.random() < 0.5
        core = DCCore(cfg)
        cachex = dpapi_ng.KeyCache()
        sid = online.gen_sid(rng)
        blob0 = online.ref_blob(rng, rkid, rk, sid, (l0, a, b), "nonce", b"seed")
        with fe.MemoryDC(core).installed():
            if dpapi_ng.ncrypt_unprotect_secret(blob0, server="dc.c09.test", username="u", password="p", auth_protocol="ntlm", cache=cachex) != b"seed":
                rec.inconclusive_because("seeding unprotect through the reference DC failed")
                return
        # instants covered by the cached envelope: positions <= (a, b) within l0
        bounds = []
        for _ in range(6):
            l1 = rng.randrange(0, a + 1)
            l2 = rng.randrange(0, 32) if l1 < a else rng.randrange(0, b + 1)
            bounds.append(((l0 * 1024 + l1 * 32 + l2) * B, (l1, l2)))
        bounds.append(((l0 * 1024 + a * 32 + b) * B, (a, b)))
        bounds.append((l0 * 1024 * B, (0, 0)))
        for bnd, _pos in bounds:
            for off in (-3, -1, 0, 1, 7, B - 1, B // 2):
                ft = bnd + off
                exp = expected(ft)
                covered = exp[0] == l0 and (exp[1] < a or (exp[1] == a and exp[2] <= b))
                wit = {"filetime": str(ft), "seed_position": [l0, a, b], "kind": "seedcache", "shard": spec["name"], "round": rnd}
                rb, fb = mon.CLOCK.sut_reads, mon.CLOCK.float_reads
                try:
                    with mon.CLOCK.at_ns(mon.filetime_to_ns(ft, rng.randrange(100))), mon.NET.guard():
                        out = dpapi_ng.ncrypt_protect_secret(b"c09-seed", sid, root_key_identifier=rkid, cache=cachex)
                except mon.NetworkAttempt:
                    rec.count("seedcache_not_covered_went_to_network")
                    if mon.CLOCK.sut_reads == rb:
                        rec.count("clock_not_steerable")  # the real 'now' is not covered by this (past) seed key: going to the DC is right
                        continue
                    if covered and mon.CLOCK.float_reads > fb and len(float_neighbours(ft)) > 1:
                        rec.count("float_clock_boundary_not_judged")
                        continue
                    if covered:
                        rec.violation("covered-interval-not-served-from-cache", f"t={ft} lies in {exp}, covered by the cached seed keys {(l0, a, b)}, but protect tried to contact a DC", wit)
                    continue
                except Exception as e:
                    rec.violation("protect-raised", f"seed-cache path, t={ft}: {type(e).__name__}: {e}", wit)
                    continue
                kid = gkdi.dec_key_identifier(cms.parse(out)["key_identifier"])
                got = (kid["l0"], kid["l1"], kid["l2"])
                rec.count("seedcache_identifiers_compared")
                if mon.CLOCK.sut_reads == rb:
                    rec.count("clock_not_steerable")
                    now_ft = mon.CLOCK._orig_ns() // 100 + mon.EPOCH_FILETIME
                    if got not in (expected(now_ft), expected(now_ft - 10**7 * 60)):
                        rec.violation("interval-mismatch", f"seed-cache path, real clock: blob names {got}, now is in {expected(now_ft)}", wit)
                    continue
                if got != exp and mon.CLOCK.float_reads > fb and got in float_neighbours(ft):
                    rec.count("float_clock_boundary_not_judged")
                    continue
                if got != exp:
                    rec.violation("interval-mismatch", f"seed-cache path: t={ft}: blob names {got}, interval containing t is {exp}", wit)
                elif cms.reference_unprotect(out, {rkid: rk}) != b"c09-seed":
                    rec.violation("seedcache-blob-undecryptable", f"seed-cache path: t={ft}: blob names {got} but the reference implementation cannot decrypt it", wit)
                rec.case(("seedcache", ft), nontrivial=True)
    rec.sample({"kind": "seed keys from a previous DC reply", "seed_position": [l0, a, b], "example_filetime": ft})


def run_shard(spec: dict, rec: Recorder) -> None:
    if not common.calibrate(rec, "gkdi", "der"):
        return
    if spec["kind"] == "seedcache":
        if common.calibrate(rec, "crypto", "cms", "rpc", "epm", "sd"):
            run_seedcache(spec, rec)
        return
    if spec["kind"] == "moving":
        if common.calibrate(rec, "cms"):
            run_moving(spec, rec)
        return
    rng = common.rng_for(ID, spec)
    kind = spec["kind"]
    if spec.get("env", {}).get("TZ"):
        import os
        import time as _t

        if os.environ.get("TZ") != spec["env"]["TZ"]:
            rec.inconclusive_because("TZ was not applied to the shard process")
            return
        rec.seen("time_zones", f"{spec['env']['TZ']} {_t.tzname}")
    if kind == "l0":
        for l0 in spec["l0s"]:
            bnd = l0 * 1024 * B
            for off in range(-64, 65):
                check_instant(rec, bnd + off, rng.choice([0, 1, 50, 99]) if off % 7 else 99, True)
            rec.seen("l0_boundaries", l0)
        rec.sample({"kind": "L0 boundary", "l0": spec["l0s"][0], "filetime": spec["l0s"][0] * 1024 * B, "offsets": "-64..+64"})
        rec.mark_exhaustive("offsets -64..+64 around each listed L0 boundary")
    elif kind == "l1l2":
        for i in range(spec["n"]):
            l0 = rng.randrange(340, 701)
            l1 = rng.randrange(32)
            l2 = rng.randrange(32)
            b1 = (l0 * 1024 + l1 * 32) * B
            b2 = (l0 * 1024 + l1 * 32 + l2) * B
            for bnd, name in ((b1, "L1"), (b2, "L2")):
                for off in range(-64, 65):
                    check_instant(rec, bnd + off, (off * 37) % 100, True)
                rec.count(f"{name}_boundaries")
        rec.sample({"kind": "L1/L2 boundaries", "example_filetime": b2, "offsets": "-64..+64"})
    else:
        lo = mon.EPOCH_FILETIME
        hi = mon.EPOCH_FILETIME + 230 * 365 * 24 * 3600 * 10**7
        for i in range(spec["n"]):
            ft = rng.randrange(lo, hi)
            check_instant(rec, ft, rng.randrange(100), abs((ft % B) - B // 2) > B // 2 - 64, fresh=(i % 50 == 0))
        # far outside the everyday range: 1700, just before 1970, 2262 (64-bit ns limit), 3000, 9999; time going backwards
        year = 365.2425 * 864000000000
        for yr in (1700, 1900, 1969.9999, 1970.0001, 2262.3, 2500, 3000, 9999):
            base_ft = int((yr - 1601) * year)
            for j in range(6):
                ft = base_ft - j * (B * 32 * 40 + 12345)
                check_instant(rec, ft, 0, True)
                for bnd in ((ft // B) * B, (ft // (32 * B)) * 32 * B, (ft // (1024 * B)) * 1024 * B):
                    for off in (-1, 0, 1):
                        check_instant(rec, bnd + off, 99 if off < 0 else 0, True)
            rec.seen("extreme_years", yr)
        rec.sample({"kind": "random instant", "filetime": ft})
        # the real clock (no scripted value): identifier must be the interval of an instant between two reads
        import time

        import dpapi_ng

        t0 = time.time_ns() // 100 + mon.EPOCH_FILETIME
        blob = dpapi_ng.ncrypt_protect_secret(b"c09", SID, root_key_identifier=RKID, cache=cache())
        t1 = time.time_ns() // 100 + mon.EPOCH_FILETIME
        kid = gkdi.dec_key_identifier(cms.parse(blob)["key_identifier"])
        got = (kid["l0"], kid["l1"], kid["l2"])
        if got not in (expected(t0), expected(t1)):
            rec.violation("interval-mismatch-realclock", f"real clock: blob names {got}, now is {expected(t0)}..{expected(t1)}", {"filetime": str(t0), "phase_ns": 0, "realclock": True})
        rec.count("realclock_cases")
        rec.case(("real", t0), nontrivial=False)


def replay(body: dict, rec: Recorder) -> None:
    w = body["witness"]
    if w.get("kind") == "seedcache":
        run_shard({"name": w["shard"], "seed": body["seed"], "tier": body["tier"], "kind": "seedcache", "n": 6 if body["tier"] == "quick" else 40}, rec)
        rec.violations[:] = [v for v in rec.violations if v["mechanism"] == body["mechanism"]][:3]
        return
    check_instant(rec, int(w["filetime"]), int(w.get("phase_ns", 0)), True, bool(w.get("fresh_cache")))
