"""C06 - emitted blobs are canonical CMS in Windows' layout; encode/decode are inverse.

Monitor: (a) every blob returned by ncrypt_protect_secret / async variant is parsed by the
strict ref.der parser and matched against the ref.cms template (calibrated on the 16 Windows
blobs); (b) synthetic DPAPINGBlob values are packed and compared byte-for-byte with the reference
template builder, then unpacked and compared with the original value; pack(unpack(b)) == b.
"""
from __future__ import annotations

import asyncio
import random
import typing as t
import uuid

from vf.core.framework import Recorder
from vf.instruments import monitors as mon
from vf.props import common
from vf.ref import cms, der, gkdi as rg

ID = "C06"
LEVEL = "exploration"
RULE = (
    "emitted blobs: protect (sync/async) over hashes x plaintext-length classes x SIDs x clock values; synthetic blob values: key "
    "identifier fields from {0,1,2^31,2^32-1,random}, Unicode (BMP+astral) names 0..300 chars, key_info 0..800 bytes, enc_content lengths "
    "around every DER length-form boundary (0,1,126..129,255..257,65535..65537,2^20), enc_cek 24/40 bytes, algorithm parameters "
    "absent/NULL/arbitrary TLV, arbitrary OIDs, both layouts. distinct = digest of the encoded blob; non-trivial = a DER length in long "
    "form with a different octet count than the Windows vectors, a non-ASCII name, or the trailing layout"
    " Also: names from the tricky-text generator (byte-order marks, U+FFFF, ...); objects re-encoded after their fields were re-assigned."
)
ASSUMPTIONS = [
    "ref.der/ref.cms transcribe X.690 / RFC 5652 and the template of real NCryptProtectSecret output (16 Windows blobs parse strictly and rebuild byte-identically each run)",
    "a 'well-formed blob value' has absent parameters represented as None (not b'') and a SID protection descriptor",
]

LEN_CLASSES = [0, 1, 2, 16, 17, 126, 127, 128, 129, 254, 255, 256, 257, 4096, 65534, 65535, 65536, 65537, 131072]
U32 = [0, 1, 2**31, 2**32 - 1]


def plan(tier, seed):
    q = tier == "quick"
    specs = [{"name": f"emit-{i}", "kind": "emit", "n": 60 if q else 1500} for i in range(8)]
    specs += [{"name": f"synth-{i}", "kind": "synth", "n": 300 if q else 12000, "big": (not q) and i < 2} for i in range(16)]
    specs.append({"name": "vectors", "kind": "vectors"})
    return specs


def finalize(agg, tier):
    r = []
    for c in ("emitted_parsed_strictly", "synthetic_compared", "roundtrip_value", "roundtrip_bytes", "windows_vectors_repacked"):
        if agg.counter(c) == 0:
            r.append(f"monitor never reached: {c}")
    if agg.counter("layout_trailing") == 0 or agg.counter("layout_envelope") == 0:
        r.append("a layout was never exercised")
    return r


def text(rng: random.Random, n: int) -> str:
    kind = rng.choice(["ascii", "bmp", "astral", "mixed", "tricky"])
    if kind == "tricky":
        return common.tricky_text(rng, n)
    alpha = {"ascii": "abcXYZ.-09", "bmp": "éßΩж中文ü", "astral": "😀𝄞𐍈", "mixed": "a.é中😀Z\x00"}[kind]
    return "".join(rng.choice(alpha) for _ in range(n))


def gen_oid(rng):
    first = rng.choice([0, 1, 2])
    second = rng.randrange(40) if first < 2 else rng.choice([0, 16, 39, 40, 999, rng.randrange(5000)])
    return ".".join(map(str, [first, second] + [rng.choice([0, 1, 127, 128, 840, 113549, 2**32, 2**35 - 1, 2**35, 2**64, rng.getrandbits(128)]) for _ in range(rng.randrange(0, 9))]))


def gen_params(rng):
    c = rng.randrange(5)
    if c == 0:
        return None
    if c == 1:
        return b"\x05\x00"
    if c == 2:
        return cms.gcm_parameters(rng.randbytes(12), 16)
    if c == 3:
        return der.enc_seq(der.enc_octets(rng.randbytes(rng.choice([0, 12, 200]))), der.enc_int(rng.randrange(-300, 70000)))
    return der.enc_octets(rng.randbytes(rng.choice([1, 130]))) + der.enc_int(5)  # two TLVs


def check_emitted(rec: Recorder, blob: bytes, wit: dict, expect: dict) -> None:
    from dpapi_ng import _blob

    try:
        p = cms.parse(blob)
    except (der.DerError, cms.TemplateError) as e:
        rec.violation("emitted-not-template", f"{type(e).__name__}: {e}", dict(wit, blob=blob))
        return
    rec.count("emitted_parsed_strictly")
    if p["trailing"]:
        rec.violation("emitted-trailing-bytes", f"{len(p['trailing'])} bytes after ContentInfo in an in-envelope blob", dict(wit, blob=blob))
    if p["descriptor_value"] != expect["sid"]:
        rec.violation("emitted-sid", f"descriptor SID {p['descriptor_value']!r} != {expect['sid']!r}", dict(wit, blob=blob))
    if len(p["enc_content"]) != expect["ptlen"] + 16:
        rec.violation("emitted-content-length", f"encrypted content {len(p['enc_content'])} bytes for plaintext {expect['ptlen']}", dict(wit, blob=blob))
    try:
        kid = rg.dec_key_identifier(p["key_identifier"])
        if kid["version"] != 1 or kid["root_key_identifier"] != expect["rkid"] or len(kid["key_info"]) != 32 or kid["flags"] & 1:
            rec.violation("emitted-keyid", f"key identifier fields unexpected: {kid}", dict(wit, blob=blob))
    except Exception as e:
        rec.violation("emitted-keyid-unparseable", f"{type(e).__name__}: {e}", dict(wit, blob=blob))
    try:
        again = _blob.DPAPINGBlob.unpack(blob).pack()
        rec.count("roundtrip_bytes")
        if again != blob:
            rec.violation("emitted-repack-differs", "pack(unpack(b)) != b for an emitted blob", dict(wit, blob=blob))
    except Exception as e:
        rec.violation("emitted-repack-exception", f"{type(e).__name__}: {e}", dict(wit, blob=blob))


def run_emit(spec, rec: Recorder):
    import dpapi_ng

    rng = common.rng_for(ID, spec)
    loop = asyncio.new_event_loop()
    try:
        for i in range(spec["n"]):
            h = common.HASHES[i % 4]
            rkid = uuid.UUID(int=rng.getrandbits(128))
            cache = dpapi_ng.KeyCache()
            cache.load_key(rng.randbytes(64), rkid, kdf_parameters=rg.enc_kdf_parameters(h))
            nsub = rng.randrange(1, 16)
            sid = "S-1-%d-%s" % (rng.choice([5, 0, 2**48 - 1]), "-".join(str(rng.choice([0, 2**32 - 1, rng.randrange(2**32)])) for _ in range(nsub)))
            ptlen = rng.choice(LEN_CLASSES + [rng.randrange(70000)])
            pt = rng.randbytes(ptlen)
            ft = rng.randrange(mon.EPOCH_FILETIME, mon.EPOCH_FILETIME + 200 * 365 * 864000000000)
            api = "async" if i % 3 == 0 else "sync"
            wit = {"hash": h, "sid": sid, "ptlen": ptlen, "filetime": str(ft), "api": api, "case": i}
            try:
                with mon.CLOCK.at_ns(mon.filetime_to_ns(ft)):
                    if api == "sync":
                        blob = dpapi_ng.ncrypt_protect_secret(pt, sid, root_key_identifier=rkid, cache=cache)
                    else:
                        blob = loop.run_until_complete(dpapi_ng.async_ncrypt_protect_secret(pt, sid, root_key_identifier=rkid, cache=cache))
            except Exception as e:
                rec.violation("protect-exception", f"{type(e).__name__}: {e}", wit)
                continue
            check_emitted(rec, blob, wit, {"sid": sid, "ptlen": ptlen, "rkid": rkid})
            rec.count("layout_envelope")
            rec.case(blob, nontrivial=ptlen + 16 >= 128 and not (256 <= ptlen + 16 < 65536) or nsub != 5, sample=dict(wit, blob=blob) if i == 0 else None)
    finally:
        loop.close()


def gen_value(rng: random.Random, big: bool):
    """-> (field dict, library DPAPINGBlob)"""
    from dpapi_ng import _blob

    kid = dict(
        version=rng.choice(U32 + [1]),
        flags=rng.choice(U32 + [2, 3]),
        l0=rng.choice(U32 + [361]),
        l1=rng.choice(U32 + [rng.randrange(32)]),
        l2=rng.choice(U32 + [rng.randrange(32)]),
        root_key_identifier=uuid.UUID(int=rng.getrandbits(128)),
        key_info=rng.randbytes(rng.choice([0, 1, 32, 72, 104, 127, 128, 776, 800])),
        domain_name=text(rng, rng.choice([0, 1, 11, 63, 64, 300])),
        forest_name=text(rng, rng.choice([0, 1, 11, 300])),
    )
    nsub = rng.randrange(1, 16)
    sid = "S-1-5-" + "-".join(str(rng.randrange(2**32)) for _ in range(nsub))
    lens = LEN_CLASSES + ([1 << 20] if big else [])
    f = dict(
        kid=kid,
        sid=sid,
        enc_cek=rng.randbytes(rng.choice([24, 40, 40, 0, 127, 128])),
        kw_alg=rng.choice([cms.OID_AES256_WRAP, gen_oid(rng)]),
        kw_params=gen_params(rng),
        enc_content=rng.randbytes(rng.choice(lens)),
        content_alg=rng.choice([cms.OID_AES256_GCM, gen_oid(rng)]),
        content_params=gen_params(rng),
        in_envelope=rng.random() < 0.5,
    )
    obj = _blob.DPAPINGBlob(
        key_identifier=_blob.KeyIdentifier(**kid),
        protection_descriptor=_blob.SIDDescriptor(sid),
        enc_cek=f["enc_cek"],
        enc_cek_algorithm=f["kw_alg"],
        enc_cek_parameters=f["kw_params"],
        enc_content=f["enc_content"],
        enc_content_algorithm=f["content_alg"],
        enc_content_parameters=f["content_params"],
    )
    return f, obj


def check_value(rec: Recorder, f: dict, obj, wit: dict) -> None:
    from dpapi_ng import _blob

    want = cms.build(
        rg.enc_key_identifier(f["kid"]),
        cms.protection_descriptor(f["sid"]),
        f["enc_cek"],
        f["enc_content"],
        f["content_params"],
        in_envelope=f["in_envelope"],
        kw_alg=f["kw_alg"],
        kw_params=f["kw_params"],
        content_alg=f["content_alg"],
    )
    try:
        got = obj.pack(blob_in_envelope=f["in_envelope"])
    except Exception as e:
        rec.violation("pack-exception", f"{type(e).__name__}: {e}", wit)
        return
    rec.count("synthetic_compared")
    rec.count("layout_envelope" if f["in_envelope"] else "layout_trailing")
    if got != want:
        i = next((k for k, (x, y) in enumerate(zip(got, want)) if x != y), min(len(got), len(want)))
        rec.violation("pack-differs-from-template", f"first difference at byte {i} of {len(got)}/{len(want)}: {got[max(0,i-6):i+10].hex()} vs {want[max(0,i-6):i+10].hex()}", wit)
        return
    try:
        n, rest = der.parse_prefix(got)
        if f["in_envelope"] and rest:
            rec.violation("pack-trailing", "bytes after ContentInfo", wit)
    except der.DerError as e:
        rec.violation("pack-not-der", str(e), wit)
        return
    try:
        back = _blob.DPAPINGBlob.unpack(got)
    except Exception as e:
        rec.violation("unpack-exception", f"{type(e).__name__}: {e}", wit)
        return
    rec.count("roundtrip_value")
    if back != obj:
        diffs = [k for k in ("key_identifier", "protection_descriptor", "enc_cek", "enc_cek_algorithm", "enc_cek_parameters", "enc_content", "enc_content_algorithm", "enc_content_parameters") if getattr(back, k) != getattr(obj, k)]
        rec.violation("unpack-pack-not-inverse", f"decode(encode(x)) != x in fields {diffs}", wit)
        return
    again = back.pack(blob_in_envelope=f["in_envelope"])
    rec.count("roundtrip_bytes")
    if again != got:
        rec.violation("pack-unpack-not-inverse", "encode(decode(b)) != b", wit)


def nontrivial_value(f: dict, enc: int) -> bool:
    names = f["kid"]["domain_name"] + f["kid"]["forest_name"]
    return (not f["in_envelope"]) or any(ord(c) > 127 for c in names) or len(f["enc_content"]) >= 65536 or len(f["enc_content"]) < 112


def run_synth(spec, rec: Recorder):
    rng = common.rng_for(ID, spec)
    for i in range(spec["n"]):
        state = rng.getstate()
        f, obj = gen_value(rng, spec.get("big", False))
        wit = {"shard": spec["name"], "index": i, "in_envelope": f["in_envelope"], "content_len": len(f["enc_content"]), "kw_alg": f["kw_alg"], "content_alg": f["content_alg"], "sid": f["sid"]}
        check_value(rec, f, obj, wit)
        rec.case((spec["name"], i, len(f["enc_content"]), f["sid"]), nontrivial=nontrivial_value(f, 0), sample=wit if i == 0 else None)
        if i % 3 == 0:
            # the same OBJECT, given other field values after it has been encoded once (it is an ordinary mutable dataclass):
            # what it encodes to must follow its current value, not its history
            import dataclasses

            f2, obj2 = gen_value(rng, False)
            f2["in_envelope"] = f["in_envelope"] if i % 2 else not f["in_envelope"]
            fields = [fl.name for fl in dataclasses.fields(obj) if fl.init]
            if i % 6 == 0:
                fields = rng.sample(fields, rng.randrange(1, len(fields) + 1))  # only some of them
            try:
                for name in fields:
                    setattr(obj, name, getattr(obj2, name))
            except (dataclasses.FrozenInstanceError, AttributeError):
                rec.count("value_objects_immutable")
                continue
            merged = dict(f)
            merged["in_envelope"] = f2["in_envelope"]
            back_map = {"key_identifier": ("kid", "kid"), "protection_descriptor": ("sid", "sid"), "enc_cek": ("enc_cek",) * 2, "enc_cek_algorithm": ("kw_alg",) * 2, "enc_cek_parameters": ("kw_params",) * 2, "enc_content": ("enc_content",) * 2, "enc_content_algorithm": ("content_alg",) * 2, "enc_content_parameters": ("content_params",) * 2}
            for name in fields:
                if name in back_map:
                    merged[back_map[name][0]] = f2[back_map[name][1]]
            rec.count("reencoded_after_mutation")
            check_value(rec, merged, obj, dict(wit, kind="session-mutated-after-pack", mutated_fields=fields))


def run_vectors(spec, rec: Recorder):
    import glob
    import os

    from dpapi_ng import _blob

    files = sorted(glob.glob(os.path.join(common.VEC, "kdf_*.json")))
    for f in files:
        blob, rkid, rk = cms.load_vector(f)
        obj = _blob.DPAPINGBlob.unpack(blob)
        if obj.pack() != blob:
            rec.violation("windows-blob-repack", f"{os.path.basename(f)}: pack(unpack(b)) != b", {"vector": os.path.basename(f)})
        rec.count("windows_vectors_repacked")
        rec.case(("vector", f), nontrivial=False)
    laps = open(os.path.join(common.VEC, "dpapi_ng_blob"), "rb").read()
    obj = _blob.DPAPINGBlob.unpack(laps)
    if obj.pack(blob_in_envelope=False) != laps:
        rec.violation("windows-laps-repack", "LAPS blob: pack(unpack(b), blob_in_envelope=False) != b", {"vector": "dpapi_ng_blob"})
    rec.count("windows_vectors_repacked")
    rec.count("layout_trailing")
    rec.case(("vector", "laps"), nontrivial=True, sample={"vector": "dpapi_ng_blob (LAPS, trailing layout)", "len": len(laps)})
    # one value whose content needs four length octets (>= 2^24), both layouts
    rng = common.rng_for(ID, spec)
    for in_env in (True, False):
        f, obj = gen_value(rng, False)
        f["enc_content"] = rng.randbytes(4096) * 4097  # 16 781 312 bytes
        f["in_envelope"] = in_env
        obj.enc_content = f["enc_content"]
        check_value(rec, f, obj, {"shard": "vectors", "case": "content >= 2^24", "in_envelope": in_env})
        rec.case(("huge", in_env), nontrivial=True)
        rec.count("four_length_octet_cases")


def run_shard(spec, rec: Recorder):
    if not common.calibrate(rec, "der", "gkdi", "cms"):
        return
    {"emit": run_emit, "synth": run_synth, "vectors": run_vectors}[spec["kind"]](spec, rec)


def replay(body, rec: Recorder):
    shard = body["shard"]
    kind = shard.split("-")[0]
    q = body["tier"] == "quick"
    spec = {"name": shard, "seed": body["seed"], "tier": body["tier"], "kind": kind}
    if kind == "emit":
        spec["n"] = 60 if q else 1500
    elif kind == "synth":
        spec["n"] = 300 if q else 12000
        spec["big"] = (not q) and int(shard.split("-")[1]) < 2
    run_shard(spec, rec)
    rec.violations[:] = [v for v in rec.violations if v["mechanism"] == body["mechanism"]][:3]
