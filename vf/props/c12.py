"""C12 - DCE/RPC and endpoint-mapper wire codecs are inverse; decoders terminate.

Monitors: (a) generated well-formed messages are packed by the real classes, compared with the
independent ref.rpc / ref.epm encoders, unpacked, compared field-wise (init=True dataclass fields)
and re-packed; (b) every decoder is run on hostile byte strings under the interpreter step meter
with a budget linear in the input length (and tracemalloc in the thorough tier).
"""
from __future__ import annotations

import dataclasses
import enum
import json
import os
import random
import struct
import typing as t
import uuid

from vf.core.framework import Recorder
from vf.instruments import monitors as mon
from vf.props import common
from vf.ref import epm as repm
from vf.ref import rpc as rrpc

ID = "C12"
LEVEL = "exploration"
RULE = (
    "round trip: generated well-formed messages of every PDU type / trailer / command / floor / ept_map message (context lists 0..8, transfer "
    "syntaxes 0..4, secondary address length 0..40 = every residue mod 4, results 0..6, stub 0..4096, object UUID on/off, auth 0..64, towers 0..6 "
    "with tower lengths covering every residue mod 8). termination: random bytes, truncations / bit flips / count-field overwrites of captured "
    "PDUs, END-less verification trailers into every decoder. distinct = digest of bytes; non-trivial (round trip) = not byte-identical to a "
    "captured PDU of the suite; (termination) = input on which the decoder ran more than 40 line events"
    " Also: scaling probes with inputs as large as one fragment allows (line events and CPU time)."
)
ASSUMPTIONS = [
    "ref.rpc / ref.epm transcribe C706 ch.12 / MS-RPCE (calibrated on every captured PDU in tests/_rpc and tests/test_epm.py)",
    "well-formed: frag_len = size, auth_len = token size, security trailer present iff token non-empty, PFC_OBJECT_UUID iff object present, "
    "secondary address absent (length 0) or NUL terminated",
    "step budget 3000 + 40*len(input) line events; memory budget 1 MiB + 64*len (thorough tier)",
]


def plan(tier, seed):
    q = tier == "quick"
    specs = [{"name": f"rt-{i}", "kind": "roundtrip", "n": 1300 if q else 60000} for i in range(8)]
    specs += [{"name": f"term-{i}", "kind": "terminate", "n": 5000 if q else 120000, "mem": not q} for i in range(8)]
    specs.append({"name": "residues", "kind": "residues"})
    specs.append({"name": "scaling", "kind": "scaling", "repeats": 5 if q else 15})
    specs.append({"name": "wide-fields", "kind": "wide", "n": 400 if q else 20000})
    return specs


def finalize(agg, tier):
    r = []
    for c in ("rt_bind", "rt_bind_ack", "rt_bind_nak", "rt_alter_context", "rt_alter_context_resp", "rt_request", "rt_response", "rt_fault", "rt_sectrailer", "rt_vt", "rt_eptmap", "rt_eptmapresult", "rt_floor", "decoder_runs_metered", "scaling_probes", "rt_wide"):
        if agg.counter(c) == 0:
            r.append(f"monitor never reached: {c}")
    if len(agg.sets.get("sec_addr_len_mod4", ())) < 4 or len(agg.sets.get("tower_len_mod8", ())) < 8:
        r.append("not every padding residue observed")
    return r


def R():
    from dpapi_ng import _rpc

    return _rpc


def E():
    from dpapi_ng import _epm

    return _epm


def sem(o: t.Any) -> t.Any:
    """Semantic value: init=True dataclass fields only, recursively."""
    if dataclasses.is_dataclass(o) and not isinstance(o, type):
        return (type(o).__name__, {f.name: sem(getattr(o, f.name)) for f in dataclasses.fields(o) if f.init})
    if isinstance(o, enum.Enum):
        return int(o.value)
    if isinstance(o, (list, tuple)):
        return [sem(x) for x in o]
    return o


# --------------------------------------------------------------------------- generators
def g_uuid(rng):
    return uuid.UUID(int=rng.choice([0, (1 << 128) - 1, rng.getrandbits(128)]))


def g_syntax(rng):
    return (g_uuid(rng), rng.choice([0, 1, 3, 65535]), rng.choice([0, 1, 65535]))


def g_auth(rng, allow_none=True):
    if allow_none and rng.random() < 0.4:
        return None
    return dict(type=rng.choice([9, 10, 16]), level=rng.choice([2, 5, 6]), pad=rng.randrange(16), ctx=rng.choice([0, 1, 79231, 2**32 - 1]), token=rng.randbytes(rng.choice([1, 4, 16, 17, 63, 64])))


def lib_auth(a):
    if a is None:
        return None
    r = R()
    return r.SecTrailer(r.SecurityProvider(a["type"]), r.AuthenticationLevel(a["level"]), a["pad"], a["ctx"], a["token"])


def lib_header(m, frag_len):
    r = R()
    return r.PDUHeader(5, 0, r.PacketType(m["ptype"]), r.PacketFlags(m["flags"]), r.DataRep(), frag_len, len(m["auth"]["token"]) if m["auth"] else 0, m["call_id"])


def g_message(rng, kind: str) -> t.Tuple[dict, t.Any]:
    """-> (reference dict, library object)"""
    r = R()
    flags = rng.choice([3, 3, 7, 0, 1, 2, 0x13])
    call_id = rng.choice([0, 1, 2, 2**32 - 1, rng.randrange(2**32)])
    m: t.Dict[str, t.Any] = dict(flags=flags, call_id=call_id, auth=g_auth(rng))
    if kind in ("bind", "alter_context"):
        m["ptype"] = rrpc.BIND if kind == "bind" else rrpc.ALTER_CONTEXT
        m.update(max_xmit=rng.choice([0, 5840, 65535]), max_recv=rng.choice([0, 5840, 65535]), assoc=rng.choice([0, 1, 2**32 - 1]))
        m["contexts"] = [(rng.choice([0, 1, 65535, i]), g_syntax(rng), [g_syntax(rng) for _ in range(rng.randrange(0, 5))]) for i in range(rng.randrange(0, 9))]
        raw = rrpc.encode(m)
        ctxs = [r.ContextElement(c, r.SyntaxId(*a), [r.SyntaxId(*x) for x in ts]) for c, a, ts in m["contexts"]]
        cls = r.Bind if kind == "bind" else r.AlterContext
        obj = cls(header=lib_header(m, len(raw)), sec_trailer=lib_auth(m["auth"]), max_xmit_frag=m["max_xmit"], max_recv_frag=m["max_recv"], assoc_group=m["assoc"], contexts=ctxs)
    elif kind in ("bind_ack", "alter_context_resp"):
        m["ptype"] = rrpc.BIND_ACK if kind == "bind_ack" else rrpc.ALTER_CONTEXT_RESP
        m.update(max_xmit=rng.choice([0, 5840, 65535]), max_recv=5840, assoc=rng.randrange(2**32))
        n = rng.randrange(0, 41)
        m["sec_addr"] = "".join(rng.choice("0123456789\\pipe.") for _ in range(n))
        m["results"] = [(rng.choice([0, 1, 2, 3]), rng.choice([0, 1, 2, 3, 65535]), g_uuid(rng), rng.choice([0, 1, 2**32 - 1])) for _ in range(rng.randrange(0, 7))]
        raw = rrpc.encode(m)
        cls = r.BindAck if kind == "bind_ack" else r.AlterContextResponse
        obj = cls(
            header=lib_header(m, len(raw)),
            sec_trailer=lib_auth(m["auth"]),
            max_xmit_frag=m["max_xmit"],
            max_recv_frag=m["max_recv"],
            assoc_group=m["assoc"],
            sec_addr=m["sec_addr"],
            results=[r.ContextResult(r.ContextResultCode(a), b, c, d) for a, b, c, d in m["results"]],
        )
    elif kind == "bind_nak":
        m["ptype"] = rrpc.BIND_NAK
        m["auth"] = None
        m["reason"] = rng.choice([0, 1, 2, 4, 65535])
        m["versions"] = [(rng.randrange(256), rng.randrange(256)) for _ in range(rng.randrange(0, 6))]
        raw = rrpc.encode(m)
        obj = r.BindNak(header=lib_header(m, len(raw)), sec_trailer=None, reject_reason=m["reason"], versions=[tuple(v) for v in m["versions"]])
    elif kind == "request":
        m["ptype"] = rrpc.REQUEST
        has_obj = rng.random() < 0.5
        m["flags"] = (flags & ~0x80) | (0x80 if has_obj else 0)
        m.update(alloc_hint=rng.choice([0, 2**32 - 1, 100]), ctx_id=rng.choice([0, 1, 65535]), opnum=rng.choice([0, 3, 65535]), obj=g_uuid(rng) if has_obj else None)
        m["stub"] = rng.randbytes(rng.choice([0, 1, 7, 8, 100, 1000, 4096]))
        raw = rrpc.encode(m)
        obj = r.Request(header=lib_header(m, len(raw)), sec_trailer=lib_auth(m["auth"]), alloc_hint=m["alloc_hint"], context_id=m["ctx_id"], opnum=m["opnum"], obj=m["obj"], stub_data=m["stub"])
    elif kind == "response":
        m["ptype"] = rrpc.RESPONSE
        m.update(alloc_hint=rng.choice([0, 2**32 - 1, 100]), ctx_id=rng.choice([0, 1, 65535]), cancel_count=rng.choice([0, 1, 255]))
        m["stub"] = rng.randbytes(rng.choice([0, 1, 7, 8, 100, 1000, 4096]))
        raw = rrpc.encode(m)
        obj = r.Response(header=lib_header(m, len(raw)), sec_trailer=lib_auth(m["auth"]), alloc_hint=m["alloc_hint"], context_id=m["ctx_id"], cancel_count=m["cancel_count"], stub_data=m["stub"])
    else:
        m["ptype"] = rrpc.FAULT
        m.update(alloc_hint=rng.choice([0, 32, 2**32 - 1]), ctx_id=rng.choice([0, 65535]), cancel_count=rng.choice([0, 255]), fault_flags=rng.choice([0, 1]), status=rng.choice([5, 0x1C010003, 2**32 - 1]))
        m["stub"] = rng.randbytes(rng.choice([0, 4, 37]))
        raw = rrpc.encode(m)
        from dpapi_ng._rpc import _pdu

        obj = r.Fault(header=lib_header(m, len(raw)), sec_trailer=lib_auth(m["auth"]), alloc_hint=m["alloc_hint"], context_id=m["ctx_id"], cancel_count=m["cancel_count"], status=m["status"], flags=_pdu.FaultFlags(m["fault_flags"]), stub_data=m["stub"])
    return m, obj


def check_pdu(rec: Recorder, rng, kind: str) -> None:
    r = R()
    m, obj = g_message(rng, kind)
    want = rrpc.encode(m)
    wit = {"kind": kind, "ref_bytes": want}
    try:
        got = obj.pack()
    except Exception as e:
        rec.violation(f"{kind}-pack-exception", f"{type(e).__name__}: {e}", wit)
        return
    if kind in ("bind_ack", "alter_context_resp"):
        rec.seen("sec_addr_len_mod4", (len(m["sec_addr"]) + (1 if m["sec_addr"] else 0)) % 4)
    if got != want:
        i = next((k for k, (x, y) in enumerate(zip(got, want)) if x != y), min(len(got), len(want)))
        rec.violation(f"{kind}-layout", f"pack() differs from the reference encoder at byte {i} (len {len(got)}/{len(want)}): {got[max(0,i-8):i+8].hex()} vs {want[max(0,i-8):i+8].hex()}", wit)
        return
    try:
        from dpapi_ng._rpc import _pdu as _p
        back = _p.PDU.unpack(got)
    except Exception as e:
        rec.violation(f"{kind}-unpack-exception", f"{type(e).__name__}: {e}", wit)
        return
    if type(back) is not type(obj) or sem(back) != sem(obj):
        if kind == "bind_nak" and sem(back)[1] | {"header": 0} == sem(obj)[1] | {"header": 0}:
            pass
        a, b = sem(back)[1], sem(obj)[1]
        diff = [k for k in b if a.get(k) != b.get(k)]
        rec.violation(f"{kind}-fields", f"unpack(pack(m)) differs from m in {diff}: {[(a.get(k), b.get(k)) for k in diff][:2]!r:.400}", wit)
        return
    try:
        again = back.pack()
    except Exception as e:
        rec.violation(f"{kind}-repack-exception", f"{type(e).__name__}: {e}", wit)
        return
    if again != got:
        rec.violation(f"{kind}-repack", "unpack(pack(m)).pack() != m.pack()", wit)
    rec.count(f"rt_{kind}")
    rec.case((kind, want))


def check_sectrailer(rec, rng):
    r = R()
    a = g_auth(rng, allow_none=False)
    a["token"] = rng.randbytes(rng.randrange(0, 65))
    obj = lib_auth(a)
    want = rrpc.enc_auth(a)
    got = obj.pack()
    if got != want:
        rec.violation("sectrailer-layout", f"{got.hex()} vs {want.hex()}", {"kind": "sectrailer", "ref_bytes": want})
        return
    back = r.SecTrailer.unpack(got)
    if back != obj or back.pack() != got:
        rec.violation("sectrailer-fields", f"{back} vs {obj}", {"kind": "sectrailer", "ref_bytes": want})
    rec.count("rt_sectrailer")
    rec.case(("sectrailer", want))


def check_vt(rec, rng):
    r = R()
    from dpapi_ng._rpc import _verification as v

    cmds_ref = []
    cmds_lib = []
    n = rng.randrange(1, 7)
    for i in range(n):
        last = i == n - 1
        flags = (0x4000 if last else 0) | (0x8000 if rng.random() < 0.3 else 0)
        lf = v.CommandFlags(flags)
        k = rng.randrange(4)
        if k == 0:
            bits = rng.choice([0, 1, 2**32 - 1])
            cmds_ref.append((1 | flags, struct.pack("<I", bits)))
            cmds_lib.append(v.CommandBitmask(flags=lf, bits=bits))
        elif k == 1:
            a, b = g_syntax(rng), g_syntax(rng)
            cmds_ref.append((2 | flags, rrpc.enc_syntax(a) + rrpc.enc_syntax(b)))
            cmds_lib.append(v.CommandPContext(flags=lf, interface_id=r.SyntaxId(*a), transfer_syntax=r.SyntaxId(*b)))
        elif k == 2:
            pt, call, cid, op = rng.choice([0, 2, 11]), rng.randrange(2**32), rng.randrange(65536), rng.randrange(65536)
            cmds_ref.append((3 | flags, struct.pack("<B3x4sIHH", pt, rrpc.DREP_LE, call, cid, op)))
            cmds_lib.append(v.CommandHeader2(flags=lf, packet_type=r.PacketType(pt), data_rep=r.DataRep(), call_id=call, context_id=cid, opnum=op))
        else:
            ct = rng.choice([4, 0x3FFF, 100])
            val = rng.randbytes(rng.choice([0, 1, 4, 33]))
            cmds_ref.append((ct | flags, val))
            cmds_lib.append(v.Command(v.CommandType(ct), lf, val))
    want = rrpc.enc_vt(cmds_ref)
    obj = v.VerificationTrailer(cmds_lib)
    wit = {"kind": "vt", "ref_bytes": want}
    try:
        got = obj.pack()
        if got != want:
            rec.violation("vt-layout", f"pack differs: {got.hex()[:120]} vs {want.hex()[:120]}", wit)
            return
        back = v.VerificationTrailer.unpack(got + rng.randbytes(rng.choice([0, 0, 3, 16])))
        if sem(back) != sem(obj):
            rec.violation("vt-fields", f"{sem(back)!r:.3000} vs {sem(obj)!r:.3000}", wit)
            return
        if back.pack() != got:
            rec.violation("vt-repack", "unpack(pack(m)).pack() != m.pack()", wit)
    except Exception as e:
        rec.violation("vt-exception", f"{type(e).__name__}: {e}", wit)
        return
    rec.count("rt_vt")
    rec.case(("vt", want))


def g_floor(rng, payload=None):
    e = E()
    k = rng.randrange(6)
    if k == 0:
        port = rng.choice([0, 135, 49152, 65535])
        return repm.floor_tcp(port), e.TCPFloor(port)
    if k == 1:
        addr = rng.choice([0, 0x7F000001, 2**32 - 1])
        return repm.floor_ip(addr), e.IPFloor(addr)
    if k == 2:
        mn = rng.choice([0, 1, 65535])
        return repm.floor_rpc_co(mn), e.RPCConnectionOrientedFloor(mn)
    if k == 3:
        u, ver, mn = g_syntax(rng)
        return repm.floor_uuid(u, ver, mn), e.UUIDFloor(u, ver, mn)
    proto = rng.choice([0x0F, 0x1F, 0x7F, 0xFF, 0x08, 0x10])
    lhs = rng.randbytes(rng.choice([0, 1, 5]))
    rhs = rng.randbytes(rng.randrange(0, 16) if payload is None else payload)
    return (proto, lhs, rhs), e.Floor(e.FloorProtocol(proto), lhs, rhs)


def g_tower(rng, want_len_mod8=None):
    for _ in range(200):
        fl = [g_floor(rng) for _ in range(rng.randrange(0, 7))]
        ref = [a for a, _ in fl]
        if want_len_mod8 is None or len(repm.enc_tower(ref)) % 8 == want_len_mod8:
            return ref, [b for _, b in fl]
    # force with an unknown floor payload
    for pay in range(16):
        f = (0x7F, b"", bytes(pay))
        if len(repm.enc_tower([f])) % 8 == want_len_mod8:
            e = E()
            return [f], [e.Floor(e.FloorProtocol(0x7F), b"", bytes(pay))]
    raise AssertionError


def check_floor(rec, rng):
    e = E()
    ref, lib = g_floor(rng)
    want = repm.enc_floor(ref)
    wit = {"kind": "floor", "ref_bytes": want}
    try:
        got = lib.pack()
        if got != want:
            rec.violation("floor-layout", f"{got.hex()} vs {want.hex()}", wit)
            return
        back = e.Floor.unpack(got)
        if sem(back) != sem(lib) or back.pack() != got:
            rec.violation("floor-fields", f"{back!r} vs {lib!r}", wit)
            return
    except Exception as ex:
        rec.violation("floor-exception", f"{type(ex).__name__}: {ex}", wit)
        return
    rec.count("rt_floor")
    rec.case(("floor", want))


def check_eptmap(rec, rng, mod8=None):
    e = E()
    ref_t, lib_t = g_tower(rng, mod8)
    obj_u = rng.choice([None, g_uuid(rng)])
    if obj_u is not None and obj_u.int == 0:
        obj_u = None
    eh = rng.choice([None, (rng.randrange(1, 2**32), g_uuid(rng))])
    mt = rng.choice([0, 1, 4, 500, 2**32 - 1])
    want = repm.enc_request(obj_u, ref_t, eh, mt)
    lib = e.EptMap(obj=obj_u, tower=lib_t, entry_handle=eh, max_towers=mt)
    wit = {"kind": "eptmap", "ref_bytes": want}
    rec.seen("tower_len_mod8", len(repm.enc_tower(ref_t)) % 8)
    try:
        got = lib.pack()
        if got != want:
            i = next((k for k, (x, y) in enumerate(zip(got, want)) if x != y), min(len(got), len(want)))
            rec.violation("eptmap-layout", f"differs at byte {i} (len {len(got)}/{len(want)})", wit)
            return
        back = e.EptMap.unpack(got)
        if sem(back) != sem(lib):
            rec.violation("eptmap-fields", f"{sem(back)!r:.300} vs {sem(lib)!r:.300}", wit)
            return
        if back.pack() != got:
            rec.violation("eptmap-repack", "unpack(pack(m)).pack() != m.pack()", wit)
    except Exception as ex:
        rec.violation("eptmap-exception", f"{type(ex).__name__}: {ex}", wit)
        return
    rec.count("rt_eptmap")
    rec.case(("eptmap", want))


def check_eptmapresult(rec, rng, mods=None):
    e = E()
    n = rng.randrange(0, 7) if mods is None else len(mods)
    towers = [g_tower(rng, None if mods is None else mods[i]) for i in range(n)]
    eh = rng.choice([None, (rng.randrange(1, 2**32), g_uuid(rng))])
    status = rng.choice([0, 0, 0x16C9A0D6, rng.randrange(2**32)])
    want = repm.enc_response([a for a, _ in towers], status, eh)
    lib = e.EptMapResult(entry_handle=eh, towers=[b for _, b in towers], status=status)
    wit = {"kind": "eptmapresult", "ref_bytes": want, "tower_lengths": [len(repm.enc_tower(a)) for a, _ in towers]}
    for a, _ in towers:
        rec.seen("tower_len_mod8", len(repm.enc_tower(a)) % 8)
    try:
        got = lib.pack()
        if got != want:
            i = next((k for k, (x, y) in enumerate(zip(got, want)) if x != y), min(len(got), len(want)))
            mech = "eptmapresult-pack-padding" if len(got) != len(want) else "eptmapresult-layout"
            rec.violation(mech, f"pack differs from NDR64 reference at byte {i} (len {len(got)}/{len(want)}, tower lengths {wit['tower_lengths']})", wit)
            return
        back = e.EptMapResult.unpack(got)
        if sem(back) != sem(lib):
            rec.violation("eptmapresult-fields", f"unpack(pack(m)) != m (tower lengths {wit['tower_lengths']})", wit)
            return
        if back.pack() != got:
            rec.violation("eptmapresult-repack", "unpack(pack(m)).pack() != m.pack()", wit)
    except Exception as ex:
        rec.violation("eptmapresult-pack-padding" if isinstance(ex, IndexError) else "eptmapresult-exception", f"{type(ex).__name__}: {ex} (tower lengths {wit['tower_lengths']})", wit)
        return
    rec.count("rt_eptmapresult")
    rec.case(("eptmapresult", want))


def run_roundtrip(spec, rec: Recorder):
    rng = common.rng_for(ID, spec)
    kinds = ["bind", "bind_ack", "bind_nak", "alter_context", "alter_context_resp", "request", "response", "fault"]
    for i in range(spec["n"]):
        j = i % 13
        if j < 8:
            check_pdu(rec, rng, kinds[j])
        elif j == 8:
            check_sectrailer(rec, rng)
        elif j == 9:
            check_vt(rec, rng)
        elif j == 10:
            check_floor(rec, rng)
        elif j == 11:
            check_eptmap(rec, rng)
        else:
            check_eptmapresult(rec, rng)
    m, obj = g_message(rng, "bind_ack")
    rec.sample({"kind": "bind_ack", "sec_addr": m["sec_addr"], "results": len(m["results"]), "bytes": rrpc.encode(m)})


def run_residues(spec, rec: Recorder):
    rng = common.rng_for(ID, spec)
    for a in range(8):
        check_eptmap(rec, rng, a)
        for b in range(8):
            for c in range(8):
                check_eptmapresult(rec, rng, [a, b, c] if (a + b + c) % 3 else [a, b])
            check_eptmapresult(rec, rng, [a, b])
        check_eptmapresult(rec, rng, [a])
    rec.mark_exhaustive("EptMapResult with 1..3 towers: every combination of tower-length residues mod 8")
    rec.sample({"kind": "eptmapresult residues", "combinations": "8 + 8x8 + 8x8x8"})


# --------------------------------------------------------------------------- termination
def captured() -> t.Dict[str, bytes]:
    vec = json.load(open(os.path.join(common.VEC, "captured_rpc.json")))
    return {k: bytes.fromhex(v) for k, v in vec.items()}


def decoders():
    r = R()
    e = E()
    from dpapi_ng._rpc import _verification as v

    return {
        "PDU.unpack": __import__("dpapi_ng._rpc._pdu", fromlist=["PDU"]).PDU.unpack,
        "SecTrailer.unpack": r.SecTrailer.unpack,
        "VerificationTrailer.unpack": v.VerificationTrailer.unpack,
        "Command.unpack": v.Command.unpack,
        "Floor.unpack": e.Floor.unpack,
        "EptMap.unpack": e.EptMap.unpack,
        "EptMapResult.unpack": e.EptMapResult.unpack,
    }


def hostile(rng, caps: t.List[bytes]) -> bytes:
    k = rng.randrange(9)
    base = bytearray(rng.choice(caps))
    if k == 0:
        return rng.randbytes(rng.choice([0, 1, 15, 16, 17, 24, 52, 200, 5000, 65535]))
    if k == 1:
        return bytes(base[: rng.randrange(len(base) + 1)])
    if k == 2:
        for _ in range(rng.randrange(1, 4)):
            i = rng.randrange(len(base))
            base[i] ^= 1 << rng.randrange(8)
        return bytes(base)
    if k == 3:  # overwrite a 1/2/4/8-byte field with a large count
        w = rng.choice([1, 2, 4, 8])
        i = rng.randrange(0, max(1, len(base) - w))
        val = rng.choice([0xFF, 0xFFFF, 0xFFFFFFFF, 1 << 40, (1 << 64) - 1, 1 << 31, 0x7FFF]) & ((1 << (8 * w)) - 1)
        base[i : i + w] = val.to_bytes(w, "little")
        return bytes(base)
    if k == 4:  # verification trailer without END
        n = rng.randrange(0, 40)
        return rrpc.VT_SIGNATURE + b"".join(struct.pack("<HH", rng.choice([1, 2, 3, 9]) | rng.choice([0, 0x8000]), ln) + rng.randbytes(ln) for ln in [rng.choice([0, 4, 16, 40]) for _ in range(n)])
    if k == 5:  # ept_map reply announcing absurd counts
        cnt = rng.choice([2**16 - 1, 2**32 - 1, 2**40, 2**63, 2**64 - 1, 1000])
        return b"\x00" * 20 + struct.pack("<IQQQ", rng.choice([1, cnt & 0xFFFFFFFF]), cnt, 0, cnt) + rng.randbytes(rng.choice([0, 4, 100, 3000]))
    if k == 6:  # PDU with maximum counts and zero padding
        hdr = rrpc.header(rng.choice([11, 12, 13, 14, 15, 0, 2, 3]), 3, 0, rng.choice([0, 0, 8, 65535]), 1)
        body = rng.choice([b"\xff" * 12, struct.pack("<HHIB3x", 1, 1, 1, 255), struct.pack("<HHIH", 1, 1, 1, 65535)]) + bytes(rng.choice([0, 100, 60000]))
        raw = bytearray(hdr + body)[:65535]
        raw[8:10] = struct.pack("<H", len(raw))
        return bytes(raw)
    if k == 7:  # tower with 65535 floors of minimal size
        return struct.pack("<QI", 10, 10) + struct.pack("<H", 65535) + bytes(rng.choice([0, 5, 50000]))
    return bytes(base) + rng.randbytes(rng.randrange(0, 64))


def run_terminate(spec, rec: Recorder):
    import tracemalloc

    rng = common.rng_for(ID, spec)
    caps = list(captured().values())
    decs = decoders()
    names = sorted(decs)
    mem = spec.get("mem", False)
    for i in range(spec["n"]):
        data = hostile(rng, caps)
        name = names[i % len(names)] if rng.random() < 0.7 else ("PDU.unpack" if data[:1] == b"\x05" else rng.choice(names))
        budget = 3000 + 40 * len(data)
        outcome = "ok"
        if mem and i % 50 == 0:
            tracemalloc.start()
        try:
            with mon.STEPS.measure(budget):
                decs[name](data)
        except mon.StepBudgetExceeded as e:
            mech = {"VerificationTrailer.unpack": "vt-no-end-loop", "EptMapResult.unpack": "eptmap-tower-count-unbounded"}.get(name, "decoder-step-budget")
            rec.violation(mech, f"{name} on {len(data)} bytes exceeded {budget} line events at {e}", {"kind": "terminate", "decoder": name, "data": data})
            outcome = "budget"
        except MemoryError:
            rec.violation("decoder-memory", f"{name} on {len(data)} bytes raised MemoryError", {"kind": "terminate", "decoder": name, "data": data})
        except Exception as e:
            outcome = type(e).__name__
        finally:
            if mem and i % 50 == 0:
                cur, peak = tracemalloc.get_traced_memory()
                tracemalloc.stop()
                rec.range("tracemalloc_peak_bytes", peak)
                if peak > (1 << 20) + 64 * len(data):
                    rec.violation("decoder-memory", f"{name} on {len(data)} bytes allocated {peak} bytes", {"kind": "terminate", "decoder": name, "data": data})
        rec.count("decoder_runs_metered")
        rec.seen("decoder_outcomes", f"{name}:{outcome}")
        rec.range("steps_per_decode", mon.STEPS.n)
        rec.range("steps_per_input_byte_x1000", 1000 * mon.STEPS.n // max(1, len(data)))
        rec.case((name, data), nontrivial=mon.STEPS.n > 40)
    rec.sample({"kind": "terminate", "decoder": name, "len": len(data), "steps": mon.STEPS.n, "outcome": outcome, "data": data})


# --------------------------------------------------------------------------- proportional work (scaling probes)
def scalable_inputs() -> t.Dict[str, t.Tuple[str, t.Callable[[int], bytes]]]:
    """decoder name -> builder(n) producing a well-formed-looking input with n small elements (len ~ proportional to n)."""

    def vt(n):
        return rrpc.VT_SIGNATURE + struct.pack("<HH", 1, 0) * (n - 1) + struct.pack("<HH", 1 | 0x4000, 0)

    def bind(n):
        ctx = struct.pack("<HBB", 0, 0, 0)[:2] + struct.pack("<H", n) + rrpc.enc_syntax(rrpc.EPM) + rrpc.enc_syntax(rrpc.NDR64) * n
        body = struct.pack("<HHIBBH", 5840, 5840, 0, 1, 0, 0) + ctx
        return rrpc.header(rrpc.BIND, 3, 16 + len(body), 0, 1) + body

    def bind_many_ctx(n):
        n = min(n, 255)
        ctx = (struct.pack("<HH", 1, 1) + rrpc.enc_syntax(rrpc.EPM) + rrpc.enc_syntax(rrpc.NDR64)) * n
        body = struct.pack("<HHIBBH", 5840, 5840, 0, n, 0, 0) + ctx
        return rrpc.header(rrpc.BIND, 3, 16 + len(body), 0, 1) + body

    def eptmap_floors(n):
        return repm.enc_request(None, [(0x7F, b"", b"")] * n, None, 4)

    def eptres_floors(n):
        return repm.enc_response([[(0x7F, b"", b"")] * n], 0)

    def eptres_towers(n):
        return repm.enc_response([[(0x7F, b"", b"x")]] * n, 0)

    def response(n):
        return rrpc.encode(dict(ptype=rrpc.RESPONSE, flags=3, call_id=1, auth=None, alloc_hint=0, ctx_id=0, cancel_count=0, stub=bytes(5 * n)))

    return {
        "VerificationTrailer.unpack/commands": ("VerificationTrailer.unpack", vt),
        "PDU.unpack/bind-transfer-syntaxes": ("PDU.unpack", bind),
        "EptMap.unpack/floors": ("EptMap.unpack", eptmap_floors),
        "EptMapResult.unpack/floors": ("EptMapResult.unpack", eptres_floors),
        "EptMapResult.unpack/towers": ("EptMapResult.unpack", eptres_towers),
        "PDU.unpack/response-stub": ("PDU.unpack", response),
    }


def run_scaling(spec, rec: Recorder):
    """Work proportional to the input length: line events AND CPU time must scale (at most) linearly when the
    same kind of input grows 4x (n -> 4n, up to the 64 KiB fragment limit).  CPU time is thread time, minimum of
    several repeats, and a super-linear ratio must reproduce in three independent re-measurements before it is
    reported (copy-the-rest-of-the-buffer-per-element bugs execute a linear number of lines but quadratic work)."""
    import time

    decs = decoders()

    def measure(fn, data, repeats):
        best = None
        for _ in range(repeats):
            t0 = time.thread_time_ns()
            try:
                fn(data)
            except Exception:
                pass
            dt = time.thread_time_ns() - t0
            best = dt if best is None else min(best, dt)
        return best

    for name, (dec, build) in scalable_inputs().items():
        fn = decs[dec]
        # as large as one fragment allows (the quadratic term of a copy-everything-so-far-per-element bug only dominates there)
        per = max(1, (len(build(12)) - len(build(4))) // 8)
        n_big = max(400, min(60000 // per, 15000))
        n_small = n_big // 4
        small, big = build(n_small), build(n_big)
        if len(big) > 65535:
            n_small, n_big = 500, 2000
            small, big = build(n_small), build(n_big)
        # line events
        steps = []
        for data in (small, big):
            try:
                with mon.STEPS.measure(3000 + 40 * len(data)):
                    fn(data)
            except mon.StepBudgetExceeded as e:
                rec.violation("decoder-step-budget", f"{name}: {len(data)}-byte input exceeded the linear step budget at {e}", {"kind": "scaling", "probe": name, "n": n_big})
            except Exception:
                pass
            steps.append(mon.STEPS.n)
        rec.count("decoder_runs_metered", 2)
        ratio_len = len(big) / max(1, len(small))
        step_ratio = steps[1] / max(1, steps[0])
        rec.range(f"step_ratio_x100[{name}]", int(100 * step_ratio))
        if step_ratio > 1.6 * ratio_len:
            rec.violation("superlinear-steps", f"{name}: input grew {ratio_len:.1f}x, executed lines grew {step_ratio:.1f}x ({steps})", {"kind": "scaling", "probe": name})
        # CPU time
        tries = []
        for attempt in range(4):
            ts, tb = measure(fn, small, spec["repeats"]), measure(fn, big, spec["repeats"])
            r = tb / max(1, ts)
            tries.append(round(r, 2))
            if r <= 1.8 * ratio_len:
                break
        rec.range(f"cpu_ratio_x100[{name}]", int(100 * min(tries)))
        rec.count("scaling_probes")
        if len(tries) == 4 and min(tries) > 1.8 * ratio_len:
            rec.violation("superlinear-work", f"{name}: input grew {ratio_len:.1f}x but CPU time grew {tries}x in four independent measurements", {"kind": "scaling", "probe": name})
        rec.case(("scaling", name, n_big), nontrivial=True, sample={"probe": name, "len_small": len(small), "len_big": len(big), "steps": steps, "cpu_ratio": tries})


# --------------------------------------------------------------------------- wide field ranges
def run_wide(spec, rec: Recorder):
    """Well-formed messages with field values outside the everyday ranges."""
    r = R()
    from dpapi_ng._rpc import _pdu, _verification as v

    rng = common.rng_for(ID, spec)
    for i in range(spec["n"]):
        k = i % 9
        if k == 0:  # many contexts (u8 count) / many transfer syntaxes
            n = rng.choice([9, 64, 255])
            m = dict(ptype=rng.choice([rrpc.BIND, rrpc.ALTER_CONTEXT]), flags=3, call_id=rng.choice([2**15, 2**31, 2**32 - 1]), auth=g_auth(rng), max_xmit=65535, max_recv=0, assoc=2**32 - 1)
            m["contexts"] = [(rng.choice([2**15, 65535, j]), g_syntax(rng), [g_syntax(rng) for _ in range(rng.choice([0, 1, 5, 40] if n < 64 else [0, 1, 2]))]) for j in range(n)]
            try:
                raw = rrpc.encode(m)
            except struct.error:
                continue  # does not fit one fragment
            cls = r.Bind if m["ptype"] == rrpc.BIND else r.AlterContext
            obj = cls(header=lib_header(m, len(raw)), sec_trailer=lib_auth(m["auth"]), max_xmit_frag=m["max_xmit"], max_recv_frag=m["max_recv"], assoc_group=m["assoc"], contexts=[r.ContextElement(c, r.SyntaxId(*a), [r.SyntaxId(*x) for x in ts]) for c, a, ts in m["contexts"]])
            kind = "bind" if m["ptype"] == rrpc.BIND else "alter_context"
        elif k == 1:  # many results, long / non-ASCII secondary address
            m = dict(ptype=rng.choice([rrpc.BIND_ACK, rrpc.ALTER_CONTEXT_RESP]), flags=rng.choice([3, 7, 0xFF]), call_id=rng.randrange(2**32), auth=g_auth(rng), max_xmit=1, max_recv=65535, assoc=rng.randrange(2**32))
            m["sec_addr"] = rng.choice(["p" * 254, "q" * 255, "\\pipe\\" + "é" * 40, "ü", "x" * 2000, "中" * 100])
            m["results"] = [(rng.choice([0, 1, 2, 3]), rng.choice([0, 65535]), g_uuid(rng), rng.choice([0, 2**32 - 1])) for _ in range(rng.choice([7, 40, 255]))]
            raw = rrpc.encode(m)
            cls = r.BindAck if m["ptype"] == rrpc.BIND_ACK else r.AlterContextResponse
            obj = cls(header=lib_header(m, len(raw)), sec_trailer=lib_auth(m["auth"]), max_xmit_frag=m["max_xmit"], max_recv_frag=m["max_recv"], assoc_group=m["assoc"], sec_addr=m["sec_addr"], results=[r.ContextResult(r.ContextResultCode(a), b, c, d) for a, b, c, d in m["results"]])
            kind = "bind_ack" if m["ptype"] == rrpc.BIND_ACK else "alter_context_resp"
        elif k == 2:  # large auth tokens, big stubs
            tok = rng.randbytes(rng.choice([255, 256, 1000, 5000]))
            m = dict(ptype=rrpc.REQUEST, flags=3, call_id=2**31, auth=dict(type=16, level=6, pad=255, ctx=2**32 - 1, token=tok), alloc_hint=2**32 - 1, ctx_id=65535, opnum=65535, obj=None, stub=rng.randbytes(rng.choice([4097, 20000, 50000])))
            raw = rrpc.encode(m)
            obj = r.Request(header=lib_header(m, len(raw)), sec_trailer=lib_auth(m["auth"]), alloc_hint=m["alloc_hint"], context_id=m["ctx_id"], opnum=m["opnum"], obj=None, stub_data=m["stub"])
            kind = "request"
        elif k == 3:  # data representation / version_minor variants in the header
            drep_vals = (rng.choice([0, 1]), rng.choice([0, 1]), rng.choice([0, 1, 2, 3]))
            hdr = r.PDUHeader(5, rng.choice([0, 1]), r.PacketType.RESPONSE, r.PacketFlags(rng.choice([0, 3, 0x23, 0xFF])), r.DataRep(_pdu.IntegerRep(drep_vals[0]), _pdu.CharacterRep(drep_vals[1]), _pdu.FloatingPointRep(drep_vals[2])), 24, 0, rng.randrange(2**32))
            want = struct.pack("<BBBBBBHHHI", 5, hdr.version_minor, 2, int(hdr.packet_flags), (drep_vals[0] << 4) | drep_vals[1], drep_vals[2], 0, 24, 0, hdr.call_id)
            got = hdr.pack()
            back = r.PDUHeader.unpack(got)
            if got != want or back != hdr or back.pack() != got:
                rec.violation("header-fields", f"PDUHeader with drep {drep_vals}, version_minor {hdr.version_minor}: pack/unpack not inverse or layout wrong", {"kind": "wide", "ref_bytes": want})
            rec.count("rt_wide")
            rec.case(("wide-header", want))
            continue
        elif k == 4:  # verification trailer: MUST_PROCESS flags, big command values
            cmds_ref, cmds_lib = [], []
            for j in range(rng.choice([1, 7, 30])):
                flags = 0x8000 if rng.random() < 0.5 else 0
                val = rng.randbytes(rng.choice([0, 1, 255, 4000]))
                cmds_ref.append((rng.choice([9, 0x3FFF]) | flags, val))
                cmds_lib.append(v.Command(v.CommandType(cmds_ref[-1][0] & 0x3FFF), v.CommandFlags(flags), val))
            cmds_ref[-1] = (cmds_ref[-1][0] | 0x4000, cmds_ref[-1][1])
            cmds_lib[-1] = v.Command(cmds_lib[-1].command, v.CommandFlags((cmds_ref[-1][0] & 0xC000)), cmds_lib[-1].value)
            want = rrpc.enc_vt(cmds_ref)
            obj = v.VerificationTrailer(cmds_lib)
            try:
                got = obj.pack()
                back = v.VerificationTrailer.unpack(got)
                if got != want or sem(back) != sem(obj) or back.pack() != got:
                    rec.violation("vt-fields", "wide verification trailer not inverse / layout wrong", {"kind": "wide", "ref_bytes": want})
            except Exception as e:
                rec.violation("vt-exception", f"{type(e).__name__}: {e}", {"kind": "wide", "ref_bytes": want})
            rec.count("rt_wide")
            rec.case(("wide-vt", want))
            continue
        elif k == 5:  # floors with long lhs / rhs, towers with many floors, entry handle attributes, max_towers
            e = E()
            floors_ref = [(rng.choice([0x7F, 0xFE, 0x1F]), rng.randbytes(rng.choice([0, 255, 1000])), rng.randbytes(rng.choice([0, 255, 3000]))) for _ in range(rng.choice([1, 7, 60, 255]))]
            floors_lib = [e.Floor(e.FloorProtocol(p), l, rr) for p, l, rr in floors_ref]
            eh = (rng.choice([1, 2**31, 2**32 - 1]), g_uuid(rng))
            mt = rng.choice([0, 500, 2**31, 2**32 - 1])
            obj_u = uuid.UUID(int=rng.getrandbits(128) | 1)
            want = repm.enc_request(obj_u, floors_ref, eh, mt)
            lib = e.EptMap(obj=obj_u, tower=floors_lib, entry_handle=eh, max_towers=mt)
            try:
                got = lib.pack()
                back = e.EptMap.unpack(got)
                if got != want or sem(back) != sem(lib) or back.pack() != got:
                    rec.violation("eptmap-fields", f"wide ept_map request ({len(floors_ref)} floors) not inverse / layout wrong", {"kind": "wide", "ref_bytes": want})
                res_want = repm.enc_response([floors_ref, floors_ref[:1]], rng.choice([0, 2**32 - 1]), eh)
                res_lib = e.EptMapResult(entry_handle=eh, towers=[floors_lib, floors_lib[:1]], status=int.from_bytes(res_want[-4:], "little"))
                res_got = res_lib.pack()
                res_back = e.EptMapResult.unpack(res_got)
                if res_got != res_want or sem(res_back) != sem(res_lib) or res_back.pack() != res_got:
                    rec.violation("eptmapresult-fields", f"wide ept_map result ({len(floors_ref)} floors) not inverse / layout wrong", {"kind": "wide", "ref_bytes": res_want})
            except Exception as ex:
                rec.violation("eptmap-exception", f"{type(ex).__name__}: {ex}", {"kind": "wide", "ref_bytes": want})
            rec.count("rt_wide")
            rec.case(("wide-epm", want))
            continue
        elif k == 6:  # fault / response field extremes
            m = dict(ptype=rrpc.FAULT, flags=0xFF & ~0x80, call_id=2**32 - 1, auth=g_auth(rng), alloc_hint=2**32 - 1, ctx_id=65535, cancel_count=255, fault_flags=1, status=2**32 - 1, stub=rng.randbytes(rng.choice([0, 1, 5000])))
            raw = rrpc.encode(m)
            obj = r.Fault(header=lib_header(m, len(raw)), sec_trailer=lib_auth(m["auth"]), alloc_hint=m["alloc_hint"], context_id=m["ctx_id"], cancel_count=255, status=m["status"], flags=_pdu.FaultFlags(1), stub_data=m["stub"])
            kind = "fault"
        elif k == 7:
            m = dict(ptype=rrpc.RESPONSE, flags=rng.choice([0, 1, 2, 0x7F]), call_id=2**31, auth=g_auth(rng), alloc_hint=2**31, ctx_id=2**15, cancel_count=rng.choice([1, 128, 255]), stub=rng.randbytes(rng.choice([0, 65000 - 100])))
            raw = rrpc.encode(m)
            if len(raw) > 65535:
                continue
            obj = r.Response(header=lib_header(m, len(raw)), sec_trailer=lib_auth(m["auth"]), alloc_hint=m["alloc_hint"], context_id=m["ctx_id"], cancel_count=m["cancel_count"], stub_data=m["stub"])
            kind = "response"
        else:  # bind_nak with many versions
            m = dict(ptype=rrpc.BIND_NAK, flags=3, call_id=7, auth=None, reason=65535, versions=[(rng.randrange(256), rng.randrange(256)) for _ in range(rng.choice([6, 100, 255]))])
            raw = rrpc.encode(m)
            obj = r.BindNak(header=lib_header(m, len(raw)), sec_trailer=None, reject_reason=65535, versions=[tuple(x) for x in m["versions"]])
            kind = "bind_nak"
        want = rrpc.encode(m)
        wit = {"kind": "wide-" + kind, "ref_bytes": want}
        try:
            got = obj.pack()
            if got != want:
                i2 = next((q for q, (x, y) in enumerate(zip(got, want)) if x != y), min(len(got), len(want)))
                rec.violation(f"{kind}-layout", f"wide {kind}: pack differs from the reference at byte {i2} (len {len(got)}/{len(want)})", wit)
                continue
            back = _pdu.PDU.unpack(got)
            if type(back) is not type(obj) or sem(back) != sem(obj):
                a, b = sem(back)[1], sem(obj)[1]
                rec.violation(f"{kind}-fields", f"wide {kind}: unpack(pack(m)) differs in {[f for f in b if a.get(f) != b.get(f)]}", wit)
                continue
            if back.pack() != got:
                rec.violation(f"{kind}-repack", f"wide {kind}: repack differs", wit)
        except Exception as e:
            rec.violation(f"{kind}-exception", f"wide {kind}: {type(e).__name__}: {e}", wit)
        rec.count("rt_wide")
        rec.case(("wide", kind, want[:64], len(want)))
    rec.sample({"kind": "wide field ranges", "n": spec["n"]})


def run_shard(spec, rec: Recorder):
    if not common.calibrate(rec, "rpc", "epm"):
        return
    {"roundtrip": run_roundtrip, "terminate": run_terminate, "residues": run_residues, "scaling": run_scaling, "wide": run_wide}[spec["kind"]](spec, rec)


def replay(body, rec: Recorder):
    w = body["witness"]
    if w.get("kind") == "terminate":
        data = bytes.fromhex(w["data"]["hex"]) if "hex" in w["data"] else None
        if data is None:
            rec.inconclusive_because("witness data truncated; re-run the shard")
            return
        budget = 3000 + 40 * len(data)
        try:
            with mon.STEPS.measure(budget):
                decoders()[w["decoder"]](data)
        except mon.StepBudgetExceeded as e:
            rec.violation(body["mechanism"], f"{w['decoder']} exceeded {budget} line events at {e}", w)
        except Exception:
            pass
        rec.case(("replay", 1))
        return
    q = body["tier"] == "quick"
    kind = {"rt": "roundtrip", "term": "terminate", "residues": "residues"}[body["shard"].split("-")[0]]
    spec = {"name": body["shard"], "seed": body["seed"], "tier": body["tier"], "kind": kind, "n": (1300 if q else 60000)}
    run_shard(spec, rec)
    rec.violations[:] = [v for v in rec.violations if v["mechanism"] == body["mechanism"]][:3]
