"""C11 - MS-GKDI structures and GetKey stubs have exactly the specified byte layout.

Monitor: differential comparison of pack() with the independent ref.gkdi encoder, unpack(pack(x))
== x, and GetKey.unpack_response fed with reference-encoded NDR64 replies of every length residue.
"""
from __future__ import annotations

import random
import typing as t
import uuid

from vf.core.framework import Recorder
from vf.props import common
from vf.ref import gkdi as rg

ID = "C11"
LEVEL = "exploration"
RULE = (
    "generated field values for KDFParameters, FFCDHParameters, FFCDHKey, ECDHKey, GroupKeyEnvelope, KeyIdentifier and GetKey "
    "(integers from {0,1,2^31-1,2^31,2^32-1,random}, strings empty/ASCII/BMP/astral up to 300 chars, byte fields empty/odd/up to 1024, "
    "big integers with 0..key_length leading zero bytes, SD lengths 0..64 covering every residue mod 8, reply envelope lengths covering "
    "every residue mod 8). distinct = digest of the encoding; non-trivial = differs from the handful of literal structures in tests/test_gkdi.py "
    "(any generated value with a random component)"
    " Also: names with byte-order marks and other special code points; mutable objects re-encoded after their fields were re-assigned."
)
ASSUMPTIONS = ["ref.gkdi transcribes MS-GKDI 2.2.1-2.2.4, 3.1.4.1 and NDR64 (calibrated on Windows-captured structures and GetKey bytes)"]

U32 = [0, 1, 2**31 - 1, 2**31, 2**32 - 1]


def plan(tier, seed):
    n = 1500 if tier == "quick" else 60000
    specs = [{"name": f"mix-{i}", "kind": "mix", "n": n} for i in range(16)]
    specs.append({"name": "residues", "kind": "residues"})
    return specs


def finalize(agg, tier):
    r = []
    for c in ("kdfparams", "ffcparams", "ffckey", "ecdhkey", "envelope", "keyid", "getkey_req", "getkey_resp"):
        if agg.counter(c + "_checked") == 0:
            r.append(f"monitor never reached: {c}")
    if len(agg.sets.get("sd_len_mod8", ())) < 8 or len(agg.sets.get("reply_env_len_mod8", ())) < 8:
        r.append("not every residue mod 8 observed")
    return r


def G():
    from dpapi_ng import _gkdi

    return _gkdi


def B():
    from dpapi_ng import _blob

    return _blob


def text(rng: random.Random, n: t.Optional[int] = None) -> str:
    n = rng.choice([0, 0, 1, 5, 12, 40, 300]) if n is None else n
    kind = rng.choice(["ascii", "bmp", "astral", "mixed", "bom"])
    if kind == "bom" and n:
        # code points a careless codec treats specially: byte-order marks (either order) in first / later position, the
        # last BMP code points, lone-surrogate-free boundaries, and U+0001 / U+00FF / U+0100 (byte patterns 01 00, FF 00, 00 01)
        special = "\ufeff\ufffe\uffff\ufffd\ud7ff\ue000\u0001\u00ff\u0100"
        lead = rng.choice("\ufeff\ufffe\ufeff\uffff")
        return lead + "".join(rng.choice(special + "ab") for _ in range(n - 1))
    if kind == "ascii":
        return "".join(rng.choice("abcXYZ.-09") for _ in range(n))
    if kind == "bmp":
        return "".join(rng.choice("éßΩж中文ü") for _ in range(n))
    if kind == "astral":
        return "".join(rng.choice("😀𝄞𐍈") for _ in range(n))
    return "".join(rng.choice("a.é中😀Z\x00") for _ in range(n)) + rng.choice(["", "", "\x00"])


def u32(rng):
    return rng.choice(U32 + [rng.randrange(2**32)])


def blob(rng, n=None):
    n = rng.choice([0, 1, 3, 7, 64, 65, 255, 1024]) if n is None else n
    return rng.randbytes(n)


def bigint(rng, key_length):
    """value < 256^key_length with a chosen number of leading zero bytes."""
    if key_length == 0:
        return 0
    mode = rng.randrange(5)
    if mode == 0:
        return 0
    if mode == 1:
        return (1 << (8 * key_length)) - 1
    lead = rng.randrange(0, key_length)
    n = key_length - lead
    return rng.getrandbits(8 * n) | (1 << (8 * n - 1)) if mode == 2 else rng.getrandbits(8 * n)


def mismatch(rec, mech, what, wit):
    rec.violation(mech, what, wit)


_prev: t.Dict[str, t.Any] = {}


def reuse_object(rec, name, obj, want: bytes, wit) -> None:
    """An object that has already been encoded once is given the field values of `obj` and encoded again: the bytes must
    follow its current value (frozen dataclasses are skipped)."""
    import dataclasses

    old = _prev.get(name)
    _prev[name] = obj
    if old is None or type(old) is not type(obj) or not dataclasses.is_dataclass(obj):
        return
    try:
        for fl in dataclasses.fields(obj):
            if fl.init:
                setattr(old, fl.name, getattr(obj, fl.name))
    except (dataclasses.FrozenInstanceError, AttributeError):
        rec.count("value_objects_immutable")
        _prev[name] = None
        return
    rec.count("reencoded_after_mutation")
    try:
        again = old.pack()
    except Exception as e:
        mismatch(rec, f"{name}-pack-exception", f"after re-assigning the fields of an already encoded object: {type(e).__name__}: {e}", dict(wit, kind="session-mutated-after-pack"))
        return
    if again != want:
        mismatch(rec, f"{name}-layout", f"an object that was encoded before and then given these field values encodes to {len(again)} bytes that differ from the reference ({len(want)} bytes): the encoding follows its history, not its value", dict(wit, kind="session-mutated-after-pack"))
    _prev[name] = old


def check_struct(rec, name, obj, want: bytes, unpack, wit) -> None:
    try:
        got = obj.pack()
    except Exception as e:
        mismatch(rec, f"{name}-pack-exception", f"{type(e).__name__}: {e}", wit)
        return
    if got != want:
        i = next((k for k, (x, y) in enumerate(zip(got, want)) if x != y), min(len(got), len(want)))
        mismatch(rec, f"{name}-layout", f"pack() differs from reference at byte {i}: {got[max(0,i-8):i+8].hex()} vs {want[max(0,i-8):i+8].hex()} (len {len(got)}/{len(want)})", wit)
        return
    try:
        back = unpack(want)
    except Exception as e:
        mismatch(rec, f"{name}-unpack-exception", f"{type(e).__name__}: {e}", wit)
        return
    if back != obj:
        mismatch(rec, f"{name}-roundtrip", f"unpack(pack(x)) != x: {back!r:.300} vs {obj!r:.300}", wit)
        return
    reuse_object(rec, name, obj, want, wit)
    rec.count(f"{name}_checked")
    rec.case((name, want))


def do_kdfparams(rec, rng):
    h = rng.choice(["SHA1", "SHA256", "SHA384", "SHA512", "", "MD5", text(rng)])
    check_struct(rec, "kdfparams", G().KDFParameters(h), rg.enc_kdf_parameters(h), G().KDFParameters.unpack, {"struct": "kdfparams", "hash": h})


def do_ffc(rec, rng):
    kl = rng.choice([1, 2, 31, 32, 33, 128, 256, 512, rng.randrange(1, 513)])
    p, g, y = bigint(rng, kl), bigint(rng, kl), bigint(rng, kl)
    wit = {"struct": "ffc", "key_length": kl, "p": str(p), "g": str(g), "y": str(y)}
    check_struct(rec, "ffcparams", G().FFCDHParameters(kl, p, g), rg.enc_ffc_dh_parameters(kl, p, g), G().FFCDHParameters.unpack, wit)
    check_struct(rec, "ffckey", G().FFCDHKey(kl, p, g, y), rg.enc_ffc_dh_key(kl, p, g, y), G().FFCDHKey.unpack, wit)
    if p.bit_length() <= 8 * (kl - 1) or y.bit_length() <= 8 * (kl - 1):
        rec.count("leading_zero_integers")


def do_ecdh(rec, rng):
    curve = rng.choice(["P256", "P384", "P521"])
    kl = rng.choice([{"P256": 32, "P384": 48, "P521": 66}[curve], rng.randrange(1, 100)])
    x, y = bigint(rng, kl), bigint(rng, kl)
    wit = {"struct": "ecdh", "curve": curve, "key_length": kl, "x": str(x), "y": str(y)}
    check_struct(rec, "ecdhkey", G().ECDHKey(curve, kl, x, y), rg.enc_ecdh_key(curve, kl, x, y), G().ECDHKey.unpack, wit)


def do_envelope(rec, rng, dom=None, forest=None):
    e = dict(
        version=u32(rng),
        flags=u32(rng),
        l0=u32(rng),
        l1=u32(rng),
        l2=u32(rng),
        root_key_identifier=uuid.UUID(int=rng.choice([0, (1 << 128) - 1, rng.getrandbits(128)])),
        kdf_algorithm=rng.choice(["SP800_108_CTR_HMAC", "", text(rng)]),
        kdf_parameters=blob(rng),
        secret_algorithm=rng.choice(["DH", "ECDH_P256", "", text(rng)]),
        secret_parameters=blob(rng),
        private_key_length=u32(rng),
        public_key_length=u32(rng),
        domain_name=text(rng) if dom is None else dom,
        forest_name=text(rng) if forest is None else forest,
        l1_key=blob(rng, rng.choice([0, 64, 1, 63])),
        l2_key=blob(rng, rng.choice([0, 64, 72, 776, 5])),
    )
    if rng.random() < 0.35:
        # the shapes a DC really sends (MS-GKDI 2.2.4): positions 0..31 incl. the 31-edges, flags 0..3, key fields of 0 / 64
        # bytes in every combination (the codec must carry whatever it is given: both keys present at L2 = 31 included)
        e.update(version=1, flags=rng.choice([0, 1, 2, 3]), l0=rng.choice([0, 361, 2**31 - 1]), l1=rng.choice([0, 1, 30, 31, rng.randrange(32)]), l2=rng.choice([0, 30, 31, 31, rng.randrange(32)]), kdf_algorithm="SP800_108_CTR_HMAC", secret_algorithm=rng.choice(["DH", "ECDH_P256", "ECDH_P384"]), private_key_length=rng.choice([256, 384, 512]), public_key_length=rng.choice([256, 384, 2048]), l1_key=rng.choice([b"", rng.randbytes(64)]), l2_key=rng.choice([b"", rng.randbytes(64), rng.randbytes(64), rng.randbytes(72)]))
        rec.count("envelope_dc_shapes")
    wit = {"struct": "envelope", "fields": {k: (str(v) if not isinstance(v, (bytes, str, int)) else v) for k, v in e.items()}}
    obj = G().GroupKeyEnvelope(**e)
    check_struct(rec, "envelope", obj, rg.enc_envelope(e), G().GroupKeyEnvelope.unpack, wit)
    return e, obj


def do_keyid(rec, rng):
    k = dict(
        version=u32(rng),
        flags=u32(rng),
        l0=u32(rng),
        l1=u32(rng),
        l2=u32(rng),
        root_key_identifier=uuid.UUID(int=rng.getrandbits(128)),
        key_info=blob(rng, rng.choice([0, 1, 32, 33, 72, 104, 776, 800])),
        domain_name=text(rng),
        forest_name=text(rng),
    )
    wit = {"struct": "keyid", "fields": {kk: (str(v) if not isinstance(v, (bytes, str, int)) else v) for kk, v in k.items()}}
    check_struct(rec, "keyid", B().KeyIdentifier(**k), rg.enc_key_identifier(k), B().KeyIdentifier.unpack, wit)


def do_getkey(rec, rng, sdlen=None):
    sdlen = rng.randrange(0, 520) if sdlen is None else sdlen
    sd = rng.randbytes(sdlen)
    rk = rng.choice([None, uuid.UUID(int=0), uuid.UUID(int=rng.getrandbits(128))])
    l0, l1, l2 = (rng.choice([-1, 0, 31, 2**31 - 1, -(2**31), rng.randrange(0, 1000)]) for _ in range(3))
    wit = {"struct": "getkey", "sd_len": sdlen, "sd": sd, "root_key_id": str(rk), "l": [l0, l1, l2]}
    # MS-GKDI: "pRootKeyID ... NULL" vs zero GUID: a zero UUID is still a present pointer
    want = rg.enc_getkey_request(sd, rk, l0, l1, l2)
    obj = G().GetKey(sd, rk, l0, l1, l2)
    try:
        got = obj.pack()
    except Exception as e:
        mismatch(rec, "getkey-pack-exception", f"{type(e).__name__}: {e}", wit)
        return
    rec.seen("sd_len_mod8", sdlen % 8)
    if rk is not None and rk.int == 0:
        # known modelling question: the library treats the all-zero GUID as "no root key id" (falsy uuid?) - uuid.UUID(int=0) is truthy
        pass
    if got != want:
        i = next((k for k, (x, y) in enumerate(zip(got, want)) if x != y), min(len(got), len(want)))
        mismatch(rec, "getkey-request-layout", f"GetKey.pack differs from NDR64 reference at byte {i} (sd_len={sdlen}, rk={rk}): {got[max(0,i-8):i+8].hex()} vs {want[max(0,i-8):i+8].hex()}", wit)
        return
    try:
        d = rg.dec_getkey_request(got)
        if (d["target_sd"], d["root_key_id"], d["l0"], d["l1"], d["l2"], d["consumed"]) != (sd, rk, l0, l1, l2, len(got)):
            mismatch(rec, "getkey-request-semantics", f"reference decoder read {d}", wit)
        back = G().GetKey.unpack(got)
        if back != obj:
            mismatch(rec, "getkey-roundtrip", f"unpack(pack(x)) != x: {back!r:.200}", wit)
    except Exception as e:
        mismatch(rec, "getkey-unpack-exception", f"{type(e).__name__}: {e}", wit)
    rec.count("getkey_req_checked")
    rec.case(("getkey", got))
    reuse_object(rec, "getkey-request", obj, want, wit)


def do_getkey_response(rec, rng, dom_len=None):
    dom = "".join(rng.choice("abc.") for _ in range(rng.randrange(0, 41) if dom_len is None else dom_len))
    e = dict(
        version=1,
        flags=rng.choice([0, 1, 2]),
        l0=rng.randrange(400),
        l1=rng.randrange(32),
        l2=rng.randrange(32),
        root_key_identifier=uuid.UUID(int=rng.getrandbits(128)),
        kdf_algorithm="SP800_108_CTR_HMAC",
        kdf_parameters=rg.enc_kdf_parameters(rng.choice(common.HASHES)),
        secret_algorithm="DH",
        secret_parameters=blob(rng, rng.choice([0, 5, 524])),
        private_key_length=512,
        public_key_length=2048,
        domain_name=dom,
        forest_name=text(rng, rng.randrange(0, 9)),
        l1_key=blob(rng, rng.choice([0, 64])),
        l2_key=blob(rng, rng.choice([0, 64, 776, 3])),
    )
    env = rg.enc_envelope(e)
    referent = rng.choice([0x20000, 1, 2**63, rng.getrandbits(64) | 1])
    reply = rg.enc_getkey_response(env, 0, referent)
    wit = {"struct": "getkey_resp", "env_len": len(env), "reply": reply}
    rec.seen("reply_env_len_mod8", len(env) % 8)
    try:
        got = G().GetKey.unpack_response(reply)
    except Exception as ex:
        mismatch(rec, "getkey-response-exception", f"env_len={len(env)}: {type(ex).__name__}: {ex}", wit)
        return
    if got != G().GroupKeyEnvelope(**e):
        mismatch(rec, "getkey-response-mismatch", f"env_len={len(env)}: decoded envelope differs from the one encoded", wit)
    # HRESULT != 0 must surface as an error
    hr = rng.choice([0x80070057, 0x80070005, 1, 0xFFFFFFFF])
    bad = rg.enc_getkey_response(b"", hr, null_ptr=True)
    try:
        G().GetKey.unpack_response(bad)
        mismatch(rec, "getkey-hresult-ignored", f"HRESULT 0x{hr:08x} reply decoded without error", {"struct": "getkey_resp", "reply": bad})
    except Exception:
        pass
    rec.count("getkey_resp_checked")
    rec.case(("getkey_resp", reply))


def run_shard(spec, rec: Recorder):
    if not common.calibrate(rec, "gkdi"):
        return
    rng = common.rng_for(ID, spec)
    if spec["kind"] == "mix":
        for i in range(spec["n"]):
            j = i % 8
            [do_kdfparams, do_ffc, do_ecdh, do_envelope, do_keyid, do_getkey, do_getkey_response, do_envelope][j](rec, rng)
        e, obj = do_envelope(rec, rng)
        rec.sample({"struct": "envelope", "encoding": rg.enc_envelope(e)})
    else:
        for sdlen in range(0, 65):
            for _ in range(4):
                do_getkey(rec, rng, sdlen)
        for dl in range(0, 41):
            for _ in range(4):
                do_getkey_response(rec, rng, dl)
        rec.sample({"struct": "getkey", "sd_lengths": "0..64 x4", "reply domain name lengths": "0..40 x4"})
        rec.mark_exhaustive("SD length residues mod 8 and reply envelope length residues mod 8")


def replay(body, rec: Recorder):
    # structures are regenerated from the shard's seed: re-run the shard that produced the witness
    spec = {"name": body["shard"], "seed": body["seed"], "tier": body["tier"], "kind": "residues" if body["shard"] == "residues" else "mix", "n": 1500 if body["tier"] == "quick" else 60000}
    run_shard(spec, rec)
    rec.violations[:] = [v for v in rec.violations if v["mechanism"] == body["mechanism"]][:3]
