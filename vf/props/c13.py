"""C13 - request framing: lengths, alignment, and exactly the stub region is sealed.

Monitor (request path): SyncRpcClient / AsyncRpcClient.request() is driven over a scripted transport
with a ScriptedContext security context.  An independent receiver decodes the bytes written to the
transport (ref.rpc) and the monitor inspects the IOV buffers the client handed to the security
context (types and bytes).  Reply path: the public API runs against the in-memory reference DC
whose replies cover every envelope-length residue and every auth pad length 0..15 (pad bytes 0xBB),
plus real NTLM over TCP as the realistic member.
"""
from __future__ import annotations

import asyncio
import struct
import typing as t
import uuid

import spnego.iov

from vf.core.framework import Recorder
from vf.instruments import transport as tr
from vf.props import common, online
from vf.ref import cms, rpc as rrpc
from vf.refdc import frontends as fe
from vf.refdc.core import DCConfig, DCCore

ID = "C13"
LEVEL = "exploration"
RULE = (
    "request path: stub length 0..320 (quick: 0..64 + 64 seeded lengths; thorough: all) x verification trailer on/off x signature size in "
    "{16,28,60,76} x header signing on/off x {sync, async}; reply path: envelope lengths covering every residue mod 16 (domain/forest name lengths "
    "0..40) x auth pad_length 0..15 x alignment {4,8,16}, success and HRESULT != 0 replies, plus real NTLM exchanges. distinct = the tuple; "
    "non-trivial = all (the suite never drives request())"
    " Also: several requests per connection; two or three connections alive at once with different negotiations (two-clients-* shards)."
)
ASSUMPTIONS = [
    "ScriptedContext stands in for the GSS mechanism: transparent XOR seal + HMAC over exactly the buffers marked signed; what the client passes to wrap_iov/unwrap_iov is logged",
    "header signing is 'on' when client and server both set PFC_SUPPORT_HEADER_SIGN in the bind exchange",
    "framing rules as stated in the property (MS-RPCE 2.2.2.11/2.2.2.13): verification trailer at the next 4-byte boundary, security trailer 16-byte aligned from the stub start",
]
BT = spnego.iov.BufferType
FL = rrpc.PFC_FIRST | rrpc.PFC_LAST
SIGS = [16, 28, 60, 76]


def plan(tier, seed):
    import random

    if tier == "quick":
        r = random.Random(f"C13:{seed}")
        lens = sorted(set(range(0, 65)) | set(r.sample(range(65, 321), 64)))
    else:
        lens = list(range(0, 321))
    specs = []
    for client in ("sync", "async"):
        for i, chunk in enumerate(common.split(lens, 4)):
            specs.append({"name": f"req-{client}-{i}", "kind": "request", "client": client, "lens": chunk})
    for client in ("sync", "async"):
        specs.append({"name": f"req-wide-{client}", "kind": "request_wide", "client": client, "n": 60 if tier == "quick" else 1500})
    for client in ("sync", "async"):
        specs.append({"name": f"two-clients-{client}", "kind": "two_clients", "client": client, "n": 40 if tier == "quick" else 600})
    for i in range(4):
        specs.append({"name": f"reply-{i}", "kind": "reply", "n": 250 if tier == "quick" else 8000})
    specs.append({"name": "reply-ntlm", "kind": "reply_ntlm", "n": 25 if tier == "quick" else 500})
    return specs


def finalize(agg, tier):
    r = []
    for c in ("requests_decoded_by_receiver", "iov_lists_checked", "unwrap_iov_lists_checked", "replies_checked", "ntlm_replies_checked", "hresult_replies_checked", "multi_request_connections"):
        if agg.counter(c) == 0:
            r.append(f"monitor never reached: {c}")
    if len(agg.sets.get("stub_mod16", ())) < 16:
        r.append("not every stub-length residue mod 16 observed")
    if len(agg.sets.get("reply_pad_lengths", ())) < 16:
        r.append("not every reply pad_length 0..15 observed")
    if len(agg.sets.get("reply_stub_mod16", ())) < 4:
        r.append("reply stub residues not covered")
    return r


_ACK_LEVELS = [6, 5, 6, 2, 5, 1, 4]
_ack_n = [0]


def ack(ptype: int, sign: bool, token: bytes, call_id: int = 1) -> bytes:
    # the level octet in the SERVER's trailers rotates through weaker values: the client asked for PKT_PRIVACY and must
    # keep sealing its requests whatever that octet says (or refuse to go on) - it is not an instruction to the client
    _ack_n[0] += 1
    auth = dict(type=10, level=_ACK_LEVELS[_ack_n[0] % len(_ACK_LEVELS)], pad=0, ctx=0, token=token) if token else None
    return rrpc.encode(
        dict(ptype=ptype, flags=FL | (4 if sign else 0), call_id=call_id, auth=auth, max_xmit=5840, max_recv=5840, assoc=1, sec_addr="49668" if ptype == rrpc.BIND_ACK else "", results=[(0, 0, rrpc.NDR64[0], 1), (3, 3, uuid.UUID(int=0), 0)])
    )


def verify_request(rec: Recorder, wire: bytes, ctx: tr.ScriptedContext, stub: bytes, vt_bytes: t.Optional[bytes], sig: int, sign: bool, wit: dict, seq: int = 0) -> t.Optional[dict]:
    """The independent receiver + IOV monitor. Returns decoded request or None."""
    bad = lambda mech, msg: rec.violation(mech, msg, wit)  # noqa: E731
    try:
        m = rrpc.decode(wire)  # strict: frag_len must equal the size on the wire
    except rrpc.RpcDecodeError as e:
        bad("frag-len", f"receiver cannot decode the request: {e}")
        return None
    rec.count("requests_decoded_by_receiver")
    if m["ptype"] != rrpc.REQUEST or m["auth"] is None:
        bad("request-shape", f"ptype {m['ptype']} auth {m['auth']}")
        return None
    if m["auth_len"] != sig:
        bad("auth-len", f"auth_len {m['auth_len']} != signature size {sig}")
    off = m["auth_offset"]
    so = m["stub_offset"]
    if (off - so) % 16:
        bad("sec-trailer-alignment", f"security trailer at stub+{off - so}, not 16-byte aligned")
    wraps = [e for e in ctx.log if e[0] == "wrap"]
    if len(wraps) != 1:
        bad("wrap-count", f"{len(wraps)} wrap_iov calls for one request")
        return None
    iov = wraps[0][1]
    rec.count("iov_lists_checked")
    types = [bt for bt, _ in iov]
    st = BT.sign_only if sign else BT.data_readonly
    if types != [st, BT.data, st, BT.header]:
        mech = "header-sign-decision" if types[1:2] == [BT.data] and types[3:] == [BT.header] else "iov-layout"
        bad(mech, f"IOV buffer types {[t_.name for t_ in types]}, expected {[st.name, 'data', st.name, 'header']} (header signing {'on' if sign else 'off'})")
        return None
    hdr, body, trl = iov[0][1], iov[1][1], iov[2][1]
    if hdr != wire[:so] or len(hdr) != 24:
        bad("iov-header", f"header buffer is not the 24 cleartext header bytes on the wire (len {len(hdr)})")
    if trl != wire[off : off + 8]:
        bad("iov-trailer", "security trailer buffer differs from the trailer bytes on the wire")
    plain_expected = stub
    if vt_bytes is not None:
        plain_expected = stub + b"\x00" * (-len(stub) % 4) + vt_bytes
    padn = -len(plain_expected) % 16
    if body[: len(plain_expected)] != plain_expected:
        i = next((k for k, (x, y) in enumerate(zip(body, plain_expected)) if x != y), min(len(body), len(plain_expected)))
        mech = "vt-position" if vt_bytes is not None and i >= len(stub) else "sealed-region-content"
        bad(mech, f"region handed to the security context differs from stub||pad4||vt at byte {i} (stub {len(stub)} bytes, region {len(body)})")
    elif len(body) != len(plain_expected) + padn:
        bad("sealed-region-length", f"region handed to the security context is {len(body)} bytes, expected stub+vt {len(plain_expected)} + pad {padn}")
    if m["auth"]["pad"] != len(body) - len(plain_expected):
        bad("pad-length", f"pad_length {m['auth']['pad']} but {len(body) - len(plain_expected)} padding bytes were added (stub {len(stub)}, vt {'yes' if vt_bytes else 'no'})")
    if len(body) != off - so:
        bad("sealed-region-vs-wire", f"sealed region {len(body)} bytes but wire stub region {off - so} bytes")
    # wire body must be the seal of the region, header/trailer in clear, signature = MAC over signed buffers
    if wire[so:off] != ctx.keystream_xor(body, seq):
        bad("wire-body-not-sealed", "stub region on the wire is not the security context's output for the region")
    if len(body) and wire[so:off] == body:
        bad("wire-body-cleartext", "stub region travels in clear")
    exp_sig = ctx.mac(seq, [hdr, body, trl] if sign else [body])
    if wire[off + 8 :] != exp_sig:
        bad("wire-signature", "signature on the wire is not the security context's signature")
    # (provider id / level / auth context id of the trailer are C17's and the security provider's business, not framing)
    return m


def verify_unwrap(rec: Recorder, ctx: tr.ScriptedContext, reply: bytes, sig: int, sign: bool, wit: dict) -> None:
    """What the client hands to the security context for the reply: header (24) and trailer (8) as sign_only iff header
    signing is on (else data_readonly), exactly the ciphertext region as data, the signature as the header buffer."""
    unwraps = [e for e in ctx.log if e[0] == "unwrap"]
    if len(unwraps) != 1:
        rec.violation("unwrap-count", f"{len(unwraps)} unwrap_iov calls for one sealed reply", wit)
        return
    iov = unwraps[0][1]
    rec.count("unwrap_iov_lists_checked")
    st = BT.sign_only if sign else BT.data_readonly
    types = [bt for bt, _ in iov]
    off = len(reply) - sig - 8
    if types != [st, BT.data, st, BT.header]:
        rec.violation("header-sign-decision-reply", f"unwrap IOV buffer types {[x.name for x in types]}, expected {[st.name, 'data', st.name, 'header']} (header signing {'on' if sign else 'off'})", wit)
        return
    if iov[0][1] != reply[:24] or iov[1][1] != reply[24:off] or iov[2][1] != reply[off : off + 8] or iov[3][1] != reply[off + 8 :]:
        rec.violation("unwrap-regions", "buffers handed to unwrap_iov are not (header 24, ciphertext region, trailer 8, signature) of the reply", wit)


def make_client(client: str, sock_or_stream, ctx: tr.ScriptedContext):
    from dpapi_ng._rpc import _auth
    from dpapi_ng._rpc import _client as rc

    with tr.patched_spnego_client(lambda *a, **k: ctx):
        auth = _auth.AuthenticationProvider("u", "p", "h", "ntlm")
    if client == "sync":
        return rc.SyncRpcClient(sock_or_stream, auth)
    return rc.AsyncRpcClient(sock_or_stream.reader, sock_or_stream.writer, auth)


def run_request(spec, rec: Recorder):
    from dpapi_ng import _client as cl

    rng = common.rng_for(ID, spec)
    client_kind = spec["client"]
    vt_obj = cl._VERIFICATION_TRAILER
    vt_ref = rrpc.enc_vt(online.EXPECTED_VT)
    loop = asyncio.new_event_loop()
    asyncio.set_event_loop(loop)
    try:
        for n in spec["lens"]:
            for use_vt in (False, True):
                for sig in SIGS:
                    for sign in (False, True):
                        stub = rng.randbytes(n)
                        ctx = tr.ScriptedContext((b"C1", b"C2"), 2, sig)
                        # the peer's signatures need not have the size of ours (auth_len of the reply says how long they are)
                        rsig = sig if (n + sig) % 3 else {16: 28, 28: 16, 60: 76, 76: 12}[sig]
                        server = tr.ScriptedContext((), 0, rsig)
                        state = {"n": 0, "req": None}
                        reply_stub = rng.randbytes(rng.choice([0, 5, 16, 33]))

                        def handler(data, state=state, sign=sign, server=server, sig=rsig, reply_stub=reply_stub):
                            i = state["n"]
                            state["n"] += 1
                            if i == 0:
                                return [ack(rrpc.BIND_ACK, sign, b"S1", tr.call_id_of(data))]
                            if i == 1:
                                return [ack(rrpc.ALTER_CONTEXT_RESP, sign, b"", tr.call_id_of(data))]
                            state["req"] = data
                            padn = -len(reply_stub) % 16
                            body = reply_stub + b"\xbb" * padn
                            frag = 24 + len(body) + 8 + sig
                            header = rrpc.header(rrpc.RESPONSE, FL, frag, sig, tr.call_id_of(data)) + struct.pack("<IHBB", len(body), 0, 0, 0)
                            trailer = struct.pack("<BBBBI", 10, 6, padn, 0, 0)
                            st = BT.sign_only if sign else BT.data_readonly
                            res = server.wrap_iov([(st, header), body, (st, trailer), BT.header], encrypt=True, qop=None)
                            state["reply"] = header + res.buffers[1].data + trailer + res.buffers[3].data
                            return [state["reply"]]

                        wit = {"stub_len": n, "vt": use_vt, "sig": sig, "sign": sign, "client": client_kind, "stub": stub}
                        try:
                            if client_kind == "sync":
                                sock = tr.FakeSocket(handler)
                                c = make_client("sync", sock, ctx)
                                c.bind(cl._ISD_KEY_CONTEXTS)
                                ctx.log.clear()
                                resp = c.request(0, 0, stub, verification_trailer=vt_obj if use_vt else None)
                            else:
                                st_ = tr.FakeStream(handler, eof_after_each_reply=False)
                                c = make_client("async", st_, ctx)

                                async def go():
                                    await c.bind(cl._ISD_KEY_CONTEXTS)
                                    ctx.log.clear()
                                    return await c.request(0, 0, stub, verification_trailer=vt_obj if use_vt else None)

                                resp = loop.run_until_complete(asyncio.wait_for(go(), 30))
                        except Exception as e:
                            rec.violation("request-exception", f"{type(e).__name__}: {e}", wit)
                            continue
                        if state["req"] is None:
                            rec.violation("request-not-sent", "no request PDU reached the transport", wit)
                            continue
                        verify_request(rec, state["req"], ctx, stub, vt_ref if use_vt else None, sig, sign, wit)
                        verify_unwrap(rec, ctx, state["reply"], rsig, sign, wit)
                        if rsig != sig:
                            rec.count("replies_with_other_signature_size")
                        # the reply the client returned must be the plaintext the server sealed (pad still attached at this layer)
                        exp = reply_stub + b"\xbb" * (-len(reply_stub) % 16)
                        if resp.stub_data not in (exp, reply_stub):  # the declared padding may be stripped here or by the caller
                            rec.violation("response-stub", f"request() returned a stub of {len(resp.stub_data)} bytes that is not what the server sealed ({len(exp)})", wit)
                        rec.seen("stub_mod16", n % 16)
                        rec.seen("combos", (n % 16, use_vt, sig, sign))
                        rec.case((n, use_vt, sig, sign, client_kind))
        rec.sample({"client": client_kind, "stub_lengths": spec["lens"][:8], "vt": [False, True], "sig": SIGS, "sign": [False, True], "last_wire_request": state["req"]})
        rec.mark_exhaustive(f"stub lengths {spec['lens'][0]}..{spec['lens'][-1]} (listed) x vt x sig x sign for {client_kind}")
    finally:
        loop.close()


def run_two_clients(spec, rec: Recorder):
    """Two (or three) connections alive at the same time whose servers negotiated differently (header signing on / off,
    different signature sizes): what one connection negotiated must not leak into the framing of another.  Binds and requests
    of the connections are interleaved in every order."""
    from dpapi_ng import _client as cl

    rng = common.rng_for(ID, spec)
    kind = spec["client"]
    vt_obj = cl._VERIFICATION_TRAILER
    vt_ref = rrpc.enc_vt(online.EXPECTED_VT)
    loop = asyncio.new_event_loop()
    asyncio.set_event_loop(loop)

    def new_conn(sign: bool, sig: int):
        ctx = tr.ScriptedContext((b"C1", b"C2"), 2, sig)
        server = tr.ScriptedContext((), 0, sig)
        state = {"n": 0, "reqs": []}

        def handler(data):
            i = state["n"]
            state["n"] += 1
            if i == 0:
                return [ack(rrpc.BIND_ACK, sign, b"S1", tr.call_id_of(data))]
            if i == 1:
                return [ack(rrpc.ALTER_CONTEXT_RESP, sign, b"", tr.call_id_of(data))]
            state["reqs"].append(data)
            body = b"\x22" * 16
            header = rrpc.header(rrpc.RESPONSE, FL, 24 + len(body) + 8 + sig, sig, tr.call_id_of(data)) + struct.pack("<IHBB", len(body), 0, 0, 0)
            trailer = struct.pack("<BBBBI", 10, 6, 0, 0, 0)
            st = BT.sign_only if sign else BT.data_readonly
            res = server.wrap_iov([(st, header), body, (st, trailer), BT.header], encrypt=True, qop=None)
            return [header + res.buffers[1].data + trailer + res.buffers[3].data]

        transport = tr.FakeSocket(handler) if kind == "sync" else tr.FakeStream(handler, eof_after_each_reply=False)
        return dict(ctx=ctx, state=state, sign=sign, sig=sig, client=make_client(kind, transport, ctx))

    def do(coro_or_none):
        if kind == "async":
            return loop.run_until_complete(asyncio.wait_for(coro_or_none, 30))
        return coro_or_none

    try:
        for case in range(spec["n"]):
            k = rng.choice([2, 2, 3])
            conns = [new_conn(sign=bool((case + j) % 2) if j < 2 else rng.random() < 0.5, sig=rng.choice(SIGS)) for j in range(k)]
            # a random interleaving of: bind of each connection, then 1..3 requests of each connection
            ops = [("bind", j) for j in range(k)]
            rng.shuffle(ops)
            reqs = [("req", j) for j in range(k) for _ in range(rng.randrange(1, 4))]
            rng.shuffle(reqs)
            # a later bind of another connection may also fall between two requests of an earlier one
            late = ops.pop() if rng.random() < 0.6 else None
            seq = ops + reqs
            if late:
                seq.insert(rng.randrange(len(ops), len(seq) + 1), late)
            bound = set()
            wit = {"kind": "two-clients", "client": kind, "signs": [c["sign"] for c in conns], "sigs": [c["sig"] for c in conns], "sequence": [list(x) for x in seq], "case": case, "shard": spec["name"]}
            try:
                for op, j in seq:
                    c = conns[j]
                    if op == "bind":
                        if j not in bound:
                            do(c["client"].bind(cl._ISD_KEY_CONTEXTS))
                            bound.add(j)
                        continue
                    if j not in bound:
                        do(c["client"].bind(cl._ISD_KEY_CONTEXTS))
                        bound.add(j)
                    stub = rng.randbytes(rng.choice([0, 1, 5, 16, 33, 100]))
                    use_vt = rng.random() < 0.5
                    c["ctx"].log.clear()
                    before = len(c["state"]["reqs"])
                    do(c["client"].request(0, 0, stub, verification_trailer=vt_obj if use_vt else None))
                    if len(c["state"]["reqs"]) != before + 1:
                        rec.violation("request-not-sent", "no request PDU reached the transport", wit)
                        continue
                    # the server-side sequence number of this connection = number of requests it has seen
                    verify_request(rec, c["state"]["reqs"][-1], c["ctx"], stub, vt_ref if use_vt else None, c["sig"], c["sign"], dict(wit, connection=j), seq=before)
                    rec.count("two_client_requests_verified")
            except Exception as e:
                rec.violation("request-exception", f"{type(e).__name__}: {e} ({wit})", wit)
            rec.case(("two-clients", kind, case))
        rec.sample({"kind": "several live connections with different negotiations", "client": kind, "cases": spec["n"], "last": wit})
    finally:
        loop.close()


def run_request_wide(spec, rec: Recorder):
    """Outside the dense sweep: large stubs (around 1 KiB, 4 KiB, the 5840 max fragment, tens of KiB), other signature
    sizes, and SEVERAL requests on one connection (per-connection state: call ids, cached sizes, sequence numbers)."""
    from dpapi_ng import _client as cl

    rng = common.rng_for(ID, spec)
    client_kind = spec["client"]
    vt_obj = cl._VERIFICATION_TRAILER
    vt_ref = rrpc.enc_vt(online.EXPECTED_VT)
    loop = asyncio.new_event_loop()
    asyncio.set_event_loop(loop)
    big = [1000, 1023, 1024, 1025, 4090, 4095, 4096, 4097, 5790, 5839, 5840, 5841, 16384, 30001, 60000]
    try:
        for case in range(spec["n"]):
            sig = rng.choice([12, 16, 20, 32, 64, 76, 128])
            sign = rng.random() < 0.5
            ctx = tr.ScriptedContext((b"C1", b"C2"), 2, sig)
            server = tr.ScriptedContext((), 0, sig)
            state = {"n": 0, "reqs": []}

            def handler(data, state=state, sign=sign, server=server, sig=sig):
                i = state["n"]
                state["n"] += 1
                if i == 0:
                    return [ack(rrpc.BIND_ACK, sign, b"S1", tr.call_id_of(data))]
                if i == 1:
                    return [ack(rrpc.ALTER_CONTEXT_RESP, sign, b"", tr.call_id_of(data))]
                state["reqs"].append(data)
                body = b"\x11" * 16
                header = rrpc.header(rrpc.RESPONSE, FL, 24 + len(body) + 8 + sig, sig, int.from_bytes(data[12:16], "little")) + struct.pack("<IHBB", len(body), 0, 0, 0)
                trailer = struct.pack("<BBBBI", 10, 6, 0, 0, 0)
                st = BT.sign_only if sign else BT.data_readonly
                res = server.wrap_iov([(st, header), body, (st, trailer), BT.header], encrypt=True, qop=None)
                return [header + res.buffers[1].data + trailer + res.buffers[3].data]

            stubs = [rng.randbytes(rng.choice(big + [rng.randrange(0, 400)])) for _ in range(rng.choice([1, 2, 3, 5]))]
            vts = [rng.random() < 0.5 for _ in stubs]
            wit = {"sig": sig, "sign": sign, "client": client_kind, "stub_lens": [len(x) for x in stubs], "vt": vts, "case": case, "shard": spec["name"]}
            try:
                if client_kind == "sync":
                    c = make_client("sync", tr.FakeSocket(handler), ctx)
                    c.bind(cl._ISD_KEY_CONTEXTS)
                    ctx.log.clear()
                    for st_, v_ in zip(stubs, vts):
                        c.request(0, 0, st_, verification_trailer=vt_obj if v_ else None)
                else:
                    c = make_client("async", tr.FakeStream(handler, eof_after_each_reply=False), ctx)

                    async def go():
                        await c.bind(cl._ISD_KEY_CONTEXTS)
                        ctx.log.clear()
                        for st_, v_ in zip(stubs, vts):
                            await c.request(0, 0, st_, verification_trailer=vt_obj if v_ else None)

                    loop.run_until_complete(asyncio.wait_for(go(), 60))
            except Exception as e:
                rec.violation("request-exception", f"{type(e).__name__}: {e} ({wit})", wit)
                continue
            if len(state["reqs"]) != len(stubs):
                rec.violation("request-not-sent", f"{len(state['reqs'])} request PDUs for {len(stubs)} request() calls", wit)
                continue
            wraps = [e for e in ctx.log if e[0] == "wrap"]
            for k, (wire, st_, v_) in enumerate(zip(state["reqs"], stubs, vts)):
                sub = tr.ScriptedContext((), 0, sig)
                sub.log = [wraps[k]] if k < len(wraps) else []
                verify_request(rec, wire, sub, st_, vt_ref if v_ else None, sig, sign, dict(wit, request_index=k), seq=k)
                rec.seen("stub_mod16", len(st_) % 16)
            rec.count("multi_request_connections" if len(stubs) > 1 else "single_request_connections")
            rec.case(("wide", case, client_kind, tuple(len(x) for x in stubs), sig, sign))
        rec.sample({"kind": "wide request framing", "client": client_kind, "example": wit})
    finally:
        loop.close()


def run_reply(spec, rec: Recorder):
    import dpapi_ng

    rng = common.rng_for(ID, spec)
    h, a = "SHA512", "DH"
    rkid = uuid.UUID(int=rng.getrandbits(128))
    rk = online.root_key(rng, h, a)
    cfg = DCConfig({rkid: rk}, rkid, security="scripted")
    core = DCCore(cfg)
    loop = asyncio.new_event_loop()
    asyncio.set_event_loop(loop)
    try:
        for i in range(spec["n"]):
            cfg.sig_size = rng.choice(SIGS)
            dc = fe.MemoryDC(core)
            dl = i % 41
            cfg.domain = "d" * dl
            cfg.forest = "f" * rng.randrange(0, 41)
            cfg.reply_pad_exact = (i // 3) % 16 if i % 2 else None
            cfg.reply_align = rng.choice([4, 8, 16])
            cfg.header_sign = rng.random() < 0.5
            cfg.hresult = 0 if i % 7 else rng.choice([0x80070005, 0x80070057, 1])
            cfg.l2_key_absent_at_31 = rng.random() < 0.3
            pos = (rng.randrange(32), rng.choice([31, rng.randrange(32)]))
            cfg.now = (361,) + pos
            sid = online.gen_sid(rng)
            pt = rng.randbytes(rng.randrange(0, 64))
            blob = online.ref_blob(rng, rkid, rk, sid, (361,) + pos, "nonce", pt, domain=cfg.domain)
            wit = {"i": i, "domain_len": dl, "forest_len": len(cfg.forest), "pad_exact": cfg.reply_pad_exact, "align": cfg.reply_align, "sig": cfg.sig_size, "hresult": cfg.hresult, "pos": pos, "header_sign": cfg.header_sign}
            since = len(core.transcripts)
            api = "async" if i % 4 == 3 else "sync"
            try:
                with dc.installed():
                    if api == "sync":
                        out = ("ok", dpapi_ng.ncrypt_unprotect_secret(blob, server="dc.verif.test", username="u", password="p", auth_protocol="ntlm", cache=dpapi_ng.KeyCache()))
                    else:
                        out = ("ok", loop.run_until_complete(asyncio.wait_for(dpapi_ng.async_ncrypt_unprotect_secret(blob, server="dc.verif.test", username="u", password="p", auth_protocol="ntlm", cache=dpapi_ng.KeyCache()), 30)))
            except Exception as e:
                out = ("error", f"{type(e).__name__}: {e}")
            ev = [e for c in core.transcripts[since:] for e in c.events if e["event"] == "request"]
            if not ev or "reply_stub_len" not in ev[-1]:
                rec.violation("reply-path-no-getkey", f"no GetKey reached the DC: {out}", wit)
                continue
            rec.seen("reply_pad_lengths", ev[-1].get("reply_pad"))
            rec.seen("reply_stub_mod16", ev[-1]["reply_stub_len"] % 16)
            if cfg.hresult:
                rec.count("hresult_replies_checked")
                if out[0] == "ok":
                    rec.violation("hresult-ignored", f"DC answered HRESULT 0x{cfg.hresult:08x} but the API returned {out[1]!r:.60}", wit)
            else:
                rec.count("replies_checked")
                if out != ("ok", pt):
                    rec.violation("reply-pad-stripping", f"reply with stub {ev[-1]['reply_stub_len']} bytes, pad_length {ev[-1].get('reply_pad')}: API gave {str(out)[:200]}", wit)
            rec.case(tuple(sorted(wit.items(), key=str)), sample=wit if i == 0 else None)
        cfg.reply_pad_exact = None
    finally:
        loop.close()


def run_reply_ntlm(spec, rec: Recorder):
    import dpapi_ng

    rng = common.rng_for(ID, spec)
    rkid = uuid.UUID(int=rng.getrandbits(128))
    rk = online.root_key(rng, "SHA256", "ECDH_P256")
    cfg = DCConfig({rkid: rk}, rkid, security="ntlm")
    core = DCCore(cfg)
    dc = fe.TcpDC(core)
    try:
        with dc.installed():
            for i in range(spec["n"]):
                cfg.domain = "n" * (i % 17)
                cfg.reply_pad_exact = i % 16
                pos = (rng.randrange(32), rng.randrange(32))
                cfg.now = (361,) + pos
                sid = online.gen_sid(rng)
                pt = rng.randbytes(20)
                blob = online.ref_blob(rng, rkid, rk, sid, (361,) + pos, "nonce", pt)
                wit = {"i": i, "domain_len": i % 17, "pad_exact": i % 16, "security": "ntlm"}
                try:
                    out = dpapi_ng.ncrypt_unprotect_secret(blob, server="dc.verif.test", username=fe.NTLM_USER, password=fe.NTLM_PASS, auth_protocol="ntlm", cache=dpapi_ng.KeyCache())
                except Exception as e:
                    out = f"{type(e).__name__}: {e}"
                rec.count("ntlm_replies_checked")
                rec.seen("reply_pad_lengths", i % 16)
                if out != pt:
                    rec.violation("reply-pad-stripping", f"real NTLM, pad_length {i % 16}: API gave {str(out)[:200]}", wit)
                # the request as the real NTLM acceptor saw it
                ev = [e for c in core.transcripts for e in c.events if e["event"] == "request"][-1]
                if ev.get("unwrap_error") or not ev.get("sealed") or ev.get("stub_region_offset_mod16") != 0 or ev.get("vt") != online.EXPECTED_VT:
                    rec.violation("ntlm-request-framing", f"DC with real NTLM: unwrap_error={ev.get('unwrap_error')} sealed={ev.get('sealed')} align={ev.get('stub_region_offset_mod16')} vt={ev.get('vt')}", wit)
                rec.case(("ntlm", i))
        if dc.errors:
            rec.inconclusive_because(f"reference DC thread error: {dc.errors[0][-300:]}")
    finally:
        dc.close()


def run_shard(spec, rec: Recorder):
    if not common.calibrate(rec, "rpc", "gkdi", "cms"):
        return
    {"request": run_request, "request_wide": run_request_wide, "two_clients": run_two_clients, "reply": run_reply, "reply_ntlm": run_reply_ntlm}[spec["kind"]](spec, rec)


def replay(body, rec: Recorder):
    w = body["witness"]
    if "stub_len" in w:
        spec = {"name": "replay", "seed": body["seed"], "kind": "request", "client": w["client"], "lens": [w["stub_len"]]}
        run_request(spec, rec)
    elif "stub_lens" in w:
        run_request_wide({"name": w["shard"], "seed": body["seed"], "kind": "request_wide", "client": w["client"], "n": 60 if body["tier"] == "quick" else 1500}, rec)
    else:
        q = body["tier"] == "quick"
        kind = "reply_ntlm" if body["shard"] == "reply-ntlm" else "reply"
        run_shard({"name": body["shard"], "seed": body["seed"], "tier": body["tier"], "kind": kind, "n": {"reply": 250 if q else 8000, "reply_ntlm": 25 if q else 500}[kind]}, rec)
    rec.violations[:] = [v for v in rec.violations if v["mechanism"] == body["mechanism"]][:3]
