"""C18 - endpoint-mapper replies: right port if well-formed, bounded work for any reply.

Monitor: reference-encoded (ref.epm) ept_map replies are served by a scripted endpoint-mapper
connection to the public API; the port of the connection the client opens next (wrapped
socket.create_connection / asyncio.open_connection) is compared with the TCP port of the first
tower that has a TCP floor; EptMapResult.unpack is compared tower-by-tower with what was encoded.
Hostile replies run under the interpreter step meter and tracemalloc with budgets linear in the
reply size.
"""
from __future__ import annotations

import asyncio
import struct
import tracemalloc
import typing as t
import uuid

from vf.core.framework import Recorder
from vf.instruments import monitors as mon
from vf.instruments import transport as tr
from vf.props import common, online
from vf.ref import epm as repm
from vf.ref import rpc as rrpc

ID = "C18"
LEVEL = "exploration"
RULE = (
    "well-formed replies: tower lists 0..6, floors of known (UUID, RPC-CO, TCP, IP) and unknown protocols with payloads 0..15 so that tower lengths cover "
    "every residue mod 8, TCP floor in tower k / absent / twice, max_count >= actual count, arbitrary non-zero referents, statuses {0, 0x16c9a0d6, random}; "
    "hostile replies: tower / floor counts 2^16-1..2^64-1, lengths beyond the buffer, 52-byte reply announcing 2^40 towers, truncations, bit flips, "
    "random bytes. distinct = digest of the reply; non-trivial = more than one tower or a tower length != 75 (the captured reply), or hostile"
)
ASSUMPTIONS = [
    "ref.epm transcribes C706 appendix L/O and NDR64 (calibrated on the captured 3-tower reply and both captured requests)",
    "budgets: 3000 + 40*len line events, 1 MiB + 64*len bytes (tracemalloc peak)",
]
FL = rrpc.PFC_FIRST | rrpc.PFC_LAST


def plan(tier, seed):
    q = tier == "quick"
    specs = [{"name": f"wf-{i}", "kind": "wellformed", "n": 250 if q else 12000} for i in range(8)]
    specs += [{"name": f"hostile-{i}", "kind": "hostile", "n": 1500 if q else 15000} for i in range(16 if not q else 8)]
    specs.append({"name": "scaling", "kind": "scaling", "repeats": 5 if q else 15})
    return specs


def finalize(agg, tier):
    r = []
    for c in ("ports_compared", "towers_compared", "status_errors_checked", "no_tcp_floor_checked", "hostile_metered", "hostile_via_api", "memory_samples", "scaling_probes"):
        if agg.counter(c) == 0:
            r.append(f"monitor never reached: {c}")
    if len(agg.sets.get("tower_len_mod8", ())) < 8:
        r.append("not every tower-length residue observed")
    return r


def gen_floor(rng, allow_tcp=True):
    k = rng.randrange(7)
    if k == 0 and allow_tcp:
        return repm.floor_tcp(rng.choice([1, 135, 49152, 49668, 65535, rng.randrange(1, 65536)]))
    if k == 1:
        return repm.floor_ip(rng.getrandbits(32))
    if k == 2:
        return repm.floor_rpc_co(rng.choice([0, 1]))
    if k == 3:
        return repm.floor_uuid(uuid.UUID(int=rng.getrandbits(128)), rng.randrange(4), 0)
    return (rng.choice([0x0F, 0x1F, 0x7F, 0x08, 0x10, 0xFE]), rng.randbytes(rng.choice([0, 1, 3])), rng.randbytes(rng.randrange(0, 16)))


def gen_wide_towers(rng):
    """Well-formed but unusual: many floors, large payloads, TCP floors with odd rhs sizes are left out (a TCP floor's rhs is
    2 bytes by definition), empty towers before the one with the TCP floor, UDP floors before TCP, ports 1 / 65535."""
    n = rng.choice([1, 2, 7, 12, 40])
    towers = []
    tcp_at = rng.randrange(n) if rng.random() < 0.8 else None
    for i in range(n):
        k = rng.choice([0, 1, 7, 20, 120]) if i != tcp_at else rng.choice([0, 3, 30])
        floors = []
        for _ in range(k):
            f = gen_floor(rng, allow_tcp=False)
            if rng.random() < 0.15:
                f = (f[0] if f[0] not in (repm.PROTO_TCP,) else 0x7F, f[1], rng.randbytes(rng.choice([16, 255, 2000])))
            if rng.random() < 0.04 and not any(len(x[1]) + len(x[2]) > 30000 for x in floors):
                # one floor as large as its 16-bit byte counts (and a fragment) allow: sizes at and above 2^15
                big = rng.choice([32767, 32768, 32769, 40000])
                f = (0x7F, rng.randbytes(big) if rng.random() < 0.3 else b"\x01", rng.randbytes(big if len(f[1]) < 100 else 5))
                f = (0x7F, f[1] if len(f[1]) + len(f[2]) < 60000 else b"\x01", f[2])
            if rng.random() < 0.1:
                f = (0x08, b"", rng.randbytes(2))  # a UDP floor (known protocol id, no class of its own)
            floors.append(f)
        if i == tcp_at:
            floors.insert(rng.randrange(len(floors) + 1), repm.floor_tcp(rng.choice([1, 65535, rng.randrange(1, 65536)])))
            if rng.random() < 0.3:
                floors.append(repm.floor_tcp(rng.randrange(1, 65536)))  # a second TCP floor in the same tower: the first one counts
        towers.append(floors)
    return towers


def gen_towers(rng):
    if rng.random() < 0.12:
        t_ = gen_wide_towers(rng)
        if len(repm.enc_response(t_, 0)) < 60000:
            return t_
    n = rng.choice([0, 1, 1, 2, 3, 4, 6])
    tcp_mode = rng.choice(["first", "kth", "absent", "two", "std"])
    towers = []
    for i in range(n):
        if tcp_mode == "std":
            towers.append(repm.tcpip_tower(rrpc.ISD_KEY, rrpc.NDR, rng.randrange(1024, 65536), 0) + [gen_floor(rng, False) for _ in range(rng.randrange(0, 2))])
            continue
        floors = [gen_floor(rng, allow_tcp=False) for _ in range(rng.randrange(0, 6))]
        want_tcp = (tcp_mode == "first" and i == 0) or (tcp_mode == "kth" and i == n - 1) or tcp_mode == "two"
        if want_tcp:
            floors.insert(rng.randrange(len(floors) + 1), repm.floor_tcp(rng.randrange(1, 65536)))
            if tcp_mode == "two":
                floors.append(repm.floor_tcp(rng.randrange(1, 65536)))
        towers.append(floors)
    return towers


ALLOC_HINTS = ["len", "len", "len", 0, 1, "len-4", "len+100", 2**32 - 1]
_hint_counter = [0]


def serve_epm_reply(stub: bytes, chunker=None):
    """handler for the scripted endpoint-mapper connection.  alloc_hint is a hint ("0 = none", and servers are not held to
    it): it rotates through no hint, the exact size, sizes below and above."""
    state = {"n": 0}
    _hint_counter[0] += 1
    hint = ALLOC_HINTS[_hint_counter[0] % len(ALLOC_HINTS)]
    hint = {"len": len(stub), "len-4": max(0, len(stub) - 4), "len+100": len(stub) + 100}.get(hint, hint)

    def h(data):
        i = state["n"]
        state["n"] += 1
        if i == 0:
            return [rrpc.encode(dict(ptype=rrpc.BIND_ACK, flags=FL, call_id=tr.call_id_of(data), auth=None, max_xmit=5840, max_recv=5840, assoc=1, sec_addr="135", results=[(0, 0, rrpc.NDR64[0], 1)]))]
        h.last = True
        raw = rrpc.header(rrpc.RESPONSE, FL, 24 + len(stub), 0, tr.call_id_of(data)) + struct.pack("<IHBB", hint, 0, 0, 0) + stub
        return [raw]

    h.last = False
    return h


class Stop(BaseException):
    pass


def via_api(stub: bytes, api: str, loop, blob: bytes):
    """-> (outcome, second-connection port | None)"""
    import dpapi_ng

    second: t.List[int] = []

    def sync_factory(host, port):
        if port == 135 and not second and not getattr(sync_factory, "used", False):
            sync_factory.used = True
            return tr.FakeSocket(serve_epm_reply(stub))
        second.append(port)
        raise Stop()

    def async_factory(host, port):
        if port == 135 and not getattr(async_factory, "used", False):
            async_factory.used = True
            st = tr.FakeStream(serve_epm_reply(stub), eof_after_each_reply=True)
            return st.reader, st.writer
        second.append(port)
        raise Stop()

    kw = dict(server="dc.c18.test", username="u", password="p", auth_protocol="ntlm", cache=dpapi_ng.KeyCache())
    try:
        with tr.patched_connections(sync_factory, async_factory), tr.patched_spnego_client(lambda *a, **k: tr.ScriptedContext()):
            if api == "sync":
                dpapi_ng.ncrypt_unprotect_secret(blob, **kw)
            else:
                loop.run_until_complete(asyncio.wait_for(dpapi_ng.async_ncrypt_unprotect_secret(blob, **kw), 30))
        return "returned", None
    except Stop:
        return "connected", second[0]
    except mon.BudgetExceeded:
        raise
    except Exception as e:
        return f"error:{type(e).__name__}", None


def floors_of(tower) -> t.List[tuple]:
    return [(int(f.protocol), bytes(f.lhs), bytes(f.rhs)) for f in tower]


def make_blob(rng):
    rkid = uuid.UUID(int=rng.getrandbits(128))
    rk = online.root_key(rng, "SHA256", "ECDH_P256")
    return online.ref_blob(rng, rkid, rk, "S-1-5-18", (361, 1, 1), "nonce", b"c18")


def run_wellformed(spec, rec: Recorder):
    from dpapi_ng import _epm

    rng = common.rng_for(ID, spec)
    blob = make_blob(rng)
    loop = asyncio.new_event_loop()
    asyncio.set_event_loop(loop)
    try:
        for i in range(spec["n"]):
            towers = gen_towers(rng)
            status = rng.choice([0, 0, 0, 0x16C9A0D6, rng.randrange(1, 2**32)])
            n = len(towers)
            max_count = rng.choice([n, n, 4, n + rng.randrange(0, 5)])
            max_count = max(max_count, n)
            referents = [rng.choice([3 + k, rng.randrange(1, 2**64)]) for k in range(n)]
            eh = rng.choice([None, (rng.randrange(1, 2**32), uuid.UUID(int=rng.getrandbits(128)))])
            stub = repm.enc_response(towers, status, eh, max_count=max_count, referents=referents, num_towers=rng.choice([n, n, n, max_count]))
            for tw in towers:
                rec.seen("tower_len_mod8", len(repm.enc_tower(tw)) % 8)
            wit = {"towers": [[[p, l, r] for p, l, r in tw] for tw in towers], "status": status, "stub": stub}
            # direct decode
            try:
                dec = _epm.EptMapResult.unpack(stub)
                got = [floors_of(tw) for tw in dec.towers]
                rec.count("towers_compared")
                if got != [list(tw) for tw in towers] or dec.status != status:
                    rec.violation("tower-decode-mismatch", f"decoded towers/status differ from what was encoded ({len(got)} vs {n} towers, lengths {[len(repm.enc_tower(tw)) for tw in towers]})", wit)
            except Exception as e:
                rec.violation("tower-decode-exception", f"{type(e).__name__}: {e} (tower lengths {[len(repm.enc_tower(tw)) for tw in towers]})", wit)
            # through the public API
            api = "async" if i % 4 == 3 else "sync"
            outcome, port = via_api(stub, api, loop, blob)
            want_port = repm.first_tcp_port(towers)
            if status != 0:
                rec.count("status_errors_checked")
                if not outcome.startswith("error"):
                    rec.violation("status-ignored", f"{api}: ept_map status 0x{status:08x} but the client went on ({outcome}, port {port})", wit)
            elif want_port is None:
                rec.count("no_tcp_floor_checked")
                if not outcome.startswith("error"):
                    rec.violation("no-tcp-floor-accepted", f"{api}: no TCP floor in any tower but the client went on ({outcome}, port {port})", wit)
            else:
                rec.count("ports_compared")
                if outcome != "connected" or port != want_port:
                    rec.violation("wrong-port", f"{api}: client {outcome} port {port}, expected the first TCP floor's port {want_port}", wit)
            rec.case(stub, nontrivial=n != 1 or len(repm.enc_tower(towers[0])) != 75, sample={"towers": n, "status": status, "port": want_port, "stub": stub} if i == 0 else None)
    finally:
        loop.close()


def hostile_reply(rng, base: bytes) -> bytes:
    k = rng.randrange(8)
    if k == 0:
        cnt = rng.choice([2**16 - 1, 2**32 - 1, 2**40, 2**63, 2**64 - 1, 10**6])
        return b"\x00" * 20 + struct.pack("<IQQQ", 1, cnt, 0, cnt) + b"\x00" * 4  # the 52-byte reply
    if k == 1:
        cnt = rng.choice([2**16 - 1, 2**32 - 1, 2**40, 2**64 - 1, 5000])
        return b"\x00" * 20 + struct.pack("<IQQQ", cnt & 0xFFFFFFFF, cnt, 0, cnt) + rng.randbytes(rng.choice([8, 100, 4000, 60000]))
    if k == 2:
        return rng.randbytes(rng.choice([0, 3, 4, 47, 48, 52, 100, 5000, 65000]))
    if k == 3:
        return base[: rng.randrange(len(base) + 1)]
    if k == 4:
        b = bytearray(base)
        for _ in range(rng.randrange(1, 5)):
            b[rng.randrange(len(b))] ^= 1 << rng.randrange(8)
        return bytes(b)
    if k == 5:  # huge floor count / lengths inside one tower
        body = struct.pack("<H", rng.choice([65535, 1000])) + rng.choice([b"", b"\x00" * 5000, struct.pack("<HB", 65535, 7) * 100])
        tw = struct.pack("<QI", rng.choice([len(body), 2**63, 2**64 - 1]), rng.choice([len(body), 2**32 - 1])) + body
        return b"\x00" * 20 + struct.pack("<IQQQQ", 1, 1, 0, 1, 3) + tw + b"\x00" * 4
    if k == 6:  # many real towers (maximum that fits a fragment)
        tw = repm.tcpip_tower(rrpc.ISD_KEY, rrpc.NDR, 1, 0)
        n = rng.choice([5, 50, 50, 400, 700])
        return repm.enc_response([tw] * n, 0)
    b = bytearray(base)
    w = rng.choice([2, 4, 8])
    i = rng.randrange(0, max(1, len(b) - w))
    b[i : i + w] = (rng.choice([0xFFFF, 0xFFFFFFFF, 1 << 40, (1 << 64) - 1]) & ((1 << (8 * w)) - 1)).to_bytes(w, "little")
    return bytes(b)


def run_hostile(spec, rec: Recorder):
    from dpapi_ng import _epm

    rng = common.rng_for(ID, spec)
    blob = make_blob(rng)
    loop = asyncio.new_event_loop()
    asyncio.set_event_loop(loop)
    base = repm.enc_response([repm.tcpip_tower(rrpc.ISD_KEY, rrpc.NDR, 49668, 0)] * 3, 0, max_count=4)
    try:
        for i in range(spec["n"]):
            data = hostile_reply(rng, base)[:65000]
            budget = 3000 + 40 * len(data)
            wit = {"kind": "hostile", "data": data, "len": len(data)}
            track_mem = i % 20 == 0
            if track_mem:
                tracemalloc.start()
            outcome = "ok"
            try:
                with mon.STEPS.measure(budget):
                    _epm.EptMapResult.unpack(data)
            except mon.StepBudgetExceeded as e:
                rec.violation("eptmap-tower-count-unbounded", f"EptMapResult.unpack on {len(data)} bytes exceeded {budget} line events at {e}", wit)
                outcome = "budget"
            except MemoryError:
                rec.violation("eptmap-memory", f"MemoryError on {len(data)} bytes", wit)
            except Exception as e:
                outcome = type(e).__name__
            finally:
                if track_mem:
                    _, peak = tracemalloc.get_traced_memory()
                    tracemalloc.stop()
                    rec.count("memory_samples")
                    rec.range("tracemalloc_peak", peak)
                    if peak > (1 << 20) + 64 * len(data):
                        rec.violation("eptmap-memory", f"{peak} bytes allocated for a {len(data)}-byte reply", wit)
            rec.count("hostile_metered")
            rec.range("steps", mon.STEPS.n)
            rec.seen("hostile_outcomes", outcome)
            if i % 10 == 0:
                # the same reply through the public API path (EPM connection is unauthenticated)
                try:
                    with mon.STEPS.measure(20000 + 80 * len(data)):
                        via_api(data, "sync" if i % 20 else "async", loop, blob)
                    rec.count("hostile_via_api")
                except mon.StepBudgetExceeded as e:
                    rec.violation("eptmap-tower-count-unbounded", f"public API on a {len(data)}-byte ept_map reply exceeded its step budget at {e}", wit)
            rec.case(data, nontrivial=True, sample={"len": len(data), "outcome": outcome, "steps": mon.STEPS.n, "data": data} if i == 0 else None)
    finally:
        loop.close()


def run_scaling(spec, rec: Recorder):
    """Time and memory proportional to the reply size: the decoder and the public-API path on replies of the same shape
    at n and 4n elements (CPU thread time, minimum of repeats; a super-linear ratio must reproduce four times)."""
    import time

    from dpapi_ng import _epm

    rng = common.rng_for(ID, spec)
    blob = make_blob(rng)
    loop = asyncio.new_event_loop()
    asyncio.set_event_loop(loop)
    shapes = {
        "many-floors-in-one-tower": lambda n: repm.enc_response([[(0x7F, b"", b"")] * (3 * n) + [repm.floor_tcp(4711)]], 0),
        "many-small-towers": lambda n: repm.enc_response([[(0x7F, b"", b"x")]] * n + [[repm.floor_tcp(4711)]], 0),
        "big-floor-payloads": lambda n: repm.enc_response([[(0x7F, b"", bytes(10 * n))] * 4 + [repm.floor_tcp(4711)]], 0),
    }
    targets = {
        "EptMapResult.unpack": lambda d: _epm.EptMapResult.unpack(d),
        "public-api": lambda d: via_api(d, "sync", loop, blob),
    }
    # the decoder itself on inputs far larger than one 64 KiB fragment (the property speaks of "any reply"): per-element
    # copying of the remaining buffer is invisible at protocol sizes but quadratic here
    big_tower = [(0x7F, b"", b"")] * 13000
    for label, k_small, k_big in (("decoder-16x-vs-4x-65KB-towers", 4, 16),):
        small, big = repm.enc_response([big_tower] * k_small, 0), repm.enc_response([big_tower] * k_big, 0)
        def m_(data):
            best = None
            for _ in range(3):
                t0 = time.thread_time_ns()
                try:
                    _epm.EptMapResult.unpack(data)
                except Exception:
                    pass
                dt = time.thread_time_ns() - t0
                best = dt if best is None else min(best, dt)
            return best
        tries = []
        for _ in range(4):
            r_ = m_(big) / max(1, m_(small))
            tries.append(round(r_, 2))
            if r_ <= 2.2 * (len(big) / len(small)):
                break
        rec.range(f"cpu_ratio_x100[{label}]", int(100 * min(tries)))
        rec.count("scaling_probes")
        if len(tries) == 4 and min(tries) > 2.2 * (len(big) / len(small)):
            rec.violation("superlinear-work", f"EptMapResult.unpack: input grew {len(big) / len(small):.1f}x ({len(small)} -> {len(big)} bytes) but CPU time grew {tries}x in four independent measurements", {"kind": "scaling", "shape": label, "target": "EptMapResult.unpack"})
        rec.case(("scaling", label), nontrivial=True)
    try:
        for sname, build in shapes.items():
            small, big = build(350), build(1400)
            for tname, fn in targets.items():
                def measure(data):
                    best = None
                    for _ in range(spec["repeats"]):
                        t0 = time.thread_time_ns()
                        try:
                            fn(data)
                        except Exception:
                            pass
                        dt = time.thread_time_ns() - t0
                        best = dt if best is None else min(best, dt)
                    return best

                ratio_len = len(big) / len(small)
                tries = []
                for _ in range(4):
                    r_ = measure(big) / max(1, measure(small))
                    tries.append(round(r_, 2))
                    if r_ <= 2.2 * ratio_len:
                        break
                rec.range(f"cpu_ratio_x100[{tname}/{sname}]", int(100 * min(tries)))
                rec.count("scaling_probes")
                wit = {"kind": "scaling", "shape": sname, "target": tname}
                if len(tries) == 4 and min(tries) > 2.2 * ratio_len:
                    rec.violation("superlinear-work", f"{tname} on {sname}: reply grew {ratio_len:.1f}x but CPU time grew {tries}x in four independent measurements", wit)
                if tname == "public-api":
                    out, port = via_api(big, "sync", loop, blob)
                    if (out, port) != ("connected", 4711):
                        rec.violation("wrong-port", f"{sname}: client {out} port {port}, expected 4711", wit)
                rec.case(("scaling", sname, tname), nontrivial=True, sample={"shape": sname, "target": tname, "len_small": len(small), "len_big": len(big), "cpu_ratio": tries})
    finally:
        loop.close()


def run_shard(spec, rec: Recorder):
    if not common.calibrate(rec, "rpc", "epm", "cms"):
        return
    {"wellformed": run_wellformed, "hostile": run_hostile, "scaling": run_scaling}[spec["kind"]](spec, rec)


def replay(body, rec: Recorder):
    from dpapi_ng import _epm

    w = body["witness"]
    if w.get("kind") == "hostile" and "hex" in w.get("data", {}):
        data = bytes.fromhex(w["data"]["hex"])
        try:
            with mon.STEPS.measure(3000 + 40 * len(data)):
                _epm.EptMapResult.unpack(data)
        except mon.StepBudgetExceeded as e:
            rec.violation(body["mechanism"], f"exceeded budget at {e}", w)
        except Exception:
            pass
        rec.case(("replay", 1))
        return
    specs = {s["name"]: s for s in plan(body["tier"], body["seed"])}
    run_shard(dict(specs[body["shard"]], seed=body["seed"], tier=body["tier"]), rec)
    rec.violations[:] = [v for v in rec.violations if v["mechanism"] == body["mechanism"]][:3]
