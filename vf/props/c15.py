"""C15 - bind/auth handshake relays tokens faithfully and fails closed.

Monitor: the public API (sync and async) is driven with the endpoint-mapper connection answered
by the reference DC and the ISD connection answered by an enumerated *server script*; the
authentication provider is a ScriptedContext with an enumerated *provider script*.  The PDUs the
client wrote (decoded by ref.rpc) and the provider's call log (step inputs, completion state at
each step, IOV buffer types at wrap) are compared with a reference client state machine
(DESIGN.md appendix B.3) run over the same scripts.
"""
from __future__ import annotations

import asyncio
import itertools
import typing as t
import uuid

import spnego.iov

from vf.core.framework import Recorder
from vf.instruments import transport as tr
from vf.props import common, online
from vf.ref import rpc as rrpc
from vf.refdc import frontends as fe
from vf.refdc.core import DCConfig, DCCore

ID = "C15"
LEVEL = "fault_enumeration"
RULE = (
    "scripts = (provider script, server script, api): provider legs 1..4 with empty / non-empty final token; server replies per position from "
    "{bind_ack | alter_context_resp} x result vectors {AN, AR, RA, RR, A (fewer), AAA (more), none} x header-sign flag x token/no token, plus bind_nak, "
    "fault, response, EOF and the wrong ack type. The script tree is enumerated exhaustively to depth 3 (quick) / 5 (thorough), expanding only "
    "prefixes after which the reference machine continues. distinct = (provider, server script, api); non-trivial = at least two legs or a "
    "rejection / fault / wrong PDU / EOF in the script"
    " Also: rejection flavours (fault packet flags / statuses, bind_nak reasons); 5..40 legs; two or three connections alive at once whose servers advertise header signing differently."
)
ASSUMPTIONS = [
    "ScriptedContext stands in for the authentication provider; real NTLM and SPNEGO handshakes are run as the realistic members",
    "header signing is judged for scripts whose acks all agree and for scripts whose bind_ack lacks PFC_SUPPORT_HEADER_SIGN (then it must be off); 'bind_ack advertised it, a later ack did not' is executed but not judged",
    "acks with fewer results than offered contexts: outcome {error} or {treated as not accepted} both accepted; a Request on an unaccepted context never is",
]
BT = spnego.iov.BufferType
FL = rrpc.PFC_FIRST | rrpc.PFC_LAST
ACC, REJ, NEG = 0, 2, 3
RESULT_VECTORS = {
    "AN": [ACC, NEG],
    "AR": [ACC, REJ],
    "RA": [REJ, ACC],
    "RR": [REJ, REJ],
    "NA": [NEG, ACC],
    "NN": [NEG, NEG],
    "A": [ACC],
    "AAA": [ACC, ACC, ACC],
    "none": [],
}
PROVIDERS = [
    ((b"T1",), 1),
    ((b"T1", b"T2" * 40), 2),
    ((b"T1", b""), 2),
    ((b"T1" * 300, b"T2", b"T3"), 3),
    ((b"T1", b"T2", b""), 3),
    ((b"T1", b"T2", b"T3", b"T4"), 4),
    ((b"T1", b"T2", b"T3", b""), 4),
    ((b"A" * 5000, b"\x00"), 2),  # very large first token, 1-byte NUL second token
    ((b"\x00", b"B" * 256, b"\xff" * 255), 3),
    ((b"SAME", b"SAME", b"SAME"), 3),  # byte-identical tokens on consecutive legs are still tokens: each is sent, once
    ((b"T1", b"T1"), 2),
]


def plan(tier, seed):
    depth = 3 if tier == "quick" else 5
    specs = []
    for pi in range(len(PROVIDERS)):
        for api in ("sync", "async"):
            # quick/async: the deepest level is sampled with a rotating stride (every element still occurs under some prefix)
            specs.append({"name": f"tree-p{pi}-{api}", "kind": "tree", "provider": pi, "api": api, "depth": depth, "stride": (6 if api == "async" else 2) if tier == "quick" else (48 if api == "async" else 16)})
    specs.append({"name": "long", "kind": "long", "max_legs": 12 if tier == "quick" else 40})
    for api in ("sync", "async"):
        specs.append({"name": f"two-connections-{api}", "kind": "two_connections", "api": api, "n": 60 if tier == "quick" else 800})
    specs.append({"name": "real", "kind": "real", "n": 6 if tier == "quick" else 60})
    return specs


def finalize(agg, tier):
    r = []
    for c in ("scripts_executed", "transcripts_compared", "step_logs_compared", "requests_observed", "errors_surfaced", "real_handshakes"):
        if agg.counter(c) == 0:
            r.append(f"monitor never reached: {c}")
    return r


# --- server script elements -------------------------------------------------------
def ack_elem(kind: str, vec: str, sign: bool, token: bool):
    return ("ack", kind, vec, sign, token)


def alphabet(position: int) -> t.List[tuple]:
    right = "bind_ack" if position == 0 else "alter_context_resp"
    wrong = "alter_context_resp" if position == 0 else "bind_ack"
    out = []
    vecs = ["AN", "AR", "RA", "RR", "NA", "NN", "A", "AAA", "none"] if position == 0 else ["AN", "A", "RR", "none"]
    for vec in vecs:
        for sign in (True, False):
            for token in (True, False):
                out.append(ack_elem(right, vec, sign, token))
    if position > 0:
        # a bind_ack where an alter_context_resp is due is an unexpected PDU type.  (The converse - an
        # alter_context_resp answering the bind - has the same layout and is not judged: see DESIGN.md section 8.)
        out.append(ack_elem(wrong, "AN", True, True))
    # rejections in every flavour a server can send them: a fault with the "did not execute" / "maybe" / "pending cancel" packet
    # flags or another status, a bind_nak with another reason - all of them are rejections and must surface as errors
    out += [("bind_nak",), ("fault",), ("response",), ("eof",), ("fault", 0x20), ("fault", 0x40), ("fault", 0x10, 0x1C010003), ("fault", 0x20, 0x1C00001B), ("bind_nak", 0), ("bind_nak", 8)]
    return out


def encode_elem(elem: tuple, idx: int, call_id: int = 1) -> t.Optional[bytes]:
    if elem[0] == "ack":
        _, kind, vec, sign, token = elem
        results = []
        for r in RESULT_VECTORS[vec]:
            results.append((r, 0 if r != REJ else 2, rrpc.NDR64[0] if r == ACC else uuid.UUID(int=0), 1 if r == ACC else 0))
        auth = dict(type=10, level=6, pad=0, ctx=0, token=b"SRV%d" % idx) if token else None
        return rrpc.encode(
            dict(ptype=rrpc.BIND_ACK if kind == "bind_ack" else rrpc.ALTER_CONTEXT_RESP, flags=FL | (4 if sign else 0), call_id=call_id, auth=auth, max_xmit=5840, max_recv=5840, assoc=7, sec_addr="49668" if kind == "bind_ack" else "", results=results)
        )
    if elem[0] == "bind_nak":
        return rrpc.encode(dict(ptype=rrpc.BIND_NAK, flags=FL, call_id=call_id, auth=None, reason=elem[1] if len(elem) > 1 else 4, versions=[(5, 0)]))
    if elem[0] == "fault":
        return rrpc.encode(dict(ptype=rrpc.FAULT, flags=FL | (elem[1] if len(elem) > 1 else 0), call_id=call_id, auth=None, alloc_hint=0, ctx_id=0, cancel_count=0, fault_flags=0, status=elem[2] if len(elem) > 2 else 5, stub=b""))
    if elem[0] == "response":
        return rrpc.encode(dict(ptype=rrpc.RESPONSE, flags=FL, call_id=call_id, auth=None, alloc_hint=4, ctx_id=0, cancel_count=0, stub=b"\0\0\0\0"))
    return None  # eof


# --- reference client state machine (appendix B.3) --------------------------------------
def reference(provider: tuple, script: t.Sequence[tuple]) -> dict:
    tokens, complete_after = provider
    exp = dict(sent=[("bind", tokens[0])], step_inputs=[None], error=False, request=False, sign=None, consumed=0, judged_sign=True, malformed_results=False)
    if not script:
        exp["incomplete_script"] = True
        return exp
    r = script[0]
    exp["consumed"] = 1
    if r[0] != "ack" or r[1] != "bind_ack":
        exp["error"] = True
        return exp
    vec = RESULT_VECTORS[r[2]]
    if len(vec) != 2:
        exp["malformed_results"] = True
    sign_flags = [r[3]]
    accepted = [i for i, res in enumerate(vec[:2]) if res == ACC]
    tok = (b"SRV0" if r[4] else b"")
    steps = 1
    while steps < complete_after:
        exp["step_inputs"].append(tok)
        t_ = tokens[steps] if steps < len(tokens) else b""
        steps += 1
        if not t_:
            break
        exp["sent"].append(("alter_context", t_))
        if exp["consumed"] >= len(script):
            exp["incomplete_script"] = True
            return exp
        r = script[exp["consumed"]]
        exp["consumed"] += 1
        if r[0] != "ack" or r[1] != "alter_context_resp":
            exp["error"] = True
            return exp
        if len(RESULT_VECTORS[r[2]]) < len(accepted):
            exp["malformed_results"] = True
        sign_flags.append(r[3])
        tok = (b"SRV%d" % (exp["consumed"] - 1) if r[4] else b"")
    # consistent scripts are judged; so are scripts whose bind_ack (the server's answer to the client's
    # advertisement) lacks the flag: header signing was then not negotiated, whatever later acks say.
    # Only "bind_ack advertised it, a later ack did not" stays unjudged (the statement does not define it).
    exp["judged_sign"] = all(sign_flags) or not any(sign_flags) or not sign_flags[0]
    exp["sign"] = all(sign_flags)
    if 0 not in accepted:
        exp["error"] = True
        return exp
    exp["request"] = True
    exp["error"] = True  # the scripted server never answers the request: the API call ends with an error after sending it
    return exp


# --- execution ---------------------------------------------------------------------------
class Harness:
    def __init__(self):
        rkid = uuid.UUID(int=0xC15)
        import random

        rk = online.root_key(random.Random(15), "SHA256", "DH")
        self.cfg = DCConfig({rkid: rk}, rkid, security="scripted")
        self.core = DCCore(self.cfg)
        self.mem = fe.MemoryDC(self.core)
        self.blob = online.ref_blob(random.Random(16), rkid, rk, "S-1-5-21-1-2-3-1104", (361, 3, 4), "nonce", b"c15")
        self.loop = asyncio.new_event_loop()
        asyncio.set_event_loop(self.loop)

    def close(self):
        self.loop.close()

    def run(self, provider: tuple, script: t.Sequence[tuple], api: str):
        """-> (outcome, sent ISD PDUs (raw), ctx)"""
        import dpapi_ng

        ctx = tr.ScriptedContext(provider[0], provider[1], 16)
        state = {"n": 0}
        isd_sent: t.List[bytes] = []

        def isd_handler(data):
            isd_sent.append(data)
            i = state["n"]
            state["n"] += 1
            if i < len(script):
                raw = encode_elem(script[i], i, tr.call_id_of(data))
                isd_handler.last = raw is None or i == len(script) - 1
                return [raw] if raw else []
            isd_handler.last = True
            return []

        isd_handler.last = False
        streams = []

        def sync_factory(host, port):
            if port == 135:
                return self.mem.sync_factory(host, port)
            return tr.FakeSocket(isd_handler)

        def async_factory(host, port):
            if port == 135:
                return self.mem.async_factory(host, port)
            st = tr.FakeStream(isd_handler, eof_after_each_reply=True)
            streams.append(st)
            return st.reader, st.writer

        kw = dict(server="dc.verif.test", username="u", password="p", auth_protocol="ntlm")
        try:
            with tr.patched_connections(sync_factory, async_factory), tr.patched_spnego_client(lambda *a, **k: ctx):
                if api == "sync":
                    out = ("ok", dpapi_ng.ncrypt_unprotect_secret(self.blob, cache=dpapi_ng.KeyCache(), **kw))
                else:
                    out = ("ok", self.loop.run_until_complete(asyncio.wait_for(dpapi_ng.async_ncrypt_unprotect_secret(self.blob, cache=dpapi_ng.KeyCache(), **kw), 30)))
        except tr.ReadAfterEOF as e:
            out = ("spin", str(e))
        except asyncio.TimeoutError:
            out = ("timeout", "")
        except Exception as e:
            out = ("error", f"{type(e).__name__}: {e}")
        return out, isd_sent, ctx


def judge(rec: Recorder, provider_idx: int, script: t.Sequence[tuple], api: str, out, isd_sent: t.List[bytes], ctx: tr.ScriptedContext) -> dict:
    provider = PROVIDERS[provider_idx]
    exp = reference(provider, script)
    wit = {"provider": provider_idx, "provider_script": [[tk for tk in provider[0]], provider[1]], "script": [list(e) for e in script], "api": api}
    bad = lambda mech, msg: rec.violation(mech, f"{msg} [script {script}, provider {provider_idx}, {api}]", wit)  # noqa: E731
    rec.count("scripts_executed")
    if out[0] in ("spin", "timeout"):
        bad("handshake-no-termination", f"client did not terminate: {out}")
        return exp
    # decode what the client wrote on the ISD connection
    sent = []
    for raw in isd_sent:
        try:
            m = rrpc.decode(raw)
        except rrpc.RpcDecodeError as e:
            bad("undecodable-client-pdu", str(e))
            return exp
        sent.append(m)
    names = {rrpc.BIND: "bind", rrpc.ALTER_CONTEXT: "alter_context", rrpc.REQUEST: "request"}
    got_handshake = [(names.get(m["ptype"], m["ptype"]), m["auth"]["token"] if m["auth"] else None) for m in sent if m["ptype"] != rrpc.REQUEST]
    got_requests = [m for m in sent if m["ptype"] == rrpc.REQUEST]
    rec.count("transcripts_compared")
    if exp.get("incomplete_script"):
        return exp
    if exp["malformed_results"]:
        # only the fail-closed part is judged
        offered = next((m["contexts"] for m in sent if m["ptype"] == rrpc.BIND), [])
        vec = RESULT_VECTORS[script[0][2]]
        accepted_ids = [c[0] for i, c in enumerate(offered) if i < len(vec) and vec[i] == ACC]
        if got_requests and got_requests[0]["ctx_id"] not in accepted_ids:
            bad("request-on-unaccepted-context", f"Request sent on context {got_requests[0]['ctx_id']} although only {accepted_ids} were accepted")
        if out[0] == "ok":
            bad("error-swallowed", "API returned a value from a scripted conversation that never answers")
        return exp
    if got_handshake != exp["sent"]:
        mech = "token-relay"
        if len(got_handshake) > len(exp["sent"]):
            mech = "pdu-after-failure" if exp["error"] and not exp["request"] else "extra-handshake-leg"
        bad(mech, f"handshake PDUs (type, token) {[(n, (tk or b'')[:8]) for n, tk in got_handshake]} expected {[(n, tk[:8]) for n, tk in exp['sent']]}")
    step_inputs = [x or None for x in ctx.step_inputs()]  # None and b"" both mean "no token"
    exp["step_inputs"] = [x or None for x in exp["step_inputs"]]
    rec.count("step_logs_compared")
    if step_inputs != exp["step_inputs"]:
        bad("step-inputs", f"provider.step inputs {step_inputs} expected {exp['step_inputs']}")
    if any(e[2] for e in ctx.log if e[0] == "step"):
        bad("step-after-complete", "provider.step called although the context was already complete")
    if exp["request"]:
        rec.count("requests_observed")
        if len(got_requests) != 1:
            bad("request-missing", f"{len(got_requests)} Request PDUs, expected exactly one")
        else:
            rq = got_requests[0]
            # the context the Request names must be one the scripted ack accepted (whatever number the client gave it)
            offered = next((m["contexts"] for m in sent if m["ptype"] == rrpc.BIND), [])
            vec = RESULT_VECTORS[script[0][2]] if script and script[0][0] == "ack" else ()
            accepted_ids = [c[0] for i, c in enumerate(offered) if i < len(vec) and vec[i] == ACC]
            if rq["ctx_id"] not in accepted_ids or rq["opnum"] != 0:
                bad("request-context", f"Request on context {rq['ctx_id']} opnum {rq['opnum']} (accepted context ids {accepted_ids})")
            wraps = [e for e in ctx.log if e[0] == "wrap"]
            if len(wraps) != 1:
                bad("request-not-sealed", f"{len(wraps)} wrap calls")
            elif exp["judged_sign"]:
                types = [bt for bt, _ in wraps[0][1]]
                st = BT.sign_only if exp["sign"] else BT.data_readonly
                if types != [st, BT.data, st, BT.header]:
                    bad("header-sign-decision", f"IOV types {[x.name for x in types]} but server {'advertised' if exp['sign'] else 'did not advertise'} header signing in every ack")
    else:
        if got_requests:
            bad("request-on-unaccepted-context" if script and script[0][0] == "ack" and script[0][1] == "bind_ack" else "request-after-failure", f"Request PDU sent although the handshake must fail ({len(got_requests)})")
    if exp["error"]:
        rec.count("errors_surfaced")
        if out[0] == "ok":
            bad("error-swallowed", f"rejection / failure did not surface: API returned {str(out[1])[:60]}")
    return exp


def run_tree(spec, rec: Recorder):
    h = Harness()
    pi, api, depth = spec["provider"], spec["api"], spec["depth"]
    provider = PROVIDERS[pi]
    n = 0
    try:
        # breadth-first expansion of live prefixes
        frontier: t.List[t.Tuple[tuple, ...]] = [()]
        stride = spec.get("stride", 1)
        k = 0
        for d in range(depth):
            nxt = []
            for prefix in frontier:
                for elem in alphabet(len(prefix)):
                    k += 1
                    if d == depth - 1 and d >= (2 if depth <= 3 else 4) and stride > 1 and k % stride:
                        continue
                    script = prefix + (elem,)
                    exp = reference(provider, script)
                    if exp.get("incomplete_script"):
                        nxt.append(script)  # the client is expected to go on: extend further
                        continue
                    out, sent, ctx = h.run(provider, script, api)
                    judge(rec, pi, script, api, out, sent, ctx)
                    n += 1
                    nontrivial = len(provider[0]) >= 2 or any(e[0] != "ack" or e[2] != "AN" for e in script)
                    rec.case((pi, script, api), nontrivial=nontrivial)
                    rec.seen("script_lengths", len(script))
            frontier = nxt
            if not frontier:
                rec.mark_exhaustive(f"server script tree for provider {pi} ({api}) to depth {d + 1} (complete: no live prefix remains)")
                break
        else:
            rec.mark_exhaustive(f"server script tree for provider {pi} ({api}) to depth {depth}" + (f" (deepest level sampled 1/{stride})" if stride > 1 else ""), stride == 1)
            rec.count("live_prefixes_beyond_depth", len(frontier))
        rec.sample({"provider": {"tokens": [t_[:6] for t_ in provider[0]], "complete_after": provider[1]}, "api": api, "scripts": n, "example": [list(e) for e in script]})
    finally:
        h.close()


def run_long(spec, rec: Recorder):
    """Providers that need many legs (5..max): the happy path to the request plus one deviation at each position
    (no token, header-sign dropped, rejection, fault, EOF) - the tree enumeration stops at 4 legs."""
    h = Harness()
    n = 0
    try:
        for legs in range(5, spec["max_legs"] + 1):
            for final_empty in (False, True):
                tokens = tuple(b"L%d" % k for k in range(legs - 1)) + ((b"",) if final_empty else (b"L%d" % (legs - 1),))
                PROVIDERS.append((tokens, legs))
                pi = len(PROVIDERS) - 1
                need = legs - 1 if not final_empty else legs - 2  # number of alter_context replies consumed
                base = [ack_elem("bind_ack", "AN", True, True)] + [ack_elem("alter_context_resp", "AN", True, True) for _ in range(max(0, need))]
                variants = [tuple(base)]
                for pos in sorted({1, len(base) // 2, len(base) - 1} - {0}):
                    if pos < len(base):
                        for dev in (ack_elem("alter_context_resp", "AN", True, False), ack_elem("alter_context_resp", "AN", False, True), ("fault",), ("bind_nak",), ("eof",), ack_elem("bind_ack", "AN", True, True)):
                            variants.append(tuple(base[:pos]) + (dev,) + tuple(base[pos + 1 :]))
                for script in variants:
                    for api in ("sync", "async") if legs in (5, 8, 9, spec["max_legs"]) else ("sync",):
                        exp = reference(PROVIDERS[pi], script)
                        if exp.get("incomplete_script"):
                            continue
                        out, sent, ctx = h.run(PROVIDERS[pi], script, api)
                        judge(rec, pi, script, api, out, sent, ctx)
                        n += 1
                        rec.case((legs, final_empty, script, api), nontrivial=True)
                rec.seen("long_provider_legs", legs)
        rec.sample({"kind": "long providers", "legs": f"5..{spec['max_legs']}", "scripts": n})
    finally:
        h.close()


def run_real(spec, rec: Recorder):
    """Real NTLM (3 legs) and SPNEGO (empty final token) handshakes against the reference DC over TCP."""
    import dpapi_ng

    rng = common.rng_for(ID, spec)
    rkid = uuid.UUID(int=rng.getrandbits(128))
    rk = online.root_key(rng, "SHA512", "ECDH_P384")
    for sec in ("ntlm", "negotiate"):
        cfg = DCConfig({rkid: rk}, rkid, security=sec)
        core = DCCore(cfg)
        dc = fe.TcpDC(core)
        try:
            with dc.installed():
                for i in range(spec["n"]):
                    cfg.header_sign = bool(i % 2)
                    pt = rng.randbytes(9)
                    blob = online.ref_blob(rng, rkid, rk, "S-1-5-21-9-9-9-500", (361, 3, 4), "nonce", pt)
                    since = len(core.transcripts)
                    try:
                        out = dpapi_ng.ncrypt_unprotect_secret(blob, server="dc.verif.test", username=fe.NTLM_USER, password=fe.NTLM_PASS, auth_protocol=sec, cache=dpapi_ng.KeyCache())
                    except Exception as e:
                        out = f"{type(e).__name__}: {e}"
                    wit = {"security": sec, "i": i, "header_sign": cfg.header_sign}
                    rec.count("real_handshakes")
                    if out != pt:
                        rec.violation("real-handshake-failed", f"{sec}: {str(out)[:200]}", wit)
                    isd = core.transcripts[since + 1] if len(core.transcripts) > since + 1 else None
                    if isd is not None:
                        legs = [e for e in isd.events if e["event"] in ("bind", "alter_context")]
                        rec.seen(f"real_legs_{sec}", len(legs))
                        if any(e["token"] in (None, b"") for e in legs):
                            rec.violation("empty-token-sent", f"{sec}: a handshake PDU carried an empty token", wit)
                        rq = [e for e in isd.events if e["event"] == "request"]
                        if len(rq) != 1 or rq[0].get("unwrap_error"):
                            rec.violation("real-request", f"{sec}: requests {len(rq)} unwrap_error={rq[0].get('unwrap_error') if rq else None} (header signing {'on' if cfg.header_sign else 'off'})", wit)
                    rec.case((sec, i, cfg.header_sign))
            if dc.errors:
                rec.inconclusive_because(f"reference DC thread error: {dc.errors[0][-300:]}")
        finally:
            dc.close()


def run_two_connections(spec, rec: Recorder):
    """Header signing is a per-connection decision.  Two or three connections are alive at once, their servers advertise
    header signing differently (and differently between their own acks); binds, further legs and requests interleave.  For
    every request the buffer types handed to the security context are compared with what THAT connection negotiated: signing
    iff every ack of that connection carried the flag."""
    import struct

    from dpapi_ng import _client as cl
    from vf.props import c13

    rng = common.rng_for(ID, spec)
    api = spec["api"]
    BT = c13.BT
    loop = asyncio.new_event_loop()
    asyncio.set_event_loop(loop)

    def new_conn(flags: t.Tuple[bool, bool]):
        ctx = tr.ScriptedContext((b"C1", b"C2"), 2, 16)
        server = tr.ScriptedContext((), 0, 16)
        state = {"n": 0}
        sign = all(flags)

        def handler(data):
            i = state["n"]
            state["n"] += 1
            if i == 0:
                return [c13.ack(rrpc.BIND_ACK, flags[0], b"S1", tr.call_id_of(data))]
            if i == 1:
                return [c13.ack(rrpc.ALTER_CONTEXT_RESP, flags[1], b"", tr.call_id_of(data))]
            body = b"\x33" * 16
            header = rrpc.header(rrpc.RESPONSE, FL, 24 + len(body) + 8 + 16, 16, tr.call_id_of(data)) + struct.pack("<IHBB", len(body), 0, 0, 0)
            trailer = struct.pack("<BBBBI", 10, 6, 0, 0, 0)
            st = BT.sign_only if sign else BT.data_readonly
            res = server.wrap_iov([(st, header), body, (st, trailer), BT.header], encrypt=True, qop=None)
            return [header + res.buffers[1].data + trailer + res.buffers[3].data]

        transport = tr.FakeSocket(handler) if api == "sync" else tr.FakeStream(handler, eof_after_each_reply=False)
        return dict(ctx=ctx, sign=sign, flags=flags, client=c13.make_client(api, transport, ctx))

    def do(x):
        return loop.run_until_complete(asyncio.wait_for(x, 30)) if api == "async" else x

    try:
        for case in range(spec["n"]):
            k = rng.choice([2, 2, 3])
            conns = [new_conn((rng.random() < 0.6, rng.random() < 0.7)) for _ in range(k)]
            if case % 2 == 0:
                conns[0] = new_conn((True, True))
                conns[1] = new_conn((False, False) if case % 4 == 0 else (True, False))
            seq = [("bind", j) for j in range(k)] + [("req", j) for j in range(k) for _ in range(rng.randrange(1, 3))]
            rng.shuffle(seq)
            bound = set()
            wit = {"kind": "two-clients", "api": api, "flags": [list(c["flags"]) for c in conns], "sequence": [list(x) for x in seq], "case": case, "shard": spec["name"]}
            try:
                for op, j in seq:
                    c = conns[j]
                    if j not in bound:
                        do(c["client"].bind(cl._ISD_KEY_CONTEXTS))
                        bound.add(j)
                    if op == "bind":
                        continue
                    c["ctx"].log.clear()
                    do(c["client"].request(0, 0, rng.randbytes(rng.choice([0, 7, 16, 40])), verification_trailer=cl._VERIFICATION_TRAILER))
                    wraps = [e for e in c["ctx"].log if e[0] == "wrap"]
                    rec.count("per_connection_sign_decisions")
                    if len(wraps) != 1:
                        rec.violation("request-not-sealed", f"{len(wraps)} wrap calls for one request on connection {j}", wit)
                        continue
                    used = any(bt == BT.sign_only for bt, _ in wraps[0][1])
                    if used != c["sign"]:
                        rec.violation("header-sign-decision", f"connection {j} negotiated header signing {'on' if c['sign'] else 'off'} (its acks: {c['flags']}) but its request was {'signed' if used else 'not signed'} over header/trailer while other connections {[x['flags'] for x in conns]} were alive", dict(wit, connection=j))
            except Exception as e:
                rec.violation("two-connections-exception", f"{type(e).__name__}: {e}", wit)
            rec.case(("two-connections", api, case), nontrivial=True)
        rec.sample({"kind": "several live connections, different header-sign negotiations", "api": api, "cases": spec["n"], "last": wit})
    finally:
        loop.close()


def run_shard(spec, rec: Recorder):
    if not common.calibrate(rec, "rpc", "gkdi", "cms"):
        return
    {"tree": run_tree, "real": run_real, "long": run_long, "two_connections": run_two_connections}[spec["kind"]](spec, rec)


def replay(body, rec: Recorder):
    w = body["witness"]
    if "script" not in w:
        run_real({"name": "real", "seed": body["seed"], "n": 6}, rec)
        return
    h = Harness()
    try:
        script = tuple(tuple(e) for e in w["script"])
        pi = w["provider"]
        if pi >= len(PROVIDERS) and "provider_script" in w:
            toks = tuple(bytes.fromhex(x["hex"]) if isinstance(x, dict) else x for x in w["provider_script"][0])
            PROVIDERS.extend([PROVIDERS[0]] * (pi - len(PROVIDERS)) + [(toks, w["provider_script"][1])])
        out, sent, ctx = h.run(PROVIDERS[pi], script, w["api"])
        judge(rec, pi, script, w["api"], out, sent, ctx)
        rec.case(("replay", 1))
    finally:
        h.close()
