"""C14 - replies reassemble identically under any TCP segmentation; EOF is an error.

Monitor: the sync and async RPC clients are driven over scripted transports that deliver a
reply in chosen chunks and then EOF.  The decoded PDU (or raised error) is compared with the
one-piece delivery; reads issued after EOF are counted (more than 2, or no error, = violation).
"""
from __future__ import annotations

import asyncio
import itertools
import typing as t
import uuid

from vf.core.framework import Recorder
from vf.instruments import monitors as mon
from vf.instruments import transport as tr
from vf.props import common
from vf.ref import rpc as rrpc

ID = "C14"
LEVEL = "fault_enumeration"
RULE = (
    "replies: bind_ack (2 sizes), alter_context_resp, response (stub 0/1/100/5000), fault. partitions: all 1-, 2- and 3-chunk partitions at every "
    "byte offset for replies <= 200 bytes (exhaustive); for larger replies all 2-chunk partitions and 3-chunk partitions with one cut inside the "
    "first 24 bytes (quick: second cut every 41st offset); random finer partitions incl. 1-byte dribble; EOF after every prefix length 0..n-1; "
    "both clients. distinct = (reply, cuts, client); non-trivial = a cut inside the 16-byte header, or an EOF point"
    " Also: after an EOF error a further call on the same client must end (watchdog); 65000-byte replies, sealed and second replies, byte dribble."
)
ASSUMPTIONS = [
    "the scripted transport stands in for TCP: recv()/recv_into() return at most the rest of the current chunk, then 0 at EOF",
    "async chunks are fed to the StreamReader with one event-loop iteration between chunks",
    "'promptly' = at most 2 reads after EOF and within a step budget linear in the number of segments delivered (40000 + 200 per segment); any exception type counts as an error",
]

FL = rrpc.PFC_FIRST | rrpc.PFC_LAST
EPM_CTX = None


def plan(tier, seed):
    specs = []
    replies = ["bind_ack_small", "bind_ack_big", "alter_context_resp", "response_0", "response_1", "response_100", "fault", "sealed_response_40", "second_response_60"]
    for r in replies:
        for client in ("sync", "async"):
            specs.append({"name": f"{r}-{client}", "kind": "small", "reply": r, "client": client})
    for client in ("sync", "async"):
        specs.append({"name": f"response_5000-{client}", "kind": "large", "reply": "response_5000", "client": client, "step": 41 if tier == "quick" else 1})
        specs.append({"name": f"response_65000-{client}", "kind": "large", "reply": "response_65000", "client": client, "step": 4001 if tier == "quick" else 211})
        specs.append({"name": f"random-{client}", "kind": "random", "client": client, "n": 1500 if tier == "quick" else 40000})
    return specs


def finalize(agg, tier):
    r = []
    for c in ("deliveries_sync", "deliveries_async", "eof_points_sync", "eof_points_async", "header_split_deliveries"):
        if agg.counter(c) == 0:
            r.append(f"monitor never reached: {c}")
    return r


def build_reply(name: str, call_id: int = 1) -> bytes:
    ack_results2 = [(0, 0, rrpc.NDR64[0], 1), (3, 3, uuid.UUID(int=0), 0)]
    if name == "bind_ack_small":
        return rrpc.encode(dict(ptype=rrpc.BIND_ACK, flags=FL, call_id=call_id, auth=None, max_xmit=5840, max_recv=5840, assoc=0x1234, sec_addr="135", results=[(0, 0, rrpc.NDR64[0], 1)]))
    if name == "bind_ack_big":
        return rrpc.encode(dict(ptype=rrpc.BIND_ACK, flags=FL | 4, call_id=call_id, auth=dict(type=10, level=6, pad=0, ctx=0, token=b"S" * 40), max_xmit=5840, max_recv=5840, assoc=0x1234, sec_addr="49668", results=ack_results2))
    if name == "alter_context_resp":
        return rrpc.encode(dict(ptype=rrpc.ALTER_CONTEXT_RESP, flags=FL | 4, call_id=call_id, auth=dict(type=10, level=6, pad=0, ctx=0, token=b"T" * 9), max_xmit=5840, max_recv=5840, assoc=0x1234, sec_addr="", results=[(0, 0, rrpc.NDR64[0], 1)]))
    if name.startswith("second_response_"):
        n = int(name.rsplit("_", 1)[1])
        return rrpc.encode(dict(ptype=rrpc.RESPONSE, flags=FL, call_id=call_id, auth=None, alloc_hint=n, ctx_id=0, cancel_count=0, stub=bytes((i * 11 + 9) & 0xFF for i in range(n))))
    if name.startswith("response_"):
        n = int(name.split("_")[1])
        return rrpc.encode(dict(ptype=rrpc.RESPONSE, flags=FL, call_id=call_id, auth=None, alloc_hint=n, ctx_id=0, cancel_count=0, stub=bytes((i * 7 + 3) & 0xFF for i in range(n))))
    if name.startswith("sealed_response_"):
        # a PKT_PRIVACY response sealed by the peer of the ScriptedContext (sequence number 0), header signing on
        import struct

        import spnego.iov as iov

        n = int(name.rsplit("_", 1)[1])
        stub = bytes((i * 5 + 1) & 0xFF for i in range(n))
        padn = -len(stub) % 16
        body = stub + b"\xbb" * padn
        server = tr.ScriptedContext((), 0, 16)
        header = rrpc.header(rrpc.RESPONSE, FL, 24 + len(body) + 8 + 16, 16, call_id) + struct.pack("<IHBB", len(body), 0, 0, 0)
        trailer = struct.pack("<BBBBI", 10, 6, padn, 0, 0)
        res = server.wrap_iov([(iov.BufferType.sign_only, header), body, (iov.BufferType.sign_only, trailer), iov.BufferType.header], encrypt=True, qop=None)
        return header + res.buffers[1].data + trailer + res.buffers[3].data
    if name == "fault":
        return rrpc.encode(dict(ptype=rrpc.FAULT, flags=FL, call_id=call_id, auth=None, alloc_hint=0, ctx_id=0, cancel_count=0, fault_flags=0, status=0x1C010003, stub=b""))
    raise ValueError(name)


class Scenario:
    """How to drive the client so that `reply` is the PDU being received."""

    def __init__(self, reply_name: str):
        self.name = reply_name
        self.reply = build_reply(reply_name)
        self.auth = reply_name in ("bind_ack_big", "alter_context_resp") or reply_name.startswith("sealed_response")
        self.sealed = reply_name.startswith("sealed_response")
        self.second = reply_name.startswith("second_")
        self.phase = {"bind_ack_small": 0, "bind_ack_big": 0, "alter_context_resp": 1}.get(reply_name, 2 if (self.sealed or reply_name.startswith("second_")) else 1)
        self.plain_ack = build_reply("bind_ack_small")
        self.auth_ack = build_reply("bind_ack_big")

    def contexts(self):
        from dpapi_ng import _client as cl

        return cl._ISD_KEY_CONTEXTS if self.auth else cl._EPM_CONTEXTS

    def make_auth(self):
        if not self.auth:
            return None
        from dpapi_ng._rpc import _auth

        legs = (b"C1",) if self.name == "bind_ack_big" else (b"C1", b"C2")
        self.alter_resp = build_reply("alter_context_resp")
        with tr.patched_spnego_client(lambda *a, **k: tr.ScriptedContext(legs, len(legs))):
            return _auth.AuthenticationProvider("u", "p", "h", "ntlm")

    def handler(self, chunks: t.Optional[t.Sequence[bytes]]):
        """chunks=None -> one piece."""
        state = {"n": 0}
        target = list(chunks) if chunks is not None else [self.reply]

        def h(data: bytes):
            i = state["n"]
            state["n"] += 1
            h.last = i == self.phase
            cid = tr.call_id_of(data)  # a conforming server echoes the call id of the PDU it answers
            if i == self.phase:
                if cid == 1:
                    return target
                # same reply, same cut points, the client's call id (lengths do not depend on it)
                fresh, out, off = build_reply(self.name, cid), [], 0
                for c in target:
                    out.append(fresh[off : off + len(c)])
                    off += len(c)
                return out
            if i == 0:
                return [build_reply("bind_ack_big" if self.auth else "bind_ack_small", cid)]
            if i == 1 and self.sealed:
                return [build_reply("alter_context_resp", cid)]
            if i == 1 and self.second:
                return [build_reply("response_100", cid)]  # the first request's reply, in one piece
            return []

        h.last = False
        return h

    def drive_sync(self, chunks):
        from dpapi_ng._rpc import _client as rc

        sock = tr.FakeSocket(self.handler(chunks))
        client = rc.SyncRpcClient(sock, self.make_auth())
        self.last_client = client
        try:
            if self.sealed:
                client.bind(self.contexts())
                res = client.request(0, 0, b"REQ-SEALED")
            elif self.second:
                client.bind(self.contexts())
                first = client.request(0, 3, b"REQ-1")
                res = (first, client.request(0, 3, b"REQ-2"))
            elif self.phase == 0 or self.auth:
                res = client.bind(self.contexts())
                if self.name == "alter_context_resp":
                    res = ("bound", client._sign_header if hasattr(client, "_sign_header") else None)
            else:
                client.bind(self.contexts())
                res = client.request(0, 3, b"REQ")
            return ("ok", res), sock
        except tr.ReadAfterEOF as e:
            return ("spin", str(e)), sock
        except Exception as e:
            return ("error", f"{type(e).__name__}: {e}"), sock

    async def drive_async(self, chunks):
        from dpapi_ng._rpc import _client as rc

        stream = tr.FakeStream(self.handler(chunks), eof_after_each_reply=True)
        reader = CountingReader(stream)
        client = rc.AsyncRpcClient(reader, stream.writer, self.make_auth())
        self.last_client = client
        self.last_stream = stream
        try:
            if self.sealed:
                await client.bind(self.contexts())
                res = await client.request(0, 0, b"REQ-SEALED")
            elif self.second:
                await client.bind(self.contexts())
                first = await client.request(0, 3, b"REQ-1")
                res = (first, await client.request(0, 3, b"REQ-2"))
            elif self.phase == 0 or self.auth:
                res = await client.bind(self.contexts())
                if self.name == "alter_context_resp":
                    res = ("bound", getattr(client, "_sign_header", None))
            else:
                await client.bind(self.contexts())
                res = await client.request(0, 3, b"REQ")
            return ("ok", res), reader
        except tr.ReadAfterEOF as e:
            return ("spin", str(e)), reader
        except Exception as e:
            return ("error", f"{type(e).__name__}: {e}"), reader


class CountingReader:
    """Wraps the StreamReader: counts read calls issued once EOF has been fed and the buffer is empty."""

    def __init__(self, stream: tr.FakeStream):
        self._r = stream.reader
        self.reads_after_eof = 0
        self.reads = 0

    def _count(self):
        self.reads += 1
        if self._r.at_eof():
            self.reads_after_eof += 1
            if self.reads_after_eof > 50:
                raise tr.ReadAfterEOF(f"{self.reads_after_eof} reads after EOF")

    async def read(self, n=-1):
        self._count()
        return await self._r.read(n)

    async def readexactly(self, n):
        self._count()
        return await self._r.readexactly(n)

    async def readline(self):
        self._count()
        return await self._r.readline()

    async def readuntil(self, sep=b"\n"):
        self._count()
        return await self._r.readuntil(sep)

    def at_eof(self):
        return self._r.at_eof()

    def __getattr__(self, name):
        return getattr(self._r, name)


def cut(reply: bytes, cuts: t.Sequence[int]) -> t.List[bytes]:
    pts = [0] + list(cuts) + [len(reply)]
    return [reply[pts[i] : pts[i + 1]] for i in range(len(pts) - 1)]


class Driver:
    def __init__(self, rec: Recorder, sc: Scenario, client: str):
        self.rec, self.sc, self.client = rec, sc, client
        self.loop = asyncio.new_event_loop() if client == "async" else None
        if self.loop:
            asyncio.set_event_loop(self.loop)
        self.baseline = self.run(None)[0]
        # the one-piece delivery is the yardstick for every split: it must itself decode to what was sent
        try:
            ref = rrpc.decode(sc.reply) if not sc.sealed else None
            got = self.baseline[1] if self.baseline[0] == "ok" else None
            got = got[1] if isinstance(got, tuple) and len(got) == 2 and hasattr(got[1], "stub_data") else got
            if ref is not None and ref.get("stub") is not None and hasattr(got, "stub_data"):
                rec.count("baseline_checked_against_reference")
                if bytes(got.stub_data) != ref["stub"]:
                    rec.violation(f"{client}-one-piece-wrong", f"{sc.name} delivered in one piece: the decoded stub ({len(got.stub_data)} bytes) is not the stub that was sent ({len(ref['stub'])} bytes)", {"reply": sc.name, "client": client, "cuts": [], "reply_len": len(sc.reply)})
        except rrpc.RpcDecodeError:
            pass
        if self.baseline[0] == "spin":
            rec.inconclusive_because(f"baseline delivery of {sc.name} did not complete: {self.baseline}")

    def close(self):
        if self.loop:
            self.loop.close()

    def run(self, chunks):
        if self.client == "sync":
            return self.sc.drive_sync(chunks)
        return self.loop.run_until_complete(asyncio.wait_for(self.sc.drive_async(chunks), 20))

    def check_partition(self, cuts: t.Sequence[int]) -> None:
        rec = self.rec
        chunks = cut(self.sc.reply, cuts)
        wit = {"reply": self.sc.name, "client": self.client, "cuts": list(cuts), "reply_len": len(self.sc.reply)}
        try:
            out, io = self.run(chunks)
        except asyncio.TimeoutError:
            rec.inconclusive_because(f"watchdog: async delivery {wit} did not finish in 20s")
            return
        rec.count(f"deliveries_{self.client}")
        if any(c < 16 for c in cuts):
            rec.count("header_split_deliveries")
        if out != self.baseline:
            if out[0] == "spin":
                mech = "sync-eof-spin" if self.client == "sync" else "async-eof-spin"
            elif self.client == "sync" and any(c < 16 for c in cuts):
                mech = "sync-recv-short-header"
            else:
                mech = f"{self.client}-segmentation"
            rec.violation(mech, f"{self.sc.name} cut at {list(cuts)}: got {str(out)[:200]} but one-piece delivery gives {str(self.baseline)[:120]}", wit)
        rec.case((self.sc.name, tuple(cuts), self.client), nontrivial=any(c < 16 for c in cuts))

    def check_eof(self, k: int, pre_cuts: t.Sequence[int] = ()) -> None:
        rec = self.rec
        chunks = [c for c in cut(self.sc.reply[:k], [c for c in pre_cuts if c < k])] if k else []
        wit = {"reply": self.sc.name, "client": self.client, "eof_at": k, "cuts": list(pre_cuts), "reply_len": len(self.sc.reply)}
        try:
            with mon.STEPS.measure(40000 + 200 * len(chunks)):  # linear in the number of deliveries: a client may do its own work per read
                out, io = self.run(chunks)
        except mon.StepBudgetExceeded as e:
            rec.violation(f"{self.client}-eof-spin", f"{self.sc.name} EOF after {k} bytes: step budget exceeded at {e}", wit)
            return
        except asyncio.TimeoutError:
            rec.inconclusive_because(f"watchdog: {wit}")
            return
        rec.count(f"eof_points_{self.client}")
        rec.range("reads_after_eof", io.reads_after_eof)
        if out[0] == "ok":
            rec.violation(f"{self.client}-eof-no-error", f"{self.sc.name} EOF after {k}/{len(self.sc.reply)} bytes: client returned {str(out[1])[:120]}", wit)
        elif out[0] == "spin" or io.reads_after_eof > 2:
            rec.violation(f"{self.client}-eof-spin", f"{self.sc.name} EOF after {k} bytes: {io.reads_after_eof} reads after EOF ({out[0]})", wit)
        rec.case((self.sc.name, "eof", k, tuple(pre_cuts), self.client), nontrivial=True)
        self._n_eof = getattr(self, "_n_eof", 0) + 1
        if out[0] == "error" and self._n_eof % 8 == 1:
            # the connection has ended: a further call on the same client must end promptly too (with an error), not hang
            # on something the failed call left behind (a lock it still holds, a future nobody will complete)
            cl_ = self.sc.last_client
            rec.count("calls_after_eof")
            if self.client == "sync":
                import threading

                res: t.List[str] = []

                def again():
                    try:
                        cl_.request(0, 3, b"AFTER-EOF")
                        res.append("returned")
                    except BaseException as e:  # noqa: BLE001
                        res.append(type(e).__name__)

                th = threading.Thread(target=again, daemon=True)
                th.start()
                th.join(30)
                if th.is_alive():
                    rec.violation("sync-blocked-after-eof", f"{self.sc.name}: after the EOF error at byte {k}, another request() on the same client had not returned after 30 s", wit)
            else:

                async def again_async():
                    try:
                        await cl_.request(0, 3, b"AFTER-EOF")
                        return "returned"
                    except Exception as e:  # noqa: BLE001
                        return type(e).__name__

                try:
                    self.sc.last_stream.feed_eof_when_idle()
                    self.loop.run_until_complete(asyncio.wait_for(again_async(), 30))
                except asyncio.TimeoutError:
                    rec.violation("async-blocked-after-eof", f"{self.sc.name}: after the EOF error at byte {k}, another request() on the same client had not finished after 30 s", wit)


def run_small(spec, rec: Recorder):
    sc = Scenario(spec["reply"])
    d = Driver(rec, sc, spec["client"])
    n = len(sc.reply)
    try:
        d.check_partition(())
        for a in range(1, n):
            d.check_partition((a,))
        if n <= 200:
            for a, b in itertools.combinations(range(1, n), 2):
                d.check_partition((a, b))
            rec.mark_exhaustive(f"all 1/2/3-chunk partitions of {sc.name} ({n} bytes), client {spec['client']}")
        for k in range(0, n):
            d.check_eof(k)
            if k > 3 and k % 3 == 0:
                d.check_eof(k, (1, k // 2))
        rec.sample({"reply": sc.name, "len": n, "client": spec["client"], "partitions": "all cuts (a), (a,b)", "eof_points": f"0..{n-1}", "baseline": str(d.baseline)[:200]})
    finally:
        d.close()


def run_large(spec, rec: Recorder):
    sc = Scenario(spec["reply"])
    d = Driver(rec, sc, spec["client"])
    n = len(sc.reply)
    try:
        for a in range(1, n, 1 if spec["step"] == 1 else (7 if n < 10000 else 53)):
            d.check_partition((a,))
        for a in range(1, 24):
            for b in range(a + 1, n, spec["step"]):
                d.check_partition((a, b))
        for k in list(range(0, 40)) + list(range(40, n, (97 if n < 10000 else 997) if spec["step"] > 1 else (5 if n < 10000 else 101))):
            d.check_eof(k)
        rec.sample({"reply": sc.name, "len": n, "client": spec["client"], "partitions": f"(a) step, (a<24,b step {spec['step']})"})
    finally:
        d.close()


def run_random(spec, rec: Recorder):
    rng = common.rng_for(ID, spec)
    names = ["bind_ack_small", "bind_ack_big", "alter_context_resp", "response_0", "response_1", "response_100", "response_5000", "fault", "sealed_response_40", "second_response_60", "response_33000"]
    drivers = {}
    try:
        for i in range(spec["n"]):
            name = rng.choice(names)
            if name not in drivers:
                drivers[name] = Driver(rec, Scenario(name), spec["client"])
            d = drivers[name]
            n = len(d.sc.reply)
            mode = rng.randrange(4)
            if mode == 0:
                cuts = list(range(1, min(n, 300)))  # 1-byte dribble (first 300 bytes)
                if n > 300 and rng.random() < 0.5:  # plus small chunks over the whole rest of the body
                    step = rng.choice([1, 2, 3, 7, 64])
                    cuts += list(range(300, n, step))[:6000]
            elif mode == 1:
                cuts = sorted(rng.sample(range(1, n), min(n - 1, rng.randrange(3, 12))))
            elif mode == 2:
                cuts = sorted(set(rng.randrange(1, min(n, 24)) for _ in range(rng.randrange(1, 6))))
            else:
                cuts = sorted(rng.sample(range(1, n), min(n - 1, 3)))
            if rng.random() < 0.2:
                d.check_eof(rng.randrange(0, n), cuts)
            else:
                d.check_partition(cuts)
        rec.sample({"kind": "random partitions", "client": spec["client"], "last_cuts": cuts[:12]})
    finally:
        for d in drivers.values():
            d.close()


def run_shard(spec, rec: Recorder):
    if not common.calibrate(rec, "rpc"):
        return
    {"small": run_small, "large": run_large, "random": run_random}[spec["kind"]](spec, rec)


def replay(body, rec: Recorder):
    w = body["witness"]
    d = Driver(rec, Scenario(w["reply"]), w["client"])
    try:
        if "eof_at" in w:
            d.check_eof(w["eof_at"], w.get("cuts", ()))
        else:
            d.check_partition(w["cuts"])
    finally:
        d.close()
