"""C01 - protect then unprotect returns the plaintext for every input, config and time.

Monitor: protect (sync/async; offline root key, or through the reference DC as an authorised caller
(seed keys) or an unauthorised one (group public key: DH / ECDH_P256 / ECDH_P384)) runs under a
scripted clock; the blob, and its LAPS re-layout (ciphertext trailing the envelope), are
decrypted by unprotect (sync/async; offline cache and via the DC) and, as a second opinion, by the
independent reference implementation from the root key alone.  KDF and step budgets bound each call.
"""
from __future__ import annotations

import asyncio
import typing as t
import uuid

from vf.core.framework import Recorder
from vf.instruments import monitors as mon
from vf.props import common, online
from vf.ref import cms, gkdi as rg
from vf.refdc import frontends as fe
from vf.refdc.core import DCConfig, DCCore

ID = "C01"
LEVEL = "exploration"
RULE = (
    "cases = (plaintext length class {0,1,15,16,17,31,32,33,127,128,255,256,4095..4097,65535..65537 (+1 MiB thorough)}, SID shape (1..15 sub-authorities, "
    "values 0 / 2^32-1 / random, authority 0 / 5 / 2^48-1), hash in 4, mode in {nonce via offline root key, nonce via DC (authorised), public key via DC "
    "with DH / ECDH_P256 / ECDH_P384}, clock class {real, +-2 ticks of an L2/L1/L0 boundary, random 1970..2200}, layout {in-envelope, trailing}, "
    "API {sync, async}); every one of the 16 configurations x both layouts x both APIs at least once per shard. distinct = digest of the case tuple; "
    "non-trivial = plaintext length != 10 or SID not the suite's or clock not real-now"
    " Also: sessions on ONE cache (offline root keys, several SIDs and root keys; and a cache fed only by a DC, sync/async alternating, small and large L1/L2 indices), forced leading-zero DH secrets."
)
ASSUMPTIONS = [
    "the reference DC (in-memory front end, scripted security context) stands in for a domain controller; real NTLM members are run in C17",
    "second opinion: ref.cms.reference_unprotect (calibrated on the 16 Windows blobs)",
    "budgets: <= 200 KDF invocations per call, <= 50x the calibrated line-event cost (sampled)",
]
B = 360000000000
MODES = ["offline", "dc-seed", "dc-public"]


def plan(tier, seed):
    q = tier == "quick"
    specs = [{"name": f"rt-{i}", "kind": "roundtrip", "n": 40 if q else 1300, "big": (not q) and i < 3} for i in range(16)]
    specs += [{"name": f"session-{i}", "kind": "session", "n": 150 if q else 4000} for i in range(4 if q else 16)]
    specs += [{"name": f"dcsession-{i}", "kind": "dcsession", "n": 120 if q else 3000} for i in range(2 if q else 8)]
    return specs


def finalize(agg, tier):
    r = []
    for c in ("roundtrips_checked", "reference_decrypts", "relayout_checked", "kdf_calls_metered", "stepmeter_samples", "session_protects", "session_unprotects"):
        if agg.counter(c) == 0:
            r.append(f"monitor never reached: {c}")
    for m in MODES:
        if agg.counter(f"mode_{m}") == 0:
            r.append(f"mode {m} never exercised")
    if len(agg.sets.get("configurations", ())) < 16:
        r.append(f"only {len(agg.sets.get('configurations', ()))} of 16 configurations seen")
    return r


def clock_instant(rng, cls: str) -> t.Optional[int]:
    if cls == "real":
        return None
    l0 = rng.randrange(340, 700)
    l1, l2 = rng.randrange(32), rng.randrange(32)
    off = rng.randrange(-2, 3)
    if cls == "l2":
        return (l0 * 1024 + l1 * 32 + l2) * B + off
    if cls == "l1":
        return (l0 * 1024 + l1 * 32) * B + off
    if cls == "l0":
        return l0 * 1024 * B + off
    return rng.randrange(mon.EPOCH_FILETIME, mon.EPOCH_FILETIME + 230 * 365 * 864000000000)


def position_of(ft: int) -> t.Tuple[int, int, int]:
    return (ft // (1024 * B), (ft // (32 * B)) % 32, (ft // B) % 32)


def run_roundtrip(spec, rec: Recorder):
    import time

    import dpapi_ng
    from dpapi_ng import _blob

    mon.KDFS.install()
    rng = common.rng_for(ID, spec)
    loop = asyncio.new_event_loop()
    asyncio.set_event_loop(loop)
    combos = [(h, a, m) for h in common.HASHES for a in online.ALGS for m in MODES]
    rng.shuffle(combos)
    try:
        for i in range(spec["n"]):
            h, alg, mode = combos[i % len(combos)]
            rkid = uuid.UUID(int=rng.getrandbits(128))
            rk = online.root_key(rng, h, alg)
            sid = online.gen_sid(rng, n=1 + (i % 15))
            ptlen = rng.choice(online.PLAINTEXT_CLASSES + ([1 << 20] if spec.get("big") and i % 40 == 0 else []) + [rng.randrange(5000)])
            pt = rng.randbytes(ptlen)
            ccls = ["real", "l2", "l1", "l0", "random"][i % 5]
            ft = clock_instant(rng, ccls)
            api = "async" if (i // 5) % 2 else "sync"
            config = f"{h}/{'nonce' if mode != 'dc-public' else alg}"
            case = dict(i=i, hash=h, alg=alg, mode=mode, sid=sid, ptlen=ptlen, clock=ccls, filetime=str(ft), api=api)
            wit = dict(case, root_key=rk.key, root_key_id=str(rkid))
            rec.count(f"mode_{mode}")
            rec.seen("configurations", config)
            rec.seen("plaintext_lengths", ptlen if ptlen in online.PLAINTEXT_CLASSES else "other")

            def call(fn_sync, fn_async, *a, **k):
                mon.KDFS.n, mon.KDFS.limit = 0, 200
                try:
                    if api == "sync":
                        return fn_sync(*a, **k)
                    return loop.run_until_complete(asyncio.wait_for(fn_async(*a, **k), 60))
                finally:
                    mon.KDFS.limit = 1 << 62
                    rec.count("kdf_calls_metered", mon.KDFS.n)

            now_ft = ft if ft is not None else time.time_ns() // 100 + mon.EPOCH_FILETIME
            cfg = DCConfig({rkid: rk}, rkid, now=position_of(now_ft), policy="public" if mode == "dc-public" else "seed", security="scripted", domain="c01.test", forest="c01.test")
            cfg.l2_key_absent_at_31 = rng.random() < 0.3
            core = DCCore(cfg)
            mem = fe.MemoryDC(core)
            offline = dpapi_ng.KeyCache()
            online.load_into_cache(offline, rkid, rk)
            kw = dict(server="dc.c01.test", username="u", password="p", auth_protocol="ntlm")
            reads0 = mon.CLOCK.reads
            forced = None
            nbytes = -(-rk.private_key_length // 8)
            if mode == "dc-public" and alg == "DH" and nbytes > 32 and i % 2 == 0:
                # steer the ephemeral DH key (if the library draws it from os.urandom) so that the shared secret starts with a
                # zero byte: the 1-in-256 class in which a padding mistake shows; both sides of the library agree on it, the
                # independent decryptor below does not
                forced = {nbytes: [online.dh_ephemeral_for_leading_zero_secret(rng, online.server_private(rk, rkid, sid, position_of(now_ft))).to_bytes(nbytes, "big") for _ in range(2)]}
                rec.count("leading_zero_dh_secret_protects")
            try:
                with mem.installed(), (mon.CLOCK.at_ns(mon.filetime_to_ns(ft, rng.randrange(100))) if ft is not None else _null()), (mon.ENTROPY.record(forced) if forced else _null()):
                    if mode == "offline":
                        if i % 7 == 3:
                            with mon.STEPS.measure(50 * (4000 + 60 * ptlen)):
                                blob = call(dpapi_ng.ncrypt_protect_secret, dpapi_ng.async_ncrypt_protect_secret, pt, sid, root_key_identifier=rkid, cache=offline)
                            rec.count("stepmeter_samples")
                            rec.range("steps_protect", mon.STEPS.n)
                        else:
                            blob = call(dpapi_ng.ncrypt_protect_secret, dpapi_ng.async_ncrypt_protect_secret, pt, sid, root_key_identifier=rkid, cache=offline)
                    else:
                        blob = call(dpapi_ng.ncrypt_protect_secret, dpapi_ng.async_ncrypt_protect_secret, pt, sid, root_key_identifier=rkid if i % 2 else None, cache=dpapi_ng.KeyCache(), **kw)
            except mon.BudgetExceeded as e:
                rec.violation("protect-budget", f"protect exceeded its budget: {e}", wit)
                continue
            except Exception as e:
                rec.violation("protect-raised", f"{config} {mode}: {type(e).__name__}: {e}", wit)
                continue
            if ft is not None:
                rec.count("clock_reads", mon.CLOCK.reads - reads0)
            wit["blob"] = blob
            # second opinion
            try:
                ref_pt = cms.reference_unprotect(blob, {rkid: rk})
                rec.count("reference_decrypts")
                if ref_pt != pt:
                    rec.violation("reference-cannot-decrypt", f"{config} {mode}: the independent implementation does not recover the plaintext from the emitted blob", wit)
            except Exception as e:
                rec.violation("emitted-blob-not-template", f"{config} {mode}: {type(e).__name__}: {e}", wit)
            # re-layout
            try:
                laps = _blob.DPAPINGBlob.unpack(blob).pack(blob_in_envelope=False)
            except Exception as e:
                rec.violation("relayout-raised", f"{type(e).__name__}: {e}", wit)
                laps = None
            layouts = [("in-envelope", blob)] + ([("trailing", laps)] if laps is not None else [])
            for lname, b in layouts:
                routes = [("offline-same" if mode == "offline" else "offline", offline)]
                if i % 3 == 0:
                    fresh = dpapi_ng.KeyCache()
                    online.load_into_cache(fresh, rkid, rk)
                    routes.append(("offline-fresh", fresh))
                for rname, cache in routes:
                    try:
                        if i % 7 == 3 and lname == "in-envelope":
                            with mon.STEPS.measure(50 * (4000 + 60 * len(b))):
                                got = call(dpapi_ng.ncrypt_unprotect_secret, dpapi_ng.async_ncrypt_unprotect_secret, b, cache=cache)
                            rec.count("stepmeter_samples")
                            rec.range("steps_unprotect", mon.STEPS.n)
                        else:
                            with mon.NET.guard():
                                got = call(dpapi_ng.ncrypt_unprotect_secret, dpapi_ng.async_ncrypt_unprotect_secret, b, cache=cache)
                    except BaseException as e:
                        rec.violation("unprotect-raised", f"{config} {mode} {lname} via {rname}: {type(e).__name__}: {e}", dict(wit, layout=lname, route=rname))
                        continue
                    rec.count("roundtrips_checked")
                    if lname == "trailing":
                        rec.count("relayout_checked")
                    if got != pt:
                        rec.violation("roundtrip-mismatch", f"{config} {mode} {lname} via {rname}: unprotect returned {len(got)} bytes != plaintext ({ptlen})", dict(wit, layout=lname, route=rname))
                if mode != "offline" and i % 2 == 0:
                    # unprotect through the DC as an authorised caller
                    cfg.policy = "seed"
                    try:
                        with mem.installed():
                            got = call(dpapi_ng.ncrypt_unprotect_secret, dpapi_ng.async_ncrypt_unprotect_secret, b, cache=dpapi_ng.KeyCache(), **kw)
                        rec.count("roundtrips_checked")
                        if got != pt:
                            rec.violation("roundtrip-mismatch", f"{config} {mode} {lname} via DC: wrong plaintext", dict(wit, layout=lname, route="dc"))
                    except Exception as e:
                        rec.violation("unprotect-raised", f"{config} {mode} {lname} via DC: {type(e).__name__}: {e}", dict(wit, layout=lname, route="dc"))
                    cfg.policy = "public" if mode == "dc-public" else "seed"
            nontrivial = ptlen != 10 or ccls != "real"
            rec.case(tuple(sorted((k, str(v)) for k, v in case.items())), nontrivial=nontrivial, sample=case if i < 2 else None)
    finally:
        loop.close()


class _null:
    def __enter__(self):
        return self

    def __exit__(self, *a):
        return False


def run_session(spec, rec: Recorder):
    """Stateful use: ONE KeyCache (offline root key) serves a long interleaving of protect calls at many clock values
    (same L1/L2 slot in different L0 epochs, interval boundaries, time going backwards), several SIDs and both layouts,
    and unprotect calls of blobs made earlier - through the same cache, a fresh cache and the reference implementation."""
    import dpapi_ng
    from dpapi_ng import _blob

    mon.KDFS.install()
    rng = common.rng_for(ID, spec)
    h = common.HASHES[int(spec["name"].split("-")[1]) % 4]
    rkid = uuid.UUID(int=rng.getrandbits(128))
    rk = online.root_key(rng, h, "DH")
    cache = dpapi_ng.KeyCache()
    online.load_into_cache(cache, rkid, rk)
    # a second (and third) root key live in the same cache and are used alternately
    others = [(uuid.UUID(int=rng.getrandbits(128)), online.root_key(rng, h, "DH")) for _ in range(2)]
    for orkid, ork in others:
        online.load_into_cache(cache, orkid, ork)
    all_keys = {rkid: rk, **dict(others)}
    sids = [online.gen_sid(rng, n=k) for k in (1, 5, 15)]
    slots = [(rng.randrange(32), rng.randrange(32)) for _ in range(3)] + [(31, 31), (0, 0), (31, 0), (0, 31)]
    made: t.List[tuple] = []
    loop = asyncio.new_event_loop()
    asyncio.set_event_loop(loop)
    try:
        for i in range(spec["n"]):
            if made and i % 3 == 2:
                blob, pt, sid, use_rkid = made[rng.randrange(len(made))]
                b = blob if rng.random() < 0.5 else _blob.DPAPINGBlob.unpack(blob).pack(blob_in_envelope=False)
                route = rng.choice(["same", "same", "fresh"])
                c = cache
                if route == "fresh":
                    c = dpapi_ng.KeyCache()
                    online.load_into_cache(c, use_rkid, all_keys[use_rkid])
                try:
                    with mon.NET.guard():
                        got = loop.run_until_complete(dpapi_ng.async_ncrypt_unprotect_secret(b, cache=c)) if i % 2 else dpapi_ng.ncrypt_unprotect_secret(b, cache=c)
                except BaseException as e:
                    rec.violation("unprotect-raised", f"session op {i}: unprotect via {route} cache raised {type(e).__name__}: {e}", {"shard": spec["name"], "op": i, "route": route})
                    continue
                rec.count("roundtrips_checked")
                rec.count("session_unprotects")
                if got != pt:
                    rec.violation("roundtrip-mismatch", f"session op {i}: unprotect via {route} cache returned different bytes", {"shard": spec["name"], "op": i, "route": route})
                continue
            l1, l2 = rng.choice(slots)
            l0 = rng.choice([361, 362, 363, 700, 340])
            off = rng.choice([0, 1, B - 1, B // 2, rng.randrange(B)])
            ft = (l0 * 1024 + l1 * 32 + l2) * B + off
            sid = rng.choice(sids)
            pt = b"session-%d-" % i + rng.randbytes(rng.choice([0, 1, 16, 100]))
            use_rkid = rng.choice([rkid, rkid] + [o[0] for o in others])
            try:
                with mon.CLOCK.at_ns(mon.filetime_to_ns(ft, rng.randrange(100))), mon.NET.guard():
                    if i % 2:
                        blob = loop.run_until_complete(dpapi_ng.async_ncrypt_protect_secret(pt, sid, root_key_identifier=use_rkid, cache=cache))
                    else:
                        blob = dpapi_ng.ncrypt_protect_secret(pt, sid, root_key_identifier=use_rkid, cache=cache)
            except BaseException as e:
                rec.violation("protect-raised", f"session op {i}: protect at {(l0, l1, l2)}+{off} raised {type(e).__name__}: {e}", {"shard": spec["name"], "op": i})
                continue
            rec.count("session_protects")
            made.append((blob, pt, sid, use_rkid))
            try:
                parts = cms.reference_decrypt_parts(cms.parse(blob), all_keys)
                rec.count("reference_decrypts")
                if parts["plaintext"] != pt:
                    rec.violation("reference-cannot-decrypt", f"session op {i}: the independent implementation does not recover the plaintext (blob names {(parts['kid']['l0'], parts['kid']['l1'], parts['kid']['l2'])}, clock in {(l0, l1, l2)})", {"shard": spec["name"], "op": i})
            except Exception as e:
                rec.violation("emitted-blob-not-template", f"session op {i}: {type(e).__name__}: {e}", {"shard": spec["name"], "op": i})
            rec.case(("session", spec["name"], i), nontrivial=True)
        rec.sample({"kind": "session", "hash": h, "ops": spec["n"], "blobs_made": len(made), "slots": slots})
    finally:
        loop.close()


def run_dcsession(spec, rec: Recorder):
    """Stateful use without a root key: ONE KeyCache that only ever holds what a DC returned serves an interleaving of
    protect calls (at the DC's "now") and unprotect calls of blobs made earlier or by a Windows peer at nearby positions
    (same L1 with lower / higher L2, neighbouring L1s, another L0), sync and async alternating.  Every unprotect must return
    the plaintext whatever the cache holds: a cached seed that does not cover the blob means asking the DC, never failing."""
    import dpapi_ng

    mon.KDFS.install()
    rng = common.rng_for(ID, spec)
    h = common.HASHES[int(spec["name"].split("-")[1]) % 4]
    rkid = uuid.UUID(int=rng.getrandbits(128))
    rk = online.root_key(rng, h, "DH")
    sids = [online.gen_sid(rng, n=k) for k in (2, 4)]
    loop = asyncio.new_event_loop()
    asyncio.set_event_loop(loop)
    kw = dict(server="dc.c01.test", username="u", password="p", auth_protocol="ntlm")
    try:
        cache = dpapi_ng.KeyCache()
        l0 = 361
        now = (l0, rng.randrange(0, 32), rng.randrange(8, 32))
        cfg = DCConfig({rkid: rk}, rkid, now=now, policy="seed", security="scripted", domain="c01.test", forest="c01.test")
        core = DCCore(cfg)
        made: t.List[tuple] = []
        with fe.MemoryDC(core).installed():
            for i in range(spec["n"]):
                if i % 40 == 39:
                    cache = dpapi_ng.KeyCache()  # a new process, at another time (small and large L1 / L2 indices alike)
                    l0 = rng.choice([361, 362, 400])
                    now = (l0, rng.choice([0, 1, 2, 5, 5, 17, 30, 31]), rng.choice([7, 20, 30, 31, 31]))
                    cfg.now = now
                    made.clear()  # (blobs of the previous epoch may lie in this DC's future: it would rightly refuse their keys)
                cfg.l2_key_absent_at_31 = rng.random() < 0.3
                use_async = i % 2 == 1
                sid = sids[0] if i % 5 else sids[1]
                r = rng.random()
                wit = {"kind": "session-dc", "shard": spec["name"], "op": i, "async": use_async, "dc_now": list(cfg.now)}
                if i % 40 in (1, 2, 3, 4) and cfg.now[2] >= 2:
                    # a fixed pattern at the start of every epoch (not left to chance): the cache first learns a seed at
                    # (L1, s2), then is asked - through each API - for blobs at the same L1 and a HIGHER L2, which that seed
                    # does not cover; small L1 values with larger L2 values are included (indices that happen to compare alike)
                    step = i % 40
                    l1p = cfg.now[1]
                    s2 = rng.randrange(0, cfg.now[2] - 1)
                    if l1p <= cfg.now[2] - 2:
                        s2 = rng.randrange(l1p, cfg.now[2] - 1)  # a seed whose L2 index is not below its L1 index
                        rec.count("dc_session_pattern_l2_ge_l1")
                    b2 = rng.randrange(s2 + 1, cfg.now[2] + 1)
                    pos = (l0, l1p, s2 if step == 1 else min(cfg.now[2], b2 + (step - 2)))
                    pt = b"pattern-%d" % i
                    blob = online.ref_blob(rng, rkid, rk, sids[0], pos, "nonce", pt, in_envelope=True, domain="c01.test")
                    try:
                        fn = dpapi_ng.async_ncrypt_unprotect_secret if use_async else dpapi_ng.ncrypt_unprotect_secret
                        got = fn(blob, cache=cache, **kw)
                        got = loop.run_until_complete(got) if use_async else got
                        rec.count("session_unprotects")
                        rec.count("dc_session_pattern_unprotects")
                        if got != pt:
                            rec.violation("roundtrip-mismatch", f"dc session op {i}: unprotect at {pos} returned different bytes", dict(wit, blob_position=list(pos)))
                    except Exception as e:
                        rec.violation("unprotect-raised", f"dc session op {i} ({'async' if use_async else 'sync'}) at {pos} after a seed at a lower L2 of the same L1: {type(e).__name__}: {e}", dict(wit, blob_position=list(pos)))
                    rec.case(("dcsession-pattern", spec["name"], i), nontrivial=True)
                    continue
                try:
                    if r < 0.25:
                        pt = b"dcs-%d" % i
                        fn = dpapi_ng.async_ncrypt_protect_secret if use_async else dpapi_ng.ncrypt_protect_secret
                        with mon.CLOCK.at_ns(mon.filetime_to_ns(((cfg.now[0] * 1024 + cfg.now[1] * 32 + cfg.now[2]) * B) + 5)):
                            blob = fn(pt, sid, root_key_identifier=rkid if i % 3 else None, cache=cache, **kw)
                            blob = loop.run_until_complete(blob) if use_async else blob
                        rec.count("session_protects")
                        made.append((blob, pt))
                        if cms.reference_unprotect(blob, {rkid: rk}) != pt:
                            rec.violation("reference-cannot-decrypt", f"dc session op {i}: the independent implementation does not recover the plaintext of a blob protected with DC-obtained keys", wit)
                        continue
                    if r < 0.45 and made:
                        blob, pt = rng.choice(made)
                        wit["blob"] = "made earlier by protect"
                    else:
                        # a Windows peer's blob near what the cache has seen
                        l1 = max(0, min(cfg.now[1], cfg.now[1] - rng.choice([0, 0, 0, 1, 2, 7])))
                        l2 = rng.randrange(32) if l1 < cfg.now[1] else rng.randrange(0, cfg.now[2] + 1)
                        pos = (l0 if rng.random() < 0.9 else l0 - 1, l1, l2)
                        pt = b"peer-%d" % i
                        blob = online.ref_blob(rng, rkid, rk, sid, pos, "nonce", pt, in_envelope=rng.random() < 0.6, domain="c01.test")
                        wit["blob_position"] = list(pos)
                    fn = dpapi_ng.async_ncrypt_unprotect_secret if use_async else dpapi_ng.ncrypt_unprotect_secret
                    got = fn(blob, cache=cache, **kw)
                    got = loop.run_until_complete(got) if use_async else got
                    rec.count("session_unprotects")
                    rec.count("dc_session_unprotects")
                    if got != pt:
                        rec.violation("roundtrip-mismatch", f"dc session op {i}: unprotect returned different bytes", wit)
                except Exception as e:
                    rec.violation("unprotect-raised", f"dc session op {i} ({'async' if use_async else 'sync'}): {type(e).__name__}: {e}", wit)
                rec.case(("dcsession", spec["name"], i), nontrivial=True)
        rec.sample({"kind": "session on a cache fed only by a DC", "hash": h, "ops": spec["n"]})
    finally:
        loop.close()


def run_shard(spec, rec: Recorder):
    if not common.calibrate(rec, "crypto", "gkdi", "sd", "cms", "rpc", "epm"):
        return
    {"roundtrip": run_roundtrip, "session": run_session, "dcsession": run_dcsession}[spec["kind"]](spec, rec)


def replay(body, rec: Recorder):
    q = body["tier"] == "quick"
    idx = int(body["shard"].split("-")[1])
    if body["shard"].startswith("dcsession"):
        run_shard({"name": body["shard"], "seed": body["seed"], "tier": body["tier"], "kind": "dcsession", "n": 120 if q else 3000}, rec)
        rec.violations[:] = [v for v in rec.violations if v["mechanism"] == body["mechanism"]][:3]
        return
    if body["shard"].startswith("session"):
        run_shard({"name": body["shard"], "seed": body["seed"], "tier": body["tier"], "kind": "session", "n": 150 if q else 4000}, rec)
        rec.violations[:] = [v for v in rec.violations if v["mechanism"] == body["mechanism"]][:3]
        return
    run_shard({"name": body["shard"], "seed": body["seed"], "tier": body["tier"], "kind": "roundtrip", "n": 40 if q else 1300, "big": (not q) and idx < 3}, rec)
    rec.violations[:] = [v for v in rec.violations if v["mechanism"] == body["mechanism"]][:3]
