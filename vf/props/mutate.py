"""Base blobs and mutation generators shared by C04 (never different plaintext) and C05 (prompt,
deliberate errors)."""
from __future__ import annotations

import random
import typing as t
import uuid

from vf.props import common, online
from vf.ref import cms, der, gkdi as rg

PT_LENS = [0, 1, 17, 300]


class Base(t.NamedTuple):
    name: str
    blob: bytes
    plaintext: bytes
    rkid: uuid.UUID
    rk: cms.RootKey
    mode: str
    layout: str


def base_blobs(seed: int, which: t.Optional[t.Sequence[str]] = None) -> t.List[Base]:
    """16 configurations (4 hashes x {nonce, DH, ECDH_P256, ECDH_P384}) x 2 layouts; plaintext length rotates."""
    rng = random.Random(f"mutate-bases:{seed}")
    out = []
    k = 0
    for h in common.HASHES:
        for cfgname in ("nonce", "DH", "ECDH_P256", "ECDH_P384"):
            alg = "DH" if cfgname == "nonce" else cfgname
            rkid = uuid.UUID(int=rng.getrandbits(128))
            rk = online.root_key(rng, h, alg)
            for layout in ("envelope", "trailing"):
                name = f"{h}-{cfgname}-{layout}"
                pt = rng.randbytes(PT_LENS[k % 4])
                k += 1
                if which is not None and name not in which:
                    continue
                blob = online.ref_blob(rng, rkid, rk, online.gen_sid(rng, n=1 + k % 5), (361, rng.randrange(32), rng.randrange(32)), "nonce" if cfgname == "nonce" else "public", pt, in_envelope=(layout == "envelope"), domain="mut.test")
                out.append(Base(name, blob, pt, rkid, rk, cfgname, layout))
    # two more bases whose PLAINTEXT is itself a valid blob for the same root key (data that looks like other data: a secret
    # that is a DPAPI-NG blob is an ordinary secret and must come back as those bytes, whatever is flipped around it)
    rng2 = random.Random(f"mutate-nested:{seed}")
    rkid = uuid.UUID(int=rng2.getrandbits(128))
    rk = online.root_key(rng2, "SHA256", "DH")
    for layout in ("envelope", "trailing"):
        name = f"NESTED-nonce-{layout}"
        inner = online.ref_blob(rng2, rkid, rk, "S-1-5-21-7-8-9-500", (361, 2, 3), "nonce", b"inner secret", in_envelope=True, domain="mut.test")
        if which is not None and name not in which:
            continue
        blob = online.ref_blob(rng2, rkid, rk, "S-1-5-21-7-8-9-500", (361, 4, 5), "nonce", inner, in_envelope=(layout == "envelope"), domain="mut.test")
        out.append(Base(name, blob, inner, rkid, rk, "nonce", layout))
    return out


def offline_cache(b: Base):
    import dpapi_ng

    c = dpapi_ng.KeyCache()
    online.load_into_cache(c, b.rkid, b.rk)
    return c


# --------------------------------------------------------------------------- mutations
def bit_flips(n: int) -> t.Iterator[int]:
    return iter(range(n * 8))


def flip(blob: bytes, bit: int) -> bytes:
    b = bytearray(blob)
    b[bit // 8] ^= 1 << (bit % 8)
    return bytes(b)


def tlv_map(blob: bytes) -> t.List[der.Node]:
    """Every TLV of the envelope (and of the key attribute / parameters nested in it)."""
    try:
        root, _ = der.parse_prefix(blob)
    except der.DerError:
        return []
    return list(root.walk())


def structural_mutations(blob: bytes, rng: random.Random, n: int) -> t.Iterator[t.Tuple[str, bytes]]:
    nodes = tlv_map(blob)
    if not nodes:
        return
    for _ in range(n):
        nd = rng.choice(nodes)
        start, hl, ln = nd.offset, nd.hdr_len, nd.length
        k = rng.randrange(16)
        if k == 15:
            # the same element many times over (ancestors re-encoded consistently): a SET OF / SEQUENCE OF that the format
            # uses with exactly one member - recipients, attributes, parameters - given 3 / 40 / 300 members
            times = rng.choice([3, 3, 40, 300])
            enc = blob[start : start + hl + ln]
            if len(enc) * times < 400000:
                yield f"repeat-element-x{times}", consistent_rewrite(blob, nd, rng, force=enc * times)
                continue
            k = 4
        if k == 0:  # zero-length content
            yield "zero-length", blob[:start] + der.tlv(nd.cls, nd.constructed, nd.number, b"") + blob[start + hl + ln :]
        elif k == 1:  # length octet rewritten
            val = rng.choice([b"\x80", b"\xff", b"\x84\x7f\xff\xff\xff", b"\x88" + b"\x7f" + b"\xff" * 7, b"\x81\x00", b"\x82\xff\xff", b"\x7f"])
            tag_len = len(der.enc_tag(nd.cls, nd.constructed, nd.number))
            yield "length-rewrite", blob[: start + tag_len] + val + blob[start + hl :]
        elif k == 2:  # tag rewritten
            cls, cons, num = rng.randrange(4), rng.random() < 0.5, rng.choice([0, 2, 4, 6, 12, 16, 17, 30, 31, 37, 50, 127, 128, 2**21])
            yield "tag-rewrite", blob[:start] + der.enc_tag(cls, cons, num) + blob[start + len(der.enc_tag(nd.cls, nd.constructed, nd.number)) :]
        elif k == 3:  # delete this TLV
            yield "delete-tlv", blob[:start] + blob[start + hl + ln :]
        elif k == 4:  # duplicate
            yield "duplicate-tlv", blob[: start + hl + ln] + blob[start : start + hl + ln] + blob[start + hl + ln :]
        elif k == 5:  # byte substitution at a field boundary
            pos = rng.choice([start, start + hl, max(start, start + hl + ln - 1), min(len(blob) - 1, start + hl + ln)])
            yield "boundary-substitution", blob[:pos] + bytes([rng.randrange(256)]) + blob[pos + 1 :]
        elif k == 6:
            pos = rng.choice([start, start + hl, start + hl + ln])
            yield "boundary-insertion", blob[:pos] + rng.randbytes(rng.choice([1, 2, 16])) + blob[pos:]
        elif k == 7:  # re-encode parent lengths consistently with a mutated child (deep, well-formed DER)
            yield "consistent-child-mutation", consistent_rewrite(blob, nd, rng)
        elif k == 8:  # deep nesting
            depth = rng.choice([1, 10, 64, 200])
            inner = b"\x05\x00"
            for _ in range(depth):
                inner = der.enc_seq(inner)
            yield "deep-nesting", blob[:start] + inner + blob[start + hl + ln :]
        elif k == 9:  # huge integer
            yield "huge-integer", blob[:start] + der.tlv(0, False, 2, rng.randbytes(rng.choice([9, 1000, 65536]))) + blob[start + hl + ln :]
        elif k == 10:  # swap with a sibling-sized random region
            a = rng.randrange(len(blob))
            b = rng.randrange(len(blob))
            a, b = min(a, b), max(a, b)
            yield "reverse-region", blob[:a] + blob[a:b][::-1] + blob[b:]
        elif k == 11:  # empty INTEGER / OID specifically
            yield "empty-int-or-oid", consistent_rewrite(blob, nd, rng, force=rng.choice([b"\x02\x00", b"\x06\x00", b"\x02\x81\x00", b"\x06\x01\x80"]))
        elif k == 12:
            yield "truncate-inside", blob[: start + rng.randrange(hl + ln + 1)]
        elif k == 13 and not nd.constructed:
            # BER "constructed" form of a primitive value: the same tag with the constructed bit, wrapping the original
            # TLV, nested 1 / 2 / 1200 / 3000 deep, ancestors re-encoded consistently
            depth = rng.choice([1, 2, 40, 1200, 3000])
            inner = der.tlv(nd.cls, False, nd.number, nd.content)
            for _ in range(depth):
                inner = der.tlv(nd.cls, True, nd.number, inner)
            yield "constructed-nesting", consistent_rewrite(blob, nd, rng, force=inner)
        else:
            yield "append-garbage", blob + rng.randbytes(rng.choice([1, 16, 100]))


def consistent_rewrite(blob: bytes, target: der.Node, rng: random.Random, force: t.Optional[bytes] = None) -> bytes:
    """Replace `target` by a mutated encoding and re-encode all ancestors so that the result is
    well-formed DER again (mutations that survive the outer length checks)."""
    root, trailing = der.parse_prefix(blob)

    def rebuild(n: der.Node) -> bytes:
        if n is target or (n.offset == target.offset and n.hdr_len == target.hdr_len and n.length == target.length and n.tag == target.tag):
            if force is not None:
                return force
            choice = rng.randrange(6)
            if choice == 0:
                return der.tlv(n.cls, n.constructed, n.number, b"")
            if choice == 1:
                return der.tlv(n.cls, n.constructed, n.number, n.content + rng.randbytes(rng.choice([1, 8, 300])))
            if choice == 2:
                return der.tlv(n.cls, n.constructed, n.number, n.content[: len(n.content) // 2])
            if choice == 3:
                return der.tlv(rng.randrange(4), n.constructed, rng.choice([n.number, 0, 30, 31, 100]), n.content)
            if choice == 4:
                return b""
            c = bytearray(n.content)
            if c:
                c[rng.randrange(len(c))] ^= 1 << rng.randrange(8)
            return der.tlv(n.cls, n.constructed, n.number, bytes(c))
        if n.children is not None:
            return der.tlv(n.cls, n.constructed, n.number, b"".join(rebuild(c) for c in n.children))
        return der.tlv(n.cls, n.constructed, n.number, n.content)

    return rebuild(root) + trailing


def keyid_boundary_mutations(b: Base, rng: random.Random) -> t.Iterator[t.Tuple[str, bytes]]:
    """Re-encode the blob with the key identifier's fields at boundary values (well-formed DER around it)."""
    p = cms.parse(b.blob)
    kid = rg.dec_key_identifier(p["key_identifier"])

    def rebuild(kid_bytes: bytes, sid: t.Optional[str] = None, descriptor: t.Optional[bytes] = None) -> bytes:
        desc = descriptor if descriptor is not None else (cms.protection_descriptor(sid) if sid is not None else p["descriptor_raw"])
        return cms.build(kid_bytes, desc, p["enc_cek"], p["enc_content"], p["content_params"], in_envelope=p["content_in_envelope"] is not None)

    for field, vals in (("l0", [2**31 - 1, 2**31, 2**32 - 1, 0]), ("l1", [31, 32, 255, 2**31, 2**32 - 1]), ("l2", [31, 32, 255, 2**31, 2**32 - 1]), ("flags", [0, 1, 2, 3, 2**32 - 1]), ("version", [0, 2, 2**32 - 1])):
        for v in vals:
            yield f"keyid-{field}={v}", rebuild(rg.enc_key_identifier(dict(kid, **{field: v})))
    raw = bytearray(rg.enc_key_identifier(kid))
    for off, name in ((40, "key_info_len"), (44, "domain_len"), (48, "forest_len")):
        for v in (0, 1, 2, 3, 2**16, 2**31, 2**32 - 1):
            r = bytearray(raw)
            r[off : off + 4] = v.to_bytes(4, "little")
            yield f"keyid-{name}={v}", rebuild(bytes(r))
    for cutlen in (0, 3, 4, 8, 24, 39, 40, 51, 52, 53):
        yield f"keyid-truncated-{cutlen}", rebuild(bytes(raw[:cutlen]))
    yield "keyid-magic", rebuild(bytes(raw[:4]) + b"XXXX" + bytes(raw[8:]))
    yield "keyid-odd-names", rebuild(rg.enc_key_identifier(kid)[:-1])
    yield "keyid-bad-utf16", rebuild(rg.enc_key_identifier(dict(kid, domain_name="ok"))[:-8] + b"\x00\xd8\x00\xd8\x00\x00\x00\x00")
    # public-key key_info corner cases
    import struct

    for name, ki in (
        ("dh-zero-modulus", b"DHPB" + struct.pack("<I", 4) + bytes(12)),
        ("dh-keylen-0", b"DHPB" + struct.pack("<I", 0)),
        ("dh-keylen-huge", b"DHPB" + struct.pack("<I", 2**32 - 1) + b"\x07" * 64),
        ("dh-keylen-1M", b"DHPB" + struct.pack("<I", 2**20) + b"\x07" * 64),
        ("dh-bad-magic", b"DHPX" + struct.pack("<I", 4) + bytes(12)),
        ("dh-short", b"DHPB\x10"),
        ("ec-off-curve", b"ECK1" + struct.pack("<I", 32) + b"\x01" * 64),
        ("ec-wrong-curve-magic", b"ECK9" + struct.pack("<I", 32) + b"\x01" * 64),
        ("ec-keylen-0", b"ECK1" + struct.pack("<I", 0)),
        ("ec-keylen-huge", b"ECK3" + struct.pack("<I", 2**32 - 1) + b"\x02" * 96),
        ("ec-p521", b"ECK5" + struct.pack("<I", 66) + b"\x01" * 132),
        ("ec-infinity", b"ECK1" + struct.pack("<I", 32) + bytes(64)),
        ("empty", b""),
    ) + tuple(
        (f"dh-consistent-keylen-{kl}", b"DHPB" + struct.pack("<I", kl) + (rng.getrandbits(8 * kl) | (1 << (8 * kl - 1)) | 1).to_bytes(kl, "big") + rng.randbytes(kl) + rng.randbytes(kl))
        for kl in (1, 2, 128, 255, 257, 300, 512, 1024)
    ) + tuple(
        (f"ec-consistent-keylen-{magic.decode()}-{kl}", magic + struct.pack("<I", kl) + rng.randbytes(2 * kl))
        for magic in (b"ECK1", b"ECK3") for kl in (1, 31, 33, 47, 49, 66, 200)
    ):
        yield f"keyinfo-{name}", rebuild(rg.enc_key_identifier(dict(kid, flags=kid["flags"] | 1, key_info=ki)))
        yield f"keyinfo-{name}-nonceflag", rebuild(rg.enc_key_identifier(dict(kid, flags=kid["flags"] & ~1, key_info=ki)))
    # SID strings in the descriptor
    for sid in ("S-1-5-4294967296", "S-1-281474976710656-1", "S-1-18446744073709551616-1", "S-1-5", "S-1-5-" + "-".join(["1"] * 16), "S-1-5-١٢", "S-1-5-18\n", "", "S-1-5--1", "S-1-5-" + "9" * 5000, "S-1-5-1" + "-1" * 3000, "\x00", "S-1-5-18\x00"):
        yield f"sid-{sid[:20]!r}", rebuild(p["key_identifier"], sid=sid)
    # SID-like strings from a small grammar: other numeral notations (hex / octal / binary / exponent / digit separators /
    # signs / full-width digits) with values below, at and far above the field widths - a parser that grows a "compatible"
    # notation must still keep every value in range (or reject the string with ValueError)
    heads = ["S", "S", "S", "s", "S ", ""]
    revs = ["1", "1", "1", "0x1", "01", "+1", "\uff11"]
    auths = ["5", "0x5", "0X5", "0x000000000005", "0xFFFFFFFFFFFF", "0x1000000000000", "0x10000000000000000", "0x" + "F" * 40, "0o5", "0b101", "5e3", "1_0", "\uff15", "-5", "+5", " 5", "281474976710655", "281474976710656", "0"]
    subs = ["18", "0x12", "0xFFFFFFFF", "0x100000000", "0x10000000000000000", "0x" + "f" * 64, "4294967295", "4294967296", "1_000", "1e3", "0o17", "+1", "-1", " 1", "1 ", "\uff12", "0", "00", "0x0"]
    for _ in range(160):
        parts = [rng.choice(heads), rng.choice(revs), rng.choice(auths)] + [rng.choice(subs) for _ in range(rng.choice([1, 1, 2, 3, 5, 15, 16]))]
        sid = "-".join(parts)
        yield f"sid-grammar-{sid[:40]!r}", rebuild(p["key_identifier"], sid=sid)
    for pos in range(15):
        subs = ["7"] * 15
        subs[pos] = str(2**32 + pos)
        yield f"sid-sub{pos + 1}-of-15-out-of-range", rebuild(p["key_identifier"], sid="S-1-5-" + "-".join(subs))
        yield f"sid-sub{pos + 1}-of-{pos + 1}-out-of-range", rebuild(p["key_identifier"], sid="S-1-5-" + "-".join(subs[: pos + 1]))
    yield "descriptor-type-sddl", rebuild(p["key_identifier"], descriptor=cms.protection_descriptor("O:SYG:SYD:(A;;CCDC;;;WD)", "1.3.6.1.4.1.311.74.1.5", "SDDL"))
    yield "descriptor-bad-utf8", rebuild(p["key_identifier"], descriptor=der.enc_seq(der.enc_oid(cms.OID_SID), der.enc_seq(der.enc_seq(der.enc_seq(der.tlv(0, False, 12, b"SID"), der.tlv(0, False, 12, b"\xff\xfe\xfd"))))))
    yield "descriptor-empty", rebuild(p["key_identifier"], descriptor=b"")
    # algorithm identifiers / parameters
    for name, params in (("gcm-nonce-0", cms.gcm_parameters(b"")), ("gcm-nonce-7", cms.gcm_parameters(b"1234567")), ("gcm-nonce-129", cms.gcm_parameters(bytes(129))), ("gcm-params-not-seq", der.enc_octets(b"x" * 12)), ("gcm-params-empty-seq", der.enc_seq()), ("gcm-params-null", b"\x05\x00")):
        yield f"params-{name}", cms.build(p["key_identifier"], p["descriptor_raw"], p["enc_cek"], p["enc_content"], params, in_envelope=p["content_in_envelope"] is not None)
    for name, cek in (("cek-0", b""), ("cek-8", bytes(8)), ("cek-15", bytes(15)), ("cek-41", bytes(41)), ("cek-1000", bytes(1000))):
        yield f"enc-{name}", cms.build(p["key_identifier"], p["descriptor_raw"], cek, p["enc_content"], p["content_params"], in_envelope=p["content_in_envelope"] is not None)
    for name, ct in (("content-0", b""), ("content-15", bytes(15)), ("content-16", bytes(16))):
        yield f"enc-{name}", cms.build(p["key_identifier"], p["descriptor_raw"], p["enc_cek"], ct, p["content_params"], in_envelope=True)


def deterministic_structure_mutations(blob: bytes) -> t.Iterator[t.Tuple[str, bytes]]:
    """For EVERY TLV of the blob (ancestors re-encoded so that the result is well-formed DER again): delete it, empty it,
    duplicate it; for every primitive value of 1-2 content octets (versions, ICV length, ...): every value of its first octet."""
    nodes = tlv_map(blob)
    rng = random.Random(0)
    for idx, nd in enumerate(nodes[1:], 1):
        yield f"consistent-delete[{idx}]", consistent_rewrite(blob, nd, rng, force=b"")
        yield f"consistent-empty[{idx}]", consistent_rewrite(blob, nd, rng, force=der.tlv(nd.cls, nd.constructed, nd.number, b""))
        enc = blob[nd.offset : nd.offset + nd.total]
        yield f"consistent-duplicate[{idx}]", consistent_rewrite(blob, nd, rng, force=enc + enc)
        if nd.constructed and len(enc) * 300 < 400000:
            for times in (3, 40, 300):
                yield f"consistent-repeat[{idx}]x{times}", consistent_rewrite(blob, nd, rng, force=enc * times)
        if not nd.constructed and 1 <= nd.length <= 2:
            for v in range(256):
                if v != nd.content[0]:
                    yield f"value[{idx}]={v}", consistent_rewrite(blob, nd, rng, force=der.tlv(nd.cls, False, nd.number, bytes([v]) + nd.content[1:]))


CONTENT_ALG_OIDS = [
    "2.16.840.1.101.3.4.1.2",  # aes128-CBC
    "2.16.840.1.101.3.4.1.6",  # aes128-GCM
    "2.16.840.1.101.3.4.1.22",  # aes192-CBC
    "2.16.840.1.101.3.4.1.41",  # aes256-ECB
    "2.16.840.1.101.3.4.1.42",  # aes256-CBC
    "2.16.840.1.101.3.4.1.43",  # aes256-OFB
    "2.16.840.1.101.3.4.1.44",  # aes256-CFB
    "2.16.840.1.101.3.4.1.45",  # aes256-wrap
    "2.16.840.1.101.3.4.1.47",  # aes256-CCM
    "2.16.840.1.101.3.4.1.48",  # aes256-wrap-pad
    "1.2.840.113549.3.7",  # des-ede3-cbc
    "1.2.840.113549.3.4",  # rc4
    "1.2.840.113549.1.9.16.3.18",  # chacha20-poly1305
]


def algorithm_substitutions(b: "Base", rng: random.Random, pad_oracle_tries: int = 256) -> t.Iterator[t.Tuple[str, bytes]]:
    """Nothing authenticates the algorithm identifiers: re-encode the blob naming another content (or key-wrap) algorithm,
    with every plausible parameter shape, the tag kept / dropped / content cut to whole blocks, and - for block modes - the
    byte that controls the last padding byte cycled through all values (what an attacker without the key can do)."""
    p = cms.parse(b.blob)
    ct = p["enc_content"]
    nonce = p["gcm_nonce"]
    param_shapes = [
        ("gcm-seq", p["content_params"]),
        ("iv16", der.enc_octets(nonce + bytes(4))),
        ("iv12", der.enc_octets(nonce)),
        ("iv8", der.enc_octets(nonce[:8])),
        ("seq-iv16", der.enc_seq(der.enc_octets(nonce + bytes(4)))),
        ("seq-iv12-only", der.enc_seq(der.enc_octets(nonce))),
        ("seq-iv12-icv12", der.enc_seq(der.enc_octets(nonce), der.enc_int(12))),
        ("null", b"\x05\x00"),
        ("absent", None),
    ]
    body_shapes = [("as-is", ct), ("no-tag", ct[:-16])]
    if len(ct) >= 32:
        body_shapes.append(("whole-blocks", ct[: len(ct) // 16 * 16]))
    env = b.layout == "envelope"
    for oid in CONTENT_ALG_OIDS:
        for pname, params in param_shapes:
            for bname, body in body_shapes:
                if not body and env:
                    continue
                yield f"content-alg {oid} params {pname} body {bname}", cms.build(p["key_identifier"], p["descriptor_raw"], p["enc_cek"], body, params, in_envelope=env, content_alg=oid)
            if pname in ("iv16", "seq-iv16") and oid.endswith((".2", ".22", ".42", ".3.7")):
                # padding oracle style: whole blocks, cycle the byte that is XORed into the last plaintext byte
                body = ct[: max(16, len(ct) // 16 * 16)] if len(ct) >= 16 else None
                if body is None:
                    continue
                for v in range(pad_oracle_tries):
                    if len(body) >= 32:
                        mb = bytearray(body)
                        mb[-17] = v
                        yield f"content-alg {oid} params {pname} pad-cycle {v}", cms.build(p["key_identifier"], p["descriptor_raw"], p["enc_cek"], bytes(mb), params, in_envelope=env, content_alg=oid)
                    else:
                        iv = bytearray(nonce + bytes(4))
                        iv[-1] = v
                        prm = der.enc_octets(bytes(iv)) if pname == "iv16" else der.enc_seq(der.enc_octets(bytes(iv)))
                        yield f"content-alg {oid} params {pname} iv-cycle {v}", cms.build(p["key_identifier"], p["descriptor_raw"], p["enc_cek"], body, prm, in_envelope=env, content_alg=oid)
    for oid in CONTENT_ALG_OIDS[:10]:
        for kp in (None, b"\x05\x00", der.enc_octets(bytes(8))):
            yield f"kw-alg {oid}", cms.build(p["key_identifier"], p["descriptor_raw"], p["enc_cek"], ct, p["content_params"], in_envelope=env, kw_alg=oid, kw_params=kp)


def random_der_tree(rng: random.Random, depth: int = 0) -> bytes:
    if depth > 6 or rng.random() < 0.4:
        k = rng.randrange(6)
        if k == 0:
            return der.enc_int(rng.randrange(-(2**40), 2**40))
        if k == 1:
            return der.enc_octets(rng.randbytes(rng.randrange(0, 40)))
        if k == 2:
            return der.enc_oid(rng.choice([cms.OID_ENVELOPED, cms.OID_DATA, cms.OID_MS_SW, cms.OID_SID, cms.OID_AES256_GCM, cms.OID_AES256_WRAP, "1.2.3"]))
        if k == 3:
            return der.enc_utf8(rng.choice(["SID", "S-1-5-18", "", "x"]))
        if k == 4:
            return der.tlv(rng.randrange(4), False, rng.randrange(0, 5), rng.randbytes(rng.randrange(0, 20)))
        return b"\x05\x00"
    kids = b"".join(random_der_tree(rng, depth + 1) for _ in range(rng.randrange(0, 5)))
    return der.tlv(rng.choice([0, 0, 2]), True, rng.choice([16, 17, 0, 2]), kids)


def with_position(blob: bytes, l0: int, l1: int, l2: int) -> bytes:
    """The same blob with the three position fields of its key identifier overwritten (all lengths unchanged)."""
    p = cms.parse(blob)
    kid = p["key_identifier"]
    off = blob.find(kid)
    if off < 0:
        return blob
    new = bytearray(blob)
    new[off + 12 : off + 24] = (l0 & 0xFFFFFFFF).to_bytes(4, "little") + (l1 & 0xFFFFFFFF).to_bytes(4, "little") + (l2 & 0xFFFFFFFF).to_bytes(4, "little")
    return bytes(new)
