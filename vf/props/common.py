"""Shared helpers for property modules."""
from __future__ import annotations

import os
import random
import typing as t
import uuid

from vf.core.framework import Recorder

VEC = os.path.join(os.path.dirname(os.path.dirname(os.path.abspath(__file__))), "ref", "vectors")


def rng_for(prop: str, spec: dict) -> random.Random:
    return random.Random(f"{prop}:{spec.get('seed', 0)}:{spec.get('name', '')}")


_CAL_CACHE: t.Dict[str, t.List[str]] = {}


def calibrate(rec: Recorder, *names: str) -> bool:
    """Run the calibration sets of the reference oracles this check relies on.  A failure
    makes the run inconclusive (oracle miscalibrated) - never a violation."""
    ok = True
    for n in names:
        if n not in _CAL_CACHE:
            try:
                if n == "der":
                    from vf.ref import der

                    _CAL_CACHE[n] = der.calibrate()
                elif n == "crypto":
                    from vf.ref import crypto

                    _CAL_CACHE[n] = crypto.calibrate()
                elif n == "gkdi":
                    from vf.ref import gkdi

                    _CAL_CACHE[n] = gkdi.calibrate(VEC)
                elif n == "sd":
                    from vf.ref import sd

                    _CAL_CACHE[n] = sd.calibrate(VEC)
                elif n == "cms":
                    from vf.ref import cms

                    _CAL_CACHE[n] = cms.calibrate(VEC)
                elif n == "rpc":
                    from vf.ref import rpc

                    _CAL_CACHE[n] = rpc.calibrate()
                elif n == "epm":
                    from vf.ref import epm

                    _CAL_CACHE[n] = epm.calibrate()
                else:
                    _CAL_CACHE[n] = [f"unknown oracle {n}"]
            except Exception as e:  # pragma: no cover
                _CAL_CACHE[n] = [f"calibration of {n} raised {type(e).__name__}: {e}"]
        if _CAL_CACHE[n]:
            ok = False
            rec.inconclusive_because(f"oracle {n} miscalibrated: {_CAL_CACHE[n][:3]}")
        else:
            rec.count(f"calibration_ok_{n}")
    return ok


def split(seq: t.Sequence, n: int) -> t.List[t.List]:
    n = max(1, n)
    return [list(seq[i::n]) for i in range(n)]


HASHES = ["SHA1", "SHA256", "SHA384", "SHA512"]
RFC5114_P = int(
    "87A8E61DB4B6663CFFBBD19C651959998CEEF608660DD0F25D2CEED4435E3B00E00DF8F1D61957D4FAF7DF4561B2AA30"
    "16C3D91134096FAA3BF4296D830E9A7C209E0C6497517ABD5A8A9D306BCF67ED91F9E6725B4758C022E0B1EF4275BF7B"
    "6C5BFC11D45F9088B941F54EB1E59BB8BC39A0BF12307F5C4FDB70C581B23F76B63ACAE1CAA6B7902D52526735488A0E"
    "F13C6D9A51BFA4AB3AD8347796524D8EF6A167B5A41825D967E144E5140564251CCACB83E6B486F6B3CA3F7971506026"
    "C0B857F689962856DED4010ABD0BE621C3A3960A54E710C375F26375D7014103A4B54330C198AF126116D2276E11715F"
    "693877FAD7EF09CADB094AE91E1A1597",
    16,
)
RFC5114_G = int(
    "3FB32C9B73134D0B2E77506660EDBD484CA7B18F21EF205407F4793A1A0BA12510DBC15077BE463FFF4FED4AAC0BB555"
    "BE3A6C1B0C6B47B1BC3773BF7E8C6F62901228F8C28CBB18A55AE31341000A650196F931C77A57F2DDF463E5E9EC144B"
    "777DE62AAAB8A8628AC376D282D6ED3864E67982428EBC831D14348F6F2F9193B5045AF2767164E1DFC967C1FB3F2E55"
    "A4BD1BFFE83B9C80D052B985D182EA0ADB2A3B7313D3FE14C8484B1E052588B9B7D2BBD2DF016199ECD06E1557CD0915"
    "B3353BBB64E0EC377FD028370DF92B52C7891428CDC67EB6184B523D1DB246C32F63078490F00EF8D647D148D4795451"
    "5E2327CFEF98C582664B4C0F6CC41659",
    16,
)


def root_uuid(rng: random.Random) -> uuid.UUID:
    return uuid.UUID(int=rng.getrandbits(128))


def clock_steerable() -> bool:
    """Does the code under test take 'now' from a clock the harness scripts (time.time_ns / time.time / datetime.now|utcnow)?
    Decided by observation: one offline protect at a scripted instant in 2215; the blob names that year's L0 iff so."""
    import dpapi_ng
    from vf.instruments import monitors as mon
    from vf.ref import cms, gkdi

    cache = dpapi_ng.KeyCache()
    rkid = uuid.UUID(int=0xC10C)
    cache.load_key(bytes(64), rkid)
    ft = 530 * 1024 * 360000000000 + 777
    with mon.CLOCK.at_ns(mon.filetime_to_ns(ft)):
        blob = dpapi_ng.ncrypt_protect_secret(b"probe", "S-1-5-18", root_key_identifier=rkid, cache=cache)
    return gkdi.dec_key_identifier(cms.parse(blob)["key_identifier"])["l0"] == 530


def hammer(rec: Recorder, tasks: t.Sequence[t.Tuple[t.Callable[[], t.Any], t.Any, t.Any]], mechanism: str, threads: int = 8, rounds: int = 4, seed: int = 0) -> None:
    """The same pure computations from several threads at once.  tasks = (callable, expected result, witness).  Each
    round hands every thread its own shuffled copy of the task list; the switch interval is 1 us and on odd rounds a line-level
    yield injector perturbs the schedule inside dpapi_ng.  A result that differs from `expected` (computed beforehand,
    single-threaded, by the reference) is a violation: functions that are correct one call at a time but share hidden
    mutable state (module-level buffers, caches keyed too coarsely) fail exactly here."""
    import contextlib
    import sys
    import threading

    from vf.instruments import monitors as mon

    old = sys.getswitchinterval()
    sys.setswitchinterval(1e-6)
    bad: t.List[tuple] = []
    try:
        for rnd in range(rounds):
            barrier = threading.Barrier(threads)

            def worker(ti: int, rnd=rnd) -> None:
                r = random.Random(f"hammer:{seed}:{rnd}:{ti}")
                order = list(range(len(tasks)))
                r.shuffle(order)
                barrier.wait(30)
                for k in order:
                    fn, want, wit = tasks[k]
                    try:
                        got = fn()
                    except BaseException as e:  # noqa: BLE001
                        got = ("raised", f"{type(e).__name__}: {e}")
                    if got != want:
                        bad.append((wit, got, want, ti, rnd))

            inject = mon.YIELDS.active(seed=seed * 100 + rnd, every=3) if rnd % 2 else contextlib.nullcontext()
            with inject:
                ths = [threading.Thread(target=worker, args=(i,)) for i in range(threads)]
                for th in ths:
                    th.start()
                for th in ths:
                    th.join(300)
                if any(th.is_alive() for th in ths):
                    rec.inconclusive_because("watchdog: a hammer thread did not finish in 300 s")
                    return
            rec.count("hammer_rounds")
            rec.count("hammer_calls", threads * len(tasks))
    finally:
        sys.setswitchinterval(old)
    for wit, got, want, ti, rnd in bad[:20]:
        rec.violation(mechanism, f"concurrent call (thread {ti}, round {rnd}) returned {str(got)[:120]} instead of {str(want)[:120]} - the single-threaded result", wit)


SPECIAL_CODEPOINTS = "\ufeff\ufffe\uffff\ufffd\ud7ff\ue000\u0001\u00ff\u0100"


def tricky_text(rng: random.Random, n: int) -> str:
    """Strings a careless codec treats specially: byte-order marks (either order) in first and later positions, the last
    BMP code points, code points whose UTF-16 bytes look like 01 00 / FF 00 / 00 01."""
    if n <= 0:
        return ""
    return rng.choice("\ufeff\ufffe\ufeff\uffff") + "".join(rng.choice(SPECIAL_CODEPOINTS + "ab") for _ in range(n - 1))
