"""C05 - decrypting untrusted bytes ends promptly with a deliberate error type.

Monitor: hostile byte strings are given to ncrypt_unprotect_secret / async variant /
DPAPINGBlob.unpack with offline key material while (a) sys.monitoring counts line events executed
inside dpapi_ng (budget 4000 + 60*len, exceeded = located exception), (b) the KDF meter counts
SP800-108 invocations (budget 128), (c) the escaping exception type is checked against the deliberate
set {ValueError (incl. UnicodeDecodeError), NotImplementedError, NotEnougData, InvalidTag,
InvalidUnwrap}, (d) tracemalloc bounds allocation on a sample, (e) the network guard turns an attempt
to contact a DC into an allowed outcome.
"""
from __future__ import annotations

import asyncio
import tracemalloc
import typing as t

from vf.core.framework import Recorder
from vf.instruments import monitors as mon
from vf.props import common, mutate

ID = "C05"
LEVEL = "fault_enumeration"
RULE = (
    "inputs: all truncations and (quick: stratified 1/8, thorough: all) single-bit flips of the 32 base blobs; structure-aware DER mutations located "
    "with an independent TLV map (zero-length INTEGER/OID/OCTET STRING/SEQUENCE, length -> 0x80/0xFF/2^31/2^63/too long, every tag class / number incl. "
    "universal > 36 and high-tag form, child deletion / duplication, nesting depth to 200, 64 KiB INTEGER, consistent re-encoding of ancestors); key identifier "
    "boundary values (L0 in {2^31-1, 2^31, 2^32-1}, L1/L2 in {31,32,255,2^31,2^32-1}, length fields 0/1/2/2^32-1, malformed DH / ECDH key_info, SID "
    "strings out of range); random bytes and random DER trees. distinct = digest of the input; non-trivial = the input gets past ContentInfo parsing "
    "(the deepest dpapi_ng module reached is recorded)"
    " Also: session-* shards (one cache across hundreds of L0 values with malformed blobs in between); SID-like strings from a numeral-notation grammar inside consistently re-encoded blobs."
)
ASSUMPTIONS = [
    "budgets are linear with >= 10x slack over the calibrated valid-call cost (valid 400-byte blob = ~3600 line events, <= 66 KDF invocations)",
    "memory budget (sampled): 2 MiB + 64*len (tracemalloc peak)",
    "allowed outcomes: returns, tries to contact a DC (network guard), or one of the deliberate error types",
]
KDF_BUDGET = 128


def allowed_exception(e: BaseException) -> bool:
    from cryptography.exceptions import InvalidTag
    from cryptography.hazmat.primitives.keywrap import InvalidUnwrap
    from dpapi_ng._asn1 import NotEnougData

    return isinstance(e, (ValueError, NotImplementedError, NotEnougData, InvalidTag, InvalidUnwrap))


def plan(tier, seed):
    q = tier == "quick"
    names = [b.name for b in mutate.base_blobs(seed)]
    specs = []
    for i in range(16):
        specs.append({"name": f"flips-{i}", "kind": "flips", "bases": names[2 * i : 2 * i + 2], "stride": 8 if q else 1})
    for i in range(8):
        specs.append({"name": f"struct-{i}", "kind": "structural", "bases": names[i::8], "n": 120 if q else 5000})
    for i in range(4):
        specs.append({"name": f"keyid-{i}", "kind": "keyid", "bases": names[i::4]})
    for i in range(8):
        specs.append({"name": f"random-{i}", "kind": "random", "n": 3000 if q else 120000})
    specs.append({"name": "scaling", "kind": "scaling", "repeats": 5 if q else 15})
    for i in range(2 if q else 8):
        specs.append({"name": f"session-{i}", "kind": "session", "n": 700 if q else 6000})
    return specs


def finalize(agg, tier):
    r = []
    for c in ("inputs_executed", "line_events_counted", "kdf_calls_counted", "outcome_deliberate_error", "memory_samples", "unpack_only_runs", "async_runs", "scaling_probes"):
        if agg.counter(c) == 0:
            r.append(f"monitor never reached: {c}")
    deep = agg.sets.get("deepest_module", set())
    for need in ("_gkdi", "_crypto", "_client"):
        if not any(need in d for d in deep):
            r.append(f"no input reached {need} (workload too shallow)")
    return r


DEPTH_ORDER = ["_asn1", "_pkcs7", "_blob", "_security_descriptor", "_client", "_gkdi", "_crypto"]


def classify_mechanism(e: BaseException, label: str) -> str:
    site = mon.exc_site(e)
    name = type(e).__name__
    if name == "IndexError" and "_read_asn1_integer" in site:
        return "asn1-empty-integer"
    if name == "error" and "_read_asn1_object_identifier" in site:
        return "asn1-empty-oid"
    if name == "OverflowError" and "compute_kdf_context" in site:
        return "kdf-context-l0-overflow"
    if name == "OverflowError" and "sid_to_bytes" in site:
        return "sid-range"
    return f"{name}@{site}"


def execute(rec: Recorder, cache, data: bytes, label: str, loop=None, mode: str = "sync", track_mem: bool = False) -> None:
    import dpapi_ng
    from dpapi_ng import _blob

    wit = {"input": data, "len": len(data), "label": label, "api": mode}
    if label.startswith("session"):
        wit["kind"] = "session"  # history dependent: replayed by re-running the shard
    budget = 4000 + 60 * len(data)
    mon.KDFS.n, mon.KDFS.limit = 0, KDF_BUDGET
    if track_mem:
        tracemalloc.start()
    outcome = "returned"
    try:
        with mon.NET.guard(), mon.STEPS.measure(budget, track_files=True):
            if mode == "unpack":
                _blob.DPAPINGBlob.unpack(data)
            elif mode == "async":
                loop.run_until_complete(dpapi_ng.async_ncrypt_unprotect_secret(data, cache=cache))
            else:
                dpapi_ng.ncrypt_unprotect_secret(data, cache=cache)
    except mon.NetworkAttempt:
        outcome = "needs-network"
    except mon.StepBudgetExceeded as e:
        outcome = "steps"
        rec.violation("l2-walk-no-cover-check" if "compute_l2_key" in str(e) else "step-budget", f"{label}: more than {budget} line events for a {len(data)}-byte input, cut at {e}", wit)
    except mon.KdfBudgetExceeded as e:
        outcome = "kdf"
        rec.violation("l2-walk-no-cover-check", f"{label}: more than {KDF_BUDGET} KDF invocations for a {len(data)}-byte input", wit)
    except MemoryError as e:
        outcome = "memory"
        rec.violation("memory-error", f"{label}: MemoryError ({mon.exc_site(e)})", wit)
    except Exception as e:
        import dns.exception

        if isinstance(e, dns.exception.DNSException) and mon.exc_site(e).startswith("_dns."):
            # the library went on to discover a domain controller and the resolver refused the name taken from the
            # blob (label too long, empty label, ...): same outcome class as "tries to contact a domain controller"
            outcome = "needs-network"
            rec.count("discovery_name_rejected_by_resolver")
        elif allowed_exception(e):
            outcome = "deliberate"
            rec.count("outcome_deliberate_error")
            rec.seen("error_types", type(e).__name__)
        else:
            outcome = "internal"
            rec.violation(classify_mechanism(e, label), f"{label}: internal error escaped: {type(e).__name__}: {e} at {mon.exc_site(e)}", wit)
    finally:
        mon.KDFS.limit = 1 << 62
        if track_mem:
            _, peak = tracemalloc.get_traced_memory()
            tracemalloc.stop()
            rec.count("memory_samples")
            rec.range("tracemalloc_peak", peak)
            if peak > (2 << 20) + 64 * len(data):
                rec.violation("memory-budget", f"{label}: {peak} bytes allocated for a {len(data)}-byte input", wit)
    rec.count("inputs_executed")
    rec.count(f"outcome_{outcome}")
    rec.count("line_events_counted", mon.STEPS.n)
    rec.count("kdf_calls_counted", mon.KDFS.n)
    rec.range("steps_per_input", mon.STEPS.n)
    rec.range("kdf_per_input", mon.KDFS.n)
    if mode == "unpack":
        rec.count("unpack_only_runs")
    if mode == "async":
        rec.count("async_runs")
    mods = {f.split(".")[0].split(":")[0] for f in mon.STEPS.files}
    deepest = max((DEPTH_ORDER.index(m) for m in mods if m in DEPTH_ORDER), default=-1)
    rec.seen("deepest_module", DEPTH_ORDER[deepest] if deepest >= 0 else "none")
    rec.case(data, nontrivial=deepest >= 2)


def modes(i: int):
    return ("sync", "async", "unpack", "sync", "sync")[i % 5]


def run_flips(spec, rec: Recorder):
    loop = asyncio.new_event_loop()
    asyncio.set_event_loop(loop)
    try:
        for base in mutate.base_blobs(spec["seed"], spec["bases"]):
            cache = mutate.offline_cache(base)
            execute(rec, cache, base.blob, "identity", loop, "sync", True)
            n = len(base.blob)
            stride = spec["stride"] * (6 if base.mode == "DH" and spec["stride"] > 1 else 1)
            i = 0
            for bit in range(n * 8):
                if stride > 1 and bit % stride != (bit // (8 * stride)) % stride:
                    continue
                i += 1
                execute(rec, cache, mutate.flip(base.blob, bit), f"{base.name} flip {bit}", loop, modes(i), i % 97 == 0)
            for k in range(n):
                execute(rec, cache, base.blob[:k], f"{base.name} truncate {k}", loop, modes(k), k % 97 == 0)
            if spec["stride"] == 1:
                rec.mark_exhaustive(f"all bit flips and truncations of {base.name}")
        rec.sample({"bases": spec["bases"], "stride": spec["stride"], "kinds": ["bit flips", "truncations"]})
    finally:
        loop.close()


def run_structural(spec, rec: Recorder):
    rng = common.rng_for(ID, spec)
    loop = asyncio.new_event_loop()
    asyncio.set_event_loop(loop)
    try:
        for base in mutate.base_blobs(spec["seed"], spec["bases"]):
            cache = mutate.offline_cache(base)
            for i, (label, m) in enumerate(mutate.structural_mutations(base.blob, rng, spec["n"])):
                execute(rec, cache, m[:200000], f"{base.name} {label}", loop, modes(i), i % 23 == 0)
                rec.seen("structural_kinds", label)
        rec.sample({"bases": spec["bases"], "n_each": spec["n"], "example_kind": label, "example": m[:400]})
    finally:
        loop.close()


def run_keyid(spec, rec: Recorder):
    rng = common.rng_for(ID, spec)
    loop = asyncio.new_event_loop()
    asyncio.set_event_loop(loop)
    try:
        for base in mutate.base_blobs(spec["seed"], spec["bases"]):
            cache = mutate.offline_cache(base)
            for i, (label, m) in enumerate(mutate.keyid_boundary_mutations(base, rng)):
                execute(rec, cache, m, f"{base.name} {label}", loop, "async" if i % 4 == 3 else "sync", True)
                rec.seen("keyid_cases", label.split("=")[0])
            # every constructed element of the blob repeated 3 / 300 times (consistent lengths): the work must stay bounded
            # however many recipients, attributes or parameters a blob claims to have
            from vf.ref import der as _der

            for idx, nd in enumerate(mutate.tlv_map(base.blob)[1:], 1):
                enc = base.blob[nd.offset : nd.offset + nd.total]
                if not nd.constructed or len(enc) * 300 > 400000:
                    continue
                bad = bytearray(enc)
                bad[-1] ^= 0x01  # the same element with its last content octet altered (for a recipient: its wrapped key)
                bad = bytes(bad)
                for times in (3, 300):
                    for form, body in (("repeated", enc * times), ("altered copy repeated", bad * times), ("altered copies then the original", bad * (times - 1) + enc)):
                        m = mutate.consistent_rewrite(base.blob, nd, rng, force=body)
                        execute(rec, cache, m, f"{base.name} constructed element {idx} {form} x{times}", loop, "sync")
                        rec.count("repeated_element_cases")
        rec.sample({"bases": spec["bases"], "kind": "key identifier / key_info / SID / parameter boundary values", "example": label})
        rec.mark_exhaustive("listed key identifier boundary values x listed base blobs")
    finally:
        loop.close()


def run_session(spec, rec: Recorder):
    """"For every byte string" includes every byte string given to a process that has already handled others: ONE cache
    (one root key, later a second) is kept across a long stream of valid blobs at hundreds of distinct L0 values, blobs
    with out-of-range positions for L0 values the cache already knows, bit-flipped blobs and garbage.  Every call must end
    in one of the allowed ways whatever the cache has accumulated."""
    import uuid as _uuid

    import dpapi_ng
    from vf.props import online

    rng = common.rng_for(ID, spec)
    loop = asyncio.new_event_loop()
    asyncio.set_event_loop(loop)
    try:
        rkid = _uuid.UUID(int=rng.getrandbits(128))
        rk = online.root_key(rng, rng.choice(common.HASHES), "DH")
        cache = dpapi_ng.KeyCache()
        online.load_into_cache(cache, rkid, rk)
        sids = [online.gen_sid(rng, n=k) for k in (1, 3, 5)]
        l0s: t.List[int] = []
        for i in range(spec["n"]):
            r = rng.random()
            if r < 0.55 or not l0s:
                l0 = 100 + len(l0s) if rng.random() < 0.7 or not l0s else rng.choice(l0s)
                if l0 not in l0s:
                    l0s.append(l0)
                data = online.ref_blob(rng, rkid, rk, rng.choice(sids[:1] if i % 3 else sids), (l0, rng.randrange(32), rng.randrange(32)), "nonce", b"s", in_envelope=rng.random() < 0.7, domain="s.test")
                label = f"session valid blob at L0 {l0}"
            elif r < 0.75:
                l0 = rng.choice(l0s)
                bad = rng.choice([(32, 0), (40, 3), (255, 255), (0, 32), (31, 2**31), (2**32 - 1, 0)])
                data = online.ref_blob(rng, rkid, rk, sids[0], (l0, 3, 3), "nonce", b"s", domain="s.test")
                data = mutate.with_position(data, l0, bad[0], bad[1]) if hasattr(mutate, "with_position") else data
                label = f"session out-of-range position {bad} at known L0 {l0}"
            elif r < 0.9:
                data = online.ref_blob(rng, rkid, rk, sids[0], (rng.choice(l0s), rng.randrange(32), rng.randrange(32)), "nonce", b"s", domain="s.test")
                data = mutate.flip(data, rng.randrange(len(data) * 8))
                label = "session bit flip"
            else:
                data = rng.randbytes(rng.choice([0, 1, 40, 300]))
                label = "session random bytes"
            execute(rec, cache, data, f"{label} (call {i}, {len(l0s)} L0s on the cache)", loop, "async" if i % 5 == 4 else "sync")
            rec.count("session_calls")
        rec.range("session_distinct_l0", len(l0s))
        rec.sample({"kind": "session on one cache", "calls": spec["n"], "distinct_l0": len(l0s)})
    finally:
        loop.close()


def run_random(spec, rec: Recorder):
    rng = common.rng_for(ID, spec)
    loop = asyncio.new_event_loop()
    asyncio.set_event_loop(loop)
    bases = mutate.base_blobs(spec["seed"])
    base = bases[rng.randrange(len(bases))]
    cache = mutate.offline_cache(base)
    try:
        for i in range(spec["n"]):
            k = i % 4
            if k == 0:
                data = rng.randbytes(rng.choice([0, 1, 2, 3, 10, 100, 1000, 5000]))
            elif k == 1:
                data = mutate.random_der_tree(rng)
            elif k == 2:
                data = b"\x30" + bytes([rng.randrange(256)]) + rng.randbytes(rng.randrange(0, 60))
            else:
                from vf.ref import der

                data = der.enc_seq(der.enc_oid("1.2.840.113549.1.7.3"), der.tlv(2, True, 0, mutate.random_der_tree(rng)))
            execute(rec, cache, data, "random", loop, modes(i), i % 101 == 0)
        rec.sample({"kind": "random bytes / random DER trees", "n": spec["n"], "example": data})
    finally:
        loop.close()


def run_scaling(spec, rec: Recorder):
    """'parser steps proportional to input size': inputs of the same shape at n and 4n elements; executed lines and
    CPU time (thread time, min of repeats, super-linear ratio must reproduce 4 times) may grow at most ~4x."""
    import time

    from dpapi_ng import _blob
    from vf.ref import cms, der

    base = mutate.base_blobs(spec["seed"], ["SHA256-nonce-envelope"])[0]
    p = cms.parse(base.blob)

    def many_recipients(n):
        kekid = der.enc_seq(der.enc_octets(p["key_identifier"]), der.enc_seq(der.enc_oid(cms.OID_MS_SW), p["descriptor_raw"]))
        ri = der.tlv(der.CONTEXT, True, 2, der.enc_int(4) + kekid + der.enc_seq(der.enc_oid(cms.OID_AES256_WRAP)) + der.enc_octets(p["enc_cek"]))
        env = der.enc_seq(der.enc_int(2), der.enc_set(*([ri] * n)), der.enc_seq(der.enc_oid(cms.OID_DATA), der.enc_seq(der.enc_oid(cms.OID_AES256_GCM), p["content_params"])))
        return der.enc_seq(der.enc_oid(cms.OID_ENVELOPED), der.tlv(der.CONTEXT, True, 0, env))

    def long_oid(n):
        oid = der.tlv(0, False, 6, b"\x2a" + b"\x01" * (40 * n))
        return der.enc_seq(oid, der.tlv(der.CONTEXT, True, 0, b""))

    def long_sid(n):
        sid = "S-1-5-" + "-".join(["7"] * 15) + "-" + "9" * 0
        desc = cms.protection_descriptor(sid + " " * (40 * n))
        return cms.build(p["key_identifier"], desc, p["enc_cek"], p["enc_content"], p["content_params"])

    def long_names(n):
        from vf.ref import gkdi as rg

        kid = rg.dec_key_identifier(p["key_identifier"])
        return cms.build(rg.enc_key_identifier(dict(kid, domain_name="d" * (20 * n), forest_name="f" * (20 * n))), p["descriptor_raw"], p["enc_cek"], p["enc_content"], p["content_params"])

    def big_content(n):
        return cms.build(p["key_identifier"], p["descriptor_raw"], p["enc_cek"], bytes(100 * n), p["content_params"])

    cache = mutate.offline_cache(base)
    import dpapi_ng

    targets = {
        "unpack/many-recipient-infos": (_blob.DPAPINGBlob.unpack, many_recipients),
        "unpack/long-oid": (_blob.DPAPINGBlob.unpack, long_oid),
        "unprotect/long-sid-string": (lambda d: dpapi_ng.ncrypt_unprotect_secret(d, cache=cache), long_sid),
        "unprotect/long-names": (lambda d: dpapi_ng.ncrypt_unprotect_secret(d, cache=cache), long_names),
        "unprotect/big-content": (lambda d: dpapi_ng.ncrypt_unprotect_secret(d, cache=cache), big_content),
    }

    def measure(fn, data):
        best = None
        for _ in range(spec["repeats"]):
            t0 = time.thread_time_ns()
            try:
                with mon.NET.guard():
                    fn(data)
            except BaseException:
                pass
            dt = time.thread_time_ns() - t0
            best = dt if best is None else min(best, dt)
        return best

    for name, (fn, build) in targets.items():
        small, big = build(250), build(1000)
        steps = []
        for data in (small, big):
            try:
                with mon.NET.guard(), mon.STEPS.measure(4000 + 60 * len(data)):
                    fn(data)
            except mon.StepBudgetExceeded as e:
                rec.violation("step-budget", f"scaling probe {name}: {len(data)}-byte input exceeded the linear budget at {e}", {"label": name, "len": len(data)})
            except BaseException:
                pass
            steps.append(mon.STEPS.n)
        ratio_len = len(big) / len(small)
        sr = steps[1] / max(1, steps[0])
        rec.range(f"step_ratio_x100[{name}]", int(100 * sr))
        if sr > 1.6 * ratio_len:
            rec.violation("superlinear-steps", f"{name}: input grew {ratio_len:.1f}x, executed lines grew {sr:.1f}x ({steps})", {"label": name})
        tries = []
        for attempt in range(4):
            r_ = measure(fn, big) / max(1, measure(fn, small))
            tries.append(round(r_, 2))
            if r_ <= 2.2 * ratio_len:
                break
        rec.range(f"cpu_ratio_x100[{name}]", int(100 * min(tries)))
        rec.count("scaling_probes")
        if len(tries) == 4 and min(tries) > 2.2 * ratio_len:
            rec.violation("superlinear-work", f"{name}: input grew {ratio_len:.1f}x but CPU time grew {tries}x in four independent measurements", {"label": name})
        rec.count("inputs_executed", 2)
        rec.case(("scaling", name), nontrivial=True, sample={"probe": name, "len_small": len(small), "len_big": len(big), "steps": steps, "cpu_ratio": tries})


def run_shard(spec, rec: Recorder):
    if not common.calibrate(rec, "der", "gkdi", "cms", "crypto"):
        return
    mon.KDFS.install()
    if spec["kind"] == "scaling":
        run_scaling(spec, rec)
        return
    {"flips": run_flips, "structural": run_structural, "keyid": run_keyid, "random": run_random, "session": run_session}[spec["kind"]](spec, rec)


def replay(body, rec: Recorder):
    w = body["witness"]
    mon.KDFS.install()
    if "hex" not in w.get("input", {}):
        rec.inconclusive_because("witness too large to embed: re-run shard " + body["shard"])
        return
    data = bytes.fromhex(w["input"]["hex"])
    label = w.get("label", "")
    bases = mutate.base_blobs(body["seed"])
    base = next((b for b in bases if label.startswith(b.name)), bases[0])
    loop = asyncio.new_event_loop()
    asyncio.set_event_loop(loop)
    try:
        execute(rec, mutate.offline_cache(base), data, label, loop, w.get("api", "sync"), False)
    finally:
        loop.close()
