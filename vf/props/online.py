"""Shared pieces for the properties that talk to the reference DC (C01, C10, C13, C15-C17, C19)."""
from __future__ import annotations

import random
import typing as t
import uuid

from vf.props import common
from vf.ref import cms, epm as repm, gkdi as rg, rpc as rrpc, sd as rsd
from vf.refdc.core import DCConfig, DCCore

ALGS = ["DH", "ECDH_P256", "ECDH_P384"]
CONFIGS = [(h, a) for h in common.HASHES for a in ALGS]  # 12 root key configurations; x {seed, public} policies

DH_PARAMS = rg.enc_ffc_dh_parameters(256, common.RFC5114_P, common.RFC5114_G)


def root_key_material(rng: random.Random) -> bytes:
    """msKds-RootKeyData is opaque bytes: mostly 64 random bytes, sometimes material that LOOKS like an encoding of
    something else (base64 / hex text of a 64-byte value, printable ASCII, all zero) - it is still the key, as given."""
    import base64

    r = rng.random()
    if r < 0.80:
        return rng.randbytes(64)
    if r < 0.87:
        return base64.b64encode(rng.randbytes(64))  # 88 printable bytes
    if r < 0.92:
        return rng.randbytes(64).hex().encode()  # 128 hex digits
    if r < 0.96:
        return bytes(rng.choice(b"ABCDEFGHIJKLMNOPQRSTUVWXYZabcdefghijklmnopqrstuvwxyz0123456789+/") for _ in range(64))
    return bytes(64)


def root_key(rng: random.Random, hash_name: str, alg: str) -> cms.RootKey:
    if alg == "DH":
        return cms.RootKey(root_key_material(rng), hash_name, "DH", DH_PARAMS, rng.choice([512, 512, 521, 264, 2048]), 2048)
    bits = 256 if alg.endswith("256") else 384
    return cms.RootKey(root_key_material(rng), hash_name, alg, b"", bits, bits)


def load_into_cache(cache, rkid: uuid.UUID, rk: cms.RootKey) -> None:
    cache.load_key(
        rk.key,
        rkid,
        kdf_parameters=rg.enc_kdf_parameters(rk.hash_name),
        secret_algorithm=rk.secret_algorithm,
        secret_parameters=rk.secret_parameters or None,
        private_key_length=rk.private_key_length,
        public_key_length=rk.public_key_length,
    )


def gen_sid(rng: random.Random, n: t.Optional[int] = None) -> str:
    n = n or rng.randrange(1, 16)
    return "S-1-%d-%s" % (rng.choice([5, 5, 0, 2**48 - 1]), "-".join(str(rng.choice([0, 2**32 - 1, 21, rng.randrange(2**32)])) for _ in range(n)))


PLAINTEXT_CLASSES = [0, 1, 15, 16, 17, 31, 32, 33, 127, 128, 255, 256, 4095, 4096, 4097, 65535, 65536, 65537]


def gen_plaintext(rng: random.Random, big_ok: bool = True) -> bytes:
    n = rng.choice(PLAINTEXT_CLASSES if big_ok else PLAINTEXT_CLASSES[:12])
    return rng.randbytes(n)


EXPECTED_MAP_TOWER = repm.tcpip_tower(rrpc.ISD_KEY, rrpc.NDR, 135, 0)
EXPECTED_VT = [(0x4002, rrpc.enc_syntax(rrpc.ISD_KEY) + rrpc.enc_syntax(rrpc.NDR64))]


def normalise(core: DCCore, since: int = 0) -> t.List[tuple]:
    """Transcript with tokens / ciphertext / signatures replaced by their decoded, structural form."""
    out = []
    for c in core.transcripts[since:]:
        for e in c.events:
            ev = e["event"]
            if ev in ("bind", "alter_context"):
                out.append((c.kind, ev, e["flags"], tuple((cid, a, tuple(ts)) for cid, a, ts in e["contexts"]), None if not e["auth"] else (e["auth"]["type"], e["auth"]["level"], e["auth"]["pad"], e["auth"]["ctx"]), e["token"] is not None and len(e["token"]) > 0))
            elif ev == "ept_map":
                out.append((c.kind, ev, e["ctx_id"], e["opnum"], e["auth"], bytes(e["stub"])))
            elif ev == "request":
                gk = e.get("getkey")
                out.append(
                    (
                        c.kind,
                        ev,
                        e["ctx_id"],
                        e["opnum"],
                        e["flags"],
                        None if not e["auth"] else (e["auth"]["type"], e["auth"]["level"], e["auth"]["pad"], e["auth"]["ctx"]),
                        e.get("sealed"),
                        None if gk is None else (gk["target_sd"], gk["root_key_id"], gk["l0"], gk["l1"], gk["l2"]),
                        None if e.get("vt") is None else tuple(e["vt"]),
                        bytes(e.get("plain_region", b"")),
                    )
                )
            else:
                out.append((c.kind, ev))
    return out


def check_conversation(core: DCCore, since: int, expect_getkey: tuple, auth_type: int, connect_log: t.Sequence[tuple], isd_port: int) -> t.List[t.Tuple[str, str]]:
    """Checks one GetKey conversation (EPM connection + ISD connection) in core.transcripts[since:].
    Returns [(mechanism, message)]."""
    bad: t.List[t.Tuple[str, str]] = []
    conns = core.transcripts[since:]
    if len(conns) != 2 or conns[0].kind != "epm" or conns[1].kind != "isd":
        return [("conversation-shape", f"expected one EPM then one ISD connection, saw {[c.kind for c in conns]}")]
    epm_c, isd_c = conns
    ev = epm_c.events
    if [e["event"] for e in ev] != ["bind", "ept_map"]:
        bad.append(("epm-sequence", f"EPM connection events {[e['event'] for e in ev]}"))
    else:
        b, m = ev
        # what the property fixes: the endpoint mapper is asked (ept_map, opnum 3, on a presentation context the server
        # accepted for the EPM interface) for the ISD_KEY interface over ncacn_ip_tcp.  Context ids, extra offered
        # contexts, the port / address placeholders inside the map tower etc. are the client's business.
        if not any(c[1] == rrpc.EPM and rrpc.NDR64 in c[2] for c in b["contexts"]):
            bad.append(("epm-bind", f"EPM bind offers no (EPM, NDR64) presentation context: {b['contexts']}"))
        if m["opnum"] != 3 or not m["bound"]:
            bad.append(("epm-request", f"ept_map opnum={m['opnum']} ctx={m['ctx_id']} bound={m['bound']}"))
        d = m.get("decoded")
        tw = d["tower"] if d else []
        if not d or len(tw) < 5 or tw[0] != EXPECTED_MAP_TOWER[0] or [f[0] for f in tw[1:5]] != [repm.PROTO_UUID, repm.PROTO_RPC_CO, repm.PROTO_TCP, repm.PROTO_IP]:
            bad.append(("epm-tower", f"map tower is not ISD_KEY v1.0 over ncacn_ip_tcp: {d}"))
    ev = isd_c.events
    names = [e["event"] for e in ev]
    if not names or names[0] != "bind" or names[-1] != "request" or any(n != "alter_context" for n in names[1:-1]):
        bad.append(("isd-sequence", f"ISD connection events {names}"))
        return bad
    b = ev[0]
    ctxs = [(c[0], c[1], c[2]) for c in b["contexts"]]
    if not any(c[1] == rrpc.ISD_KEY and rrpc.NDR64 in c[2] for c in ctxs):
        bad.append(("isd-bind-contexts", f"no (ISD_KEY, NDR64) presentation context offered: {ctxs}"))
    for e in ev[:-1]:
        if not e["auth"] or e["auth"]["type"] != auth_type or e["auth"]["level"] != 6:
            bad.append(("isd-auth-level", f"{e['event']} auth={e['auth']} expected type {auth_type} level 6 (PKT_PRIVACY)"))
    r = ev[-1]
    if r["opnum"] != 0 or not r["bound"]:
        bad.append(("isd-request-target", f"opnum={r['opnum']} ctx_id={r['ctx_id']} bound={r['bound']}"))
    if not r.get("auth") or r["auth"]["level"] != 6 or r["auth"]["type"] != auth_type:
        bad.append(("isd-auth-level", f"request auth={r.get('auth')}"))
    if not r.get("sealed") or r.get("wire_stub_equals_plain"):
        bad.append(("request-not-sealed", f"GetKey stub travelled in clear (sealed={r.get('sealed')}, unwrap_error={r.get('unwrap_error')})"))
    vt = r.get("vt")
    if not vt or not any((c & 0x3FFF) == 2 and v == EXPECTED_VT[0][1] for c, v in vt) or not vt[-1][0] & 0x4000:
        bad.append(("verification-trailer", f"verification trailer {vt} lacks PCONTEXT(ISD_KEY, NDR64) / END"))
    elif r.get("vt_offset") != r["getkey_consumed"] + (-r["getkey_consumed"] % 4):
        bad.append(("verification-trailer-offset", f"vt at {r.get('vt_offset')} but stub ends at {r['getkey_consumed']}"))
    gk = r.get("getkey")
    if gk is None:
        bad.append(("getkey-undecodable", f"{r.get('decode_error')}"))
    else:
        got = (gk["target_sd"], gk["root_key_id"], gk["l0"], gk["l1"], gk["l2"])
        if got != expect_getkey:
            bad.append(("getkey-arguments", f"GetKey({len(got[0])}B sd, {got[1]}, {got[2:]}) expected ({len(expect_getkey[0])}B sd, {expect_getkey[1]}, {expect_getkey[2:]}); sd equal: {got[0] == expect_getkey[0]}"))
    for c in conns:
        for ptype, flags, drep, call_id, ver in c.ev_headers:
            if ver != b"\x05\x00" or drep != rrpc.DREP_LE or (flags & 0x03) != 0x03:
                bad.append(("pdu-header-fields", f"{c.kind} PDU type {ptype}: version {ver.hex()} drep {drep.hex()} flags 0x{flags:02x} (a conforming server needs 5.0, little-endian/ASCII/IEEE for these stubs, unfragmented)"))
    ports = [p for (_, _, p) in connect_log]
    if ports != [135, isd_port]:
        bad.append(("ports-used", f"connections to ports {ports}, expected [135, {isd_port}]"))
    return bad


RFC5114_Q = int("8CF83642A709A097B447997640129DA299B1A47D1EB3750BA308B0FE64F5FBD3", 16)
_LZ_K: t.List[int] = []


def leading_zero_exponents() -> t.List[int]:
    """small k with g^k mod p (RFC 5114 2048/256) starting with a zero byte"""
    if not _LZ_K:
        v = 1
        for k in range(1, 6000):
            v = v * common.RFC5114_G % common.RFC5114_P
            if v < (1 << (8 * 255)):
                _LZ_K.append(k)
            if len(_LZ_K) >= 6:
                break
    return _LZ_K


def dh_ephemeral_for_leading_zero_secret(rng: random.Random, priv_server: int) -> int:
    """eph with (g^priv_server)^eph = g^k, k chosen so that the shared secret has a leading zero byte."""
    k = rng.choice(leading_zero_exponents())
    return k * pow(priv_server % RFC5114_Q, -1, RFC5114_Q) % RFC5114_Q


def lookalike_nonce(rng: random.Random) -> bytes:
    """A 32-byte nonce that happens to start like one of the public-key structures (legal: a nonce is any 32 bytes)."""
    magic = rng.choice([b"DHPB", b"DHPM", b"ECK1", b"ECK3", b"ECK5", b"KDSK"])
    return magic + rng.choice([(8).to_bytes(4, "little"), (12).to_bytes(4, "little"), (32).to_bytes(4, "little"), rng.randbytes(4)]) + rng.randbytes(24)


def server_private(rk: cms.RootKey, rkid: uuid.UUID, sid: str, pos: t.Tuple[int, int, int]) -> int:
    from vf.ref import crypto

    s = rsd.canonical_sid_from_string(sid)
    l2k = crypto.l2_key_single(rk.hash_name, rk.key, rkid, rsd.target_sd(s), *pos)
    return int.from_bytes(crypto.private_from_seed(rk.hash_name, l2k, rk.secret_algorithm, rk.private_key_length), "big")


def ref_blob(rng: random.Random, rkid: uuid.UUID, rk: cms.RootKey, sid: str, pos: t.Tuple[int, int, int], mode: str, plaintext: bytes, in_envelope: bool = True, domain: str = "verif.test", forest: t.Optional[str] = None, leading_zero_secret: bool = False, nonce: t.Optional[bytes] = None) -> bytes:
    """A blob as a Windows peer would emit it (reference crypto only). mode: 'nonce' | 'public'."""
    from vf.ref import crypto

    l0, l1, l2 = pos
    common_kw = dict(nonce=rng.randbytes(32) if nonce is None else nonce, cek=rng.randbytes(32), gcm_nonce=rng.randbytes(12), in_envelope=in_envelope, domain=domain, forest=domain if forest is None else forest)
    if mode == "nonce":
        return cms.reference_protect(plaintext, sid, rkid, rk, l0, l1, l2, **common_kw)
    s = rsd.canonical_sid_from_string(sid)
    l2k = crypto.l2_key_single(rk.hash_name, rk.key, rkid, rsd.target_sd(s), l0, l1, l2)
    priv_s = int.from_bytes(crypto.private_from_seed(rk.hash_name, l2k, rk.secret_algorithm, rk.private_key_length), "big")
    if rk.secret_algorithm == "DH":
        kl, p, g = rg.dec_ffc_dh_parameters(rk.secret_parameters)
        eph = rng.getrandbits(rk.private_key_length)
        if leading_zero_secret and p == common.RFC5114_P:
            eph = dh_ephemeral_for_leading_zero_secret(rng, priv_s)
        key_info = rg.enc_ffc_dh_key(kl, p, g, pow(g, eph, p))
        z = pow(pow(g, priv_s, p), eph, p).to_bytes(kl, "big")
        kek = crypto.kek_from_secret(rk.hash_name, z, "sha256")
    else:
        cname = "P256" if rk.secret_algorithm.endswith("256") else "P384"
        c = crypto.CURVES[cname]
        eph = rng.randrange(1, c.n)
        pub = c.mul(eph, c.gx, c.gy)
        ys = c.mul(priv_s, c.gx, c.gy)
        z = c.mul(eph, ys[0], ys[1])[0].to_bytes(c.size, "big")
        key_info = rg.enc_ecdh_key(cname, c.size, pub[0], pub[1])
        kek = crypto.kek_from_secret(rk.hash_name, z, crypto.CURVE_HASH[cname])
    return cms.reference_protect(plaintext, sid, rkid, rk, l0, l1, l2, public=dict(key_info=key_info, kek=kek), **common_kw)
