"""C20 - DC discovery asks the right SRV name and picks the best record.

Monitor: dns.resolver.resolve and dns.asyncresolver.resolve are replaced by a scripted resolver
that records (name, type, search) and returns a real dns.resolver.Answer built from text; the
record returned by lookup_dc / async_lookup_dc is compared with a direct min/max oracle.
"""
from __future__ import annotations

import asyncio
import itertools
import typing as t

from vf.core.framework import Recorder
from vf.props import common

ID = "C20"
LEVEL = "exploration"
RULE = (
    "all ordered answer sets of 1..K records over priority x weight in {0,1,2}^2 (K=4 quick, K=5 thorough: every multiset in every "
    "permutation), targets with/without trailing dot, random 16-bit values, domain given / None / empty; sync and async. distinct = "
    "(ordered records, domain, api); non-trivial = more than one record or no domain (the suite has no test of _dns.py)"
)
ASSUMPTIONS = [
    "dns.resolver.resolve / dns.asyncresolver.resolve are the library's DNS entry points (query counter must be > 0)",
    "ties between equally good records may be broken either way",
]

PREFIX = "_ldap._tcp.dc._msdcs"


def plan(tier, seed):
    k = 4 if tier == "quick" else 5
    combos = list(itertools.product(range(3), range(3)))  # (priority, weight)
    specs = []
    # shard by first record
    for i, first in enumerate(combos):
        specs.append({"name": f"exh-{i}", "kind": "exh", "first": list(first), "k": k})
    for i in range(4):
        specs.append({"name": f"rand-{i}", "kind": "rand", "n": 1500 if tier == "quick" else 20000})
    specs.append({"name": "api", "kind": "api"})
    return specs


def finalize(agg, tier):
    r = []
    for c in ("sync_queries", "async_queries", "selections_checked", "api_discovery_calls"):
        if agg.counter(c) == 0:
            r.append(f"monitor never reached: {c}")
    return r


class ScriptedDNS:
    def __init__(self):
        import dns.asyncresolver
        import dns.resolver

        self.queries: t.List[tuple] = []
        self.answer = None
        self._orig = (dns.resolver.resolve, dns.asyncresolver.resolve, dns.resolver.Resolver.resolve, dns.asyncresolver.Resolver.resolve)
        me = self

        # an implementation that builds its own Resolver object asks the same question: script that path too
        def m_resolve(self_, qname, rdtype="A", rdclass="IN", tcp=False, source=None, raise_on_no_answer=True, source_port=0, lifetime=None, search=None):
            me.queries.append(("sync", str(qname), str(getattr(rdtype, "name", rdtype)), self_.use_search_by_default if search is None else search))
            return me.make(str(qname))

        async def m_aresolve(self_, qname, rdtype="A", rdclass="IN", tcp=False, source=None, raise_on_no_answer=True, source_port=0, lifetime=None, search=None, backend=None):
            me.queries.append(("async", str(qname), str(getattr(rdtype, "name", rdtype)), self_.use_search_by_default if search is None else search))
            return me.make(str(qname))

        dns.resolver.Resolver.resolve = m_resolve
        dns.asyncresolver.Resolver.resolve = m_aresolve

        def resolve(qname, rdtype="A", rdclass="IN", tcp=False, source=None, raise_on_no_answer=True, source_port=0, lifetime=None, search=None):
            me.queries.append(("sync", str(qname), str(getattr(rdtype, "name", rdtype)), search))
            return me.make(str(qname))

        async def aresolve(qname, rdtype="A", rdclass="IN", tcp=False, source=None, raise_on_no_answer=True, source_port=0, lifetime=None, search=None, backend=None):
            me.queries.append(("async", str(qname), str(getattr(rdtype, "name", rdtype)), search))
            return me.make(str(qname))

        dns.resolver.resolve = resolve
        dns.asyncresolver.resolve = aresolve

    def restore(self):
        import dns.asyncresolver
        import dns.resolver

        dns.resolver.resolve, dns.asyncresolver.resolve, dns.resolver.Resolver.resolve, dns.asyncresolver.Resolver.resolve = self._orig

    def set_records(self, records):
        self.records = records
        self._cache = None

    def make(self, qname_text: str):
        import dns.message
        import dns.name
        import dns.rdataclass
        import dns.rdatatype
        import dns.resolver

        if self._cache is not None and self._cache[0] == qname_text:
            return self._cache[1]
        # when no domain was given the resolver would have appended a search domain
        full = qname_text if qname_text.count(".") > 3 else qname_text + ".search.example"
        q = dns.name.from_text(full.rstrip(".") + ".")
        lines = [f"id 1", "opcode QUERY", "rcode NOERROR", "flags QR RD RA", ";QUESTION", f"{q} IN SRV", ";ANSWER"]
        for prio, weight, port, target in self.records:
            lines.append(f"{q} 600 IN SRV {prio} {weight} {port} {target}")
        msg = dns.message.from_text("\n".join(lines))
        ans = dns.resolver.Answer(q, dns.rdatatype.SRV, dns.rdataclass.IN, msg)
        self._cache = (qname_text, ans)
        return ans


def same_dns_name(asked: str, want: str) -> bool:
    """DNS-level equality of the name asked and the name the property states: case-insensitive, IDNA form or Unicode form
    alike (a resolver converts either way); a trailing dot is only tolerated when a domain was given (the bare prefix must
    stay relative, or the search list would not apply)."""
    import dns.name

    if asked == want:
        return True
    try:
        a = dns.name.from_text(asked, origin=None)
        w = dns.name.from_text(want, origin=None)
    except Exception:
        return False
    if a.is_absolute() and want.count(".") > 3:
        a = a.relativize(dns.name.root)
    return a == w


def oracle(records, got) -> t.Optional[str]:
    """records: list of (prio, weight, port, target-as-served). got: SrvRecord."""
    best_p = min(r[0] for r in records)
    best_w = max(r[1] for r in records if r[0] == best_p)
    cands = [r for r in records if r[0] == best_p and r[1] == best_w]
    for prio, weight, port, target in cands:
        if (got.priority, got.weight, got.port, got.target) == (prio, weight, port, target.rstrip(".")):
            return None
    if got.target.endswith("."):
        return f"target still ends with a dot: {got.target!r}"
    return f"returned {tuple(got)} but best records are {cands}"


def check_case(rec: Recorder, dns_: ScriptedDNS, records, domain, loop, wit_extra=None) -> None:
    from dpapi_ng import _dns

    dns_.set_records(records)
    wit = {"records": [list(r) for r in records], "domain": domain}
    want_name = f"{PREFIX}.{domain}" if domain else PREFIX
    results = {}
    for api in ("sync", "async"):
        dns_.queries.clear()
        try:
            if api == "sync":
                got = _dns.lookup_dc(domain)
            else:
                got = loop.run_until_complete(_dns.async_lookup_dc(domain))
        except Exception as e:
            rec.violation(f"{api}-lookup-exception", f"{type(e).__name__}: {e}", dict(wit, api=api))
            continue
        rec.count(f"{api}_queries", len(dns_.queries))
        if not dns_.queries:
            rec.violation(f"{api}-query-count", "a record was returned without any query being issued", dict(wit, api=api))
            continue
        for kind, name, rdtype, search in dns_.queries:  # (a repeated identical query is a retry, not a wrong question)
            if kind != api:
                rec.count("lookup_through_other_resolver_flavour")  # (e.g. the async lookup running the blocking one on a thread: the property does not say how)
            if not same_dns_name(name, want_name) or rdtype.upper() != "SRV":
                rec.violation(f"{api}-query-name", f"queried ({name!r}, {rdtype}) expected ({want_name!r}, SRV)", dict(wit, api=api))
            if not domain and not search:
                rec.violation(f"{api}-search-list", f"no domain given but search={search!r}", dict(wit, api=api))
        m = oracle(records, got)
        rec.count("selections_checked")
        if m:
            rec.violation(f"{api}-selection", m, dict(wit, api=api))
        results[api] = tuple(got)
    if len(results) == 2 and results["sync"] != results["async"]:
        # both may legitimately differ only among tied best records; report only if the oracle accepted neither silently
        if oracle(records, type("R", (), dict(priority=results["sync"][3], weight=results["sync"][2], port=results["sync"][1], target=results["sync"][0]))()) is None:
            pass
    rec.case((tuple(records), domain), nontrivial=len(records) > 1 or not domain)


def run_shard(spec, rec: Recorder):
    rng = common.rng_for(ID, spec)
    dns_ = ScriptedDNS()
    loop = asyncio.new_event_loop()
    try:
        if spec["kind"] == "exh":
            combos = list(itertools.product(range(3), range(3)))
            first = tuple(spec["first"])
            n = 0
            for k in range(1, spec["k"] + 1):
                for rest in itertools.product(combos, repeat=k - 1):
                    recs = []
                    for i, (p, w) in enumerate((first,) + rest):
                        dot = "." if (n + i) % 2 else ""
                        recs.append((p, w, 389 + i, f"dc{i}.example.test{dot}"))
                    domain = ("example.test", None, "")[n % 3] if n % 5 == 0 else "example.test"
                    check_case(rec, dns_, recs, domain, loop)
                    n += 1
            rec.sample({"records": [list(r) for r in recs], "domain": domain})
            rec.mark_exhaustive(f"ordered answer sets of 1..{spec['k']} records over priority,weight in 0..2 starting with {first}")
        elif spec["kind"] == "rand":
            for i in range(spec["n"]):
                k = rng.randrange(1, 9)
                recs = []
                for j in range(k):
                    prio = rng.choice([0, 1, 65535, rng.randrange(65536), rng.randrange(3)])
                    weight = rng.choice([0, 1, 65535, rng.randrange(65536), rng.randrange(3)])
                    port = rng.choice([389, 0, 65535, rng.randrange(65536)])
                    target = rng.choice(["dc%d.corp.example." % j, "dc%d.corp.example" % j, "DC-%d.A.B.C.example." % j, "x%d." % j])
                    recs.append((prio, weight, port, target))
                domain = rng.choice(["corp.example", "a.b.c.d.example", None, "", "sub.corp.example.", "UPPER.Corp.Example", "xn--mller-kva.example", "_under.score.example", "a" * 63 + ".example"])
                check_case(rec, dns_, recs, domain, loop)
            # the same host several times (different services / ports / case / trailing dot), and key-collision shapes
            for i in range(max(30, spec["n"] // 10)):
                hosts = ["dc1.dup.example.", "DC1.dup.example.", "dc1.dup.example", "dc2.dup.example.", "dc3.dup.example."]
                recs = []
                for j in range(rng.randrange(2, 7)):
                    recs.append((rng.choice([0, 0, 1, 20, 65535]), rng.choice([0, 1, 100, 65535]), rng.choice([389, 3268, 636]), rng.choice(hosts)))
                check_case(rec, dns_, recs, "dup.example", loop)
                p0 = rng.choice([0, 1, 9, 100, 65533])
                shape = [(p0 + 1, 65535, 389, "worse.example."), (p0, 0, 389, "best.example.")]
                if rng.random() < 0.5:
                    shape.append((min(65535, p0 + 2), rng.randrange(65536), 389, "filler.example."))
                if rng.random() < 0.5:
                    shape.reverse()
                check_case(rec, dns_, shape, "adj.example", loop)
                rec.count("duplicate_host_and_adjacent_sets", 2)
            # large answer sets and unusual (but valid) targets
            for i in range(max(20, spec["n"] // 20)):
                k = rng.choice([6, 9, 30, 200])
                base_p = rng.choice([0, 1, 32767, 32768, 65535])
                recs = []
                for j in range(k):
                    prio = rng.choice([base_p, base_p, min(65535, base_p + 1), rng.randrange(65536)])
                    weight = rng.choice([0, 1, 32767, 32768, 65535, rng.randrange(65536)])
                    target = rng.choice(["DC%d.Corp.Example." % j, "dc-%d.xn--mller-kva.example." % j, "_x%d._y.example." % j, "a%d.b.c.d.e.f.g.example." % j, "dc%d.with\\.dot.example." % j])
                    recs.append((prio, weight, rng.choice([389, 636, 3268, 0, 65535]), target))
                check_case(rec, dns_, recs, rng.choice(["corp.example", None, "big.example"]), loop)
                rec.count("large_answer_sets")
            rec.sample({"records": [list(r) for r in recs], "domain": domain})
        else:
            run_api(rec, dns_, loop, rng)
    finally:
        loop.close()
        dns_.restore()


def run_api(rec: Recorder, dns_: ScriptedDNS, loop, rng) -> None:
    """The public API calls discovery when no server is given: the host it then connects to must
    be the chosen record's target."""
    import socket
    import uuid

    import dpapi_ng
    from vf.instruments import monitors as mon

    connects: t.List[tuple] = []

    class Stop(BaseException):
        pass

    from vf.instruments import transport as tr

    # the connection attempt itself is the observation: whichever API the client uses to open it ends in one of these
    # factories (socket.create_connection / asyncio.open_connection directly, anything else through the transport bridge)
    def sync_factory(host, port):
        connects.append(("sync", host, port))
        raise Stop()

    def async_factory(host, port):
        connects.append(("async", host, port))
        raise Stop()

    patch = tr.patched_connections(sync_factory, async_factory)
    patch.__enter__()
    try:
        cache = dpapi_ng.KeyCache()
        rkid = uuid.UUID(int=77)
        cache.load_key(b"\x07" * 64, rkid)
        blob = dpapi_ng.ncrypt_protect_secret(b"x", "S-1-5-18", root_key_identifier=rkid, cache=cache)
        from vf.props import online
        from vf.ref import cms

        rk = cms.RootKey(b"\x07" * 64, "SHA512")
        blobs = {
            "": blob,  # made offline: empty domain name -> bare prefix through the search list
            "child.verif.test": online.ref_blob(rng, rkid, rk, "S-1-5-18", (361, 1, 2), "nonce", b"x", domain="child.verif.test", forest="verif.test"),
            "other-tree.example": online.ref_blob(rng, rkid, rk, "S-1-5-18", (361, 1, 2), "nonce", b"x", domain="other-tree.example", forest="verif.test"),
        }
        for i in range(60):
            recs = [(rng.randrange(3), rng.randrange(3), 389, f"dc{j}.verif.test.") for j in range(rng.randrange(1, 5))]
            dns_.set_records(recs)
            best_p = min(r[0] for r in recs)
            best_w = max(r[1] for r in recs if r[0] == best_p)
            ok_hosts = {r[3].rstrip(".") for r in recs if r[0] == best_p and r[1] == best_w}
            blob_domain = list(blobs)[i % len(blobs)]
            blob = blobs[blob_domain]
            for api in ("sync", "async", "sync-protect", "async-protect"):
                connects.clear()
                dns_.queries.clear()
                try:
                    with mon.NET.guard():
                        if api == "sync":
                            dpapi_ng.ncrypt_unprotect_secret(blob, cache=dpapi_ng.KeyCache())
                        elif api == "async":
                            loop.run_until_complete(dpapi_ng.async_ncrypt_unprotect_secret(blob, cache=dpapi_ng.KeyCache()))
                        elif api == "sync-protect":
                            dpapi_ng.ncrypt_protect_secret(b"x", "S-1-5-18", domain_name="verif.test")
                        else:
                            loop.run_until_complete(dpapi_ng.async_ncrypt_protect_secret(b"x", "S-1-5-18", domain_name="verif.test"))
                except Stop:
                    pass
                except BaseException as e:
                    rec.violation("api-discovery-exception", f"{api}: {type(e).__name__}: {e}", {"records": recs, "api": api})
                    continue
                rec.count("api_discovery_calls")
                wit = {"records": [list(r) for r in recs], "api": api}
                if not dns_.queries or not connects:
                    rec.violation("api-discovery-missing", f"{api}: queries={dns_.queries} connects={connects}", wit)
                    continue
                want_domain = blob_domain if api in ("sync", "async") else "verif.test"  # unprotect looks up the blob's domain (not its forest)
                exp_q = f"{PREFIX}.{want_domain}" if want_domain else PREFIX
                for qn in {qq[1] for qq in dns_.queries}:
                    if not same_dns_name(qn, exp_q):
                        rec.violation("api-discovery-query", f"{api}: queried {qn!r}, expected {exp_q!r}", wit)
                if connects[0][1] not in ok_hosts or connects[0][2] != 135:
                    rec.violation("api-discovery-host", f"{api}: connected to {connects[0]} but best hosts are {ok_hosts} (port 135)", wit)
            rec.case(("api", tuple(recs)))
    finally:
        patch.__exit__(None, None, None)


def replay(body, rec: Recorder):
    w = body["witness"]
    dns_ = ScriptedDNS()
    loop = asyncio.new_event_loop()
    try:
        if "domain" in w:
            check_case(rec, dns_, [tuple(r) for r in w["records"]], w["domain"], loop)
        else:
            run_api(rec, dns_, loop, common.rng_for(ID, {"name": "api", "seed": body["seed"]}))
    finally:
        loop.close()
        dns_.restore()
