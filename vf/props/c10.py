"""C10 - KeyCache is transparent under any history/interleaving and avoids repeat RPCs.

Monitor: operation histories sharing one KeyCache are executed through the public API against the
in-memory reference DC.  Every operation carries a unique plaintext id (unambiguous histories).
Oracles: (1) the result of each call equals what a fresh cache would give (the known plaintext, a
blob the independent implementation decrypts to it, or 'not authorised'); (2) an executable
sequential model of the cache (DESIGN.md B.2) says which calls must not reach the DC, and the
DC's GetKey counter is compared with it; (3) a KDF-invocation budget per call (termination).
Concurrent async calls are released in every completion order through deferred DC replies.
"""
from __future__ import annotations

import asyncio
import contextlib
import itertools
import threading
import typing as t
import uuid

from vf.core.framework import Recorder
from vf.instruments import monitors as mon
from vf.instruments import transport as tr_
from vf.props import common, online
from vf.ref import cms, gkdi as rg, sd as rsd
from vf.refdc import frontends as fe
from vf.refdc.core import DCConfig, DCCore

ID = "C10"
LEVEL = "exploration"
RULE = (
    "histories over a 16-letter alphabet {load R1, load R2, unprotect blob@(R,SID,L0,p) for 9 coordinates spanning two L1s, 31-edges, two L0s, two SIDs "
    "and two root keys, protect now with/without root key id (2 SIDs), DC policy -> public / -> seed}: all histories to depth 3 (quick) / 4 (thorough) "
    "plus seeded random histories to depth 30 (and a stratified depth-4 sample in quick); schedules: k in 2..4 concurrent async calls on one loop "
    "sharing the cache, every completion order; 8 threads with a 1us switch interval. distinct = (history) or (call mix, completion order); "
    "non-trivial = the history contains an RPC-obtained envelope and a later cache hit or root-key load"
)
ASSUMPTIONS = [
    "cache model (B.2): a call on (root key, SD, L0) at position p is covered iff the root key was loaded or seed keys for p' >= p were obtained on that triple before the call started; public-key replies never cover",
    "the in-memory reference DC with a scripted security context stands in for the DC (the security context is not what is being decided here)",
    "termination is bounded by KDF invocations (<= 200 per API call): both known runaway loops call the KDF on every iteration",
]
KDF_BUDGET = 200
L0A, L0B = 361, 362
NOW = (L0B, 10, 10)
SID_A = "S-1-5-21-100-200-300-1104"
SID_B = "S-1-5-21-100-200-300-512"
B_TICKS = 360000000000
NOW_FT = (NOW[0] * 1024 + NOW[1] * 32 + NOW[2]) * B_TICKS + 12345

LETTERS = [
    ("load", 0),
    ("load", 1),
    ("U", 0, SID_A, L0A, (3, 2)),
    ("U", 0, SID_A, L0A, (5, 7)),
    ("U", 0, SID_A, L0A, (5, 0)),
    ("U", 0, SID_A, L0A, (31, 31)),
    ("U", 0, SID_A, L0A, (5, 31)),
    ("U", 0, SID_A, L0A, (0, 9)),
    ("U", 0, SID_A, L0B, (3, 2)),
    ("U", 0, SID_B, L0A, (5, 7)),
    ("U", 1, SID_A, L0A, (5, 7)),
    ("P", 0, SID_A, True),
    ("P", 0, SID_A, False),
    ("P", 0, SID_B, True),
    ("policy", "public"),
    ("policy", "seed"),
]


def plan(tier, seed):
    q = tier == "quick"
    specs = []
    depth = 3 if q else 4
    for first in range(len(LETTERS)):
        specs.append({"name": f"hist-{first}", "kind": "histories", "first": first, "depth": depth, "extra_random_depth4": 150 if q else 0})
    for i in range(4):
        specs.append({"name": f"random-{i}", "kind": "random", "n": 120 if q else 2500})
    specs.append({"name": "adjacent", "kind": "adjacent"})
    specs.append({"name": "async-orders", "kind": "async_orders", "kmax": 3 if q else 4})
    specs.append({"name": "threads", "kind": "threads", "rounds": 6 if q else 60})
    return specs


def finalize(agg, tier):
    r = []
    if agg.counter("completion_orders_forced") + agg.counter("completion_orders_not_forceable") == 0:
        r.append("monitor never reached: concurrent async scenarios")
    for c in ("calls_checked", "rpc_counts_compared", "covered_calls_without_rpc", "histories_with_rpc_then_hit", "thread_rounds", "yield_injections"):
        if agg.counter(c) == 0:
            r.append(f"monitor never reached: {c}")
    return r


def covers(have, p):
    return have is not None and (have[0] > p[0] or (have[0] == p[0] and have[1] >= p[1]))


class World:
    def __init__(self, spec: dict):
        self.rng = common.rng_for(ID, spec)
        r = common.rng_for(ID, {"name": "world", "seed": spec.get("seed", 0)})
        self.rkids = [uuid.UUID(int=r.getrandbits(128)), uuid.UUID(int=r.getrandbits(128))]
        self.rks = [online.root_key(r, "SHA512", "DH"), online.root_key(r, "SHA256", "ECDH_P256")]
        self.root_keys = dict(zip(self.rkids, self.rks))
        self.cfg = DCConfig(dict(self.root_keys), self.rkids[0], now=NOW, security="scripted")
        self.core = DCCore(self.cfg)
        self.sds = {s: rsd.target_sd(rsd.canonical_sid_from_string(s)) for s in (SID_A, SID_B, "S-1-5-21-100-200-300-9999")}
        self.uid = 0
        self.kw = dict(server="dc.verif.test", username="u", password="p", auth_protocol="ntlm")

    def blob(self, letter) -> t.Tuple[bytes, bytes]:
        _, ri, sid, l0, p = letter
        self.uid += 1
        pt = b"pt-%06d-" % self.uid + self.rng.randbytes(6)
        # every third blob was made in public-key mode (ephemeral key in the key identifier): for a caller the DC gives seed
        # keys to, that changes nothing about what is fetched, cached and covered
        mode = "public" if self.uid % 3 == 0 else "nonce"
        return online.ref_blob(self.rng, self.rkids[ri], self.rks[ri], sid, (l0,) + p, mode, pt, in_envelope=bool(self.uid % 2)), pt


class Model:
    """Executable sequential model of the cache (B.2)."""

    def __init__(self, w: World):
        self.w = w
        self.roots: t.Set[int] = set()
        self.have: t.Dict[tuple, tuple] = {}
        self.policy = "seed"

    def covered(self, ri: int, sid: str, l0: int, p: tuple) -> bool:
        return ri in self.roots or covers(self.have.get((ri, sid, l0)), p)

    def obtained(self, ri: int, sid: str, l0: int, p: tuple) -> None:
        k = (ri, sid, l0)
        if self.have.get(k) is None or p > self.have[k]:
            self.have[k] = p


def run_history(rec: Recorder, w: World, history: t.Sequence[tuple], label: str, loop=None, two_caches: bool = False) -> None:
    """Executes one history on a fresh shared cache; checks every call.  With two_caches the letters alternate
    (seeded) between two independent KeyCache objects, each with its own model: state must not leak between them."""
    import dpapi_ng

    caches = [dpapi_ng.KeyCache(), dpapi_ng.KeyCache()]
    models = [Model(w), Model(w)]
    cache, model = caches[0], models[0]
    w.cfg.policy = "seed"
    rpc_envelope_seen = False
    hit_after_rpc = False
    mem = fe.MemoryDC(w.core)
    wit_hist = [list(map(str, h)) for h in history]
    with mem.installed(), mon.CLOCK.at_ns(mon.filetime_to_ns(NOW_FT)):
        for idx, letter in enumerate(history):
            kind = letter[0]
            if two_caches:
                which = (idx * 7 + len(history)) % 3 % 2
                cache, model = caches[which], models[which]
                model.policy = w.cfg.policy
            if kind == "load":
                online.load_into_cache(cache, w.rkids[letter[1]], w.rks[letter[1]])
                model.roots.add(letter[1])
                if rpc_envelope_seen:
                    hit_after_rpc = True
                continue
            if kind == "policy":
                w.cfg.policy = letter[1]
                for m_ in models:
                    m_.policy = letter[1]
                continue
            before = w.core.getkey_count
            wit = {"history": wit_hist, "index": idx, "label": label, "two_caches": two_caches}
            use_async = loop is not None and (idx + len(history)) % 3 == 0
            mon.KDFS.n, mon.KDFS.limit = 0, KDF_BUDGET
            try:
                if kind == "U":
                    _, ri, sid, l0, p = letter
                    blob, pt = w.blob(letter)
                    cov = model.covered(ri, sid, l0, p)
                    if use_async:
                        out = ("ok", loop.run_until_complete(asyncio.wait_for(dpapi_ng.async_ncrypt_unprotect_secret(blob, cache=cache, **w.kw), 30)))
                    else:
                        out = ("ok", dpapi_ng.ncrypt_unprotect_secret(blob, cache=cache, **w.kw))
                else:
                    _, ri, sid, give = letter
                    l0, p = NOW[0], NOW[1:]
                    w.uid += 1
                    pt = b"pp-%06d" % w.uid
                    cov = give and model.covered(ri, sid, l0, p)
                    args = dict(root_key_identifier=w.rkids[ri] if give else None, cache=cache, **w.kw)
                    if use_async:
                        out = ("ok", loop.run_until_complete(asyncio.wait_for(dpapi_ng.async_ncrypt_protect_secret(pt, sid, **args), 30)))
                    else:
                        out = ("ok", dpapi_ng.ncrypt_protect_secret(pt, sid, **args))
            except mon.BudgetExceeded as e:
                rec.violation("cache-stale-setdefault" if model.roots else "call-did-not-terminate", f"{label}: op {idx} {letter}: {type(e).__name__} after {mon.KDFS.n} KDF calls (history {history})", wit)
                return
            except asyncio.TimeoutError:
                rec.inconclusive_because(f"watchdog: async op exceeded 30s in {history}")
                return
            except Exception as e:
                out = ("error", f"{type(e).__name__}: {e}")
            finally:
                mon.KDFS.limit = 1 << 62
            rpcs = w.core.getkey_count - before
            rec.count("calls_checked")
            rec.range("kdf_calls_per_api_call", mon.KDFS.n)
            # --- oracle 1: same result as with a fresh cache --------------------------------
            authorised = cov or model.policy == "seed"
            if kind == "U":
                if authorised:
                    if out != ("ok", pt):
                        rec.violation("cache-wrong-result", f"{label}: op {idx} {letter} returned {str(out)[:160]} instead of the plaintext (covered={cov}, history {history})", wit)
                elif out[0] == "ok":
                    rec.violation("unauthorised-unprotect-returned", f"{label}: op {idx} {letter}: DC gives only public keys and nothing covers, but unprotect returned", wit)
            else:
                if out[0] != "ok":
                    rec.violation("cache-wrong-result", f"{label}: op {idx} {letter} raised {out[1][:160]} (history {history})", wit)
                else:
                    try:
                        parsed = cms.parse(out[1])
                        dec = cms.reference_decrypt_parts(parsed, w.root_keys)
                        kid = dec["kid"]
                        if dec["plaintext"] != pt:
                            rec.violation("cache-wrong-result", f"{label}: op {idx} {letter}: blob does not decrypt to the plaintext with the reference implementation", wit)
                        if (kid["l0"], kid["l1"], kid["l2"]) != NOW:
                            rec.violation("protect-wrong-interval", f"{label}: op {idx} {letter}: blob names {(kid['l0'], kid['l1'], kid['l2'])}, now is {NOW}", wit)
                    except Exception as e:
                        rec.violation("cache-wrong-result", f"{label}: op {idx} {letter}: emitted blob unusable: {type(e).__name__}: {e}", wit)
            # --- oracle 2: RPC avoidance ------------------------------------------------------
            rec.count("rpc_counts_compared")
            rec.seen("getkey_counts_seen", rpcs)
            if cov:
                if rpcs != 0:
                    rec.violation("repeat-rpc", f"{label}: op {idx} {letter} contacted the DC {rpcs}x although covering seed material was already obtained (history {history})", wit)
                else:
                    rec.count("covered_calls_without_rpc")
                    if rpc_envelope_seen:
                        hit_after_rpc = True
            # --- model update ----------------------------------------------------------------
            if rpcs and model.policy == "seed" and out[0] == "ok":
                model.obtained(ri, sid, l0, p)
                rpc_envelope_seen = True
    if hit_after_rpc:
        rec.count("histories_with_rpc_then_hit")
    rec.case((label, tuple(map(str, history))), nontrivial=hit_after_rpc)


def run_histories(spec, rec: Recorder):
    mon.KDFS.install()
    w = World(spec)
    loop = asyncio.new_event_loop()
    asyncio.set_event_loop(loop)
    try:
        first = LETTERS[spec["first"]]
        n = 0
        for d in range(0, spec["depth"]):
            for rest in itertools.product(range(len(LETTERS)), repeat=d):
                h = [first] + [LETTERS[i] for i in rest]
                if h[-1][0] in ("load", "policy") and len(h) > 1 and d == spec["depth"] - 1:
                    continue  # a history ending with a non-call adds nothing over its prefix
                run_history(rec, w, h, "exh", loop)
                n += 1
        rec.mark_exhaustive(f"all histories of length <= {spec['depth']} starting with letter {spec['first']}")
        for _ in range(spec.get("extra_random_depth4", 0)):
            h = [first] + [LETTERS[w.rng.randrange(len(LETTERS))] for _ in range(3)]
            run_history(rec, w, h, "d4", loop)
        rec.sample({"first": str(first), "depth": spec["depth"], "histories": n, "example": [str(x) for x in h]})
    finally:
        loop.close()


SID_C = "S-1-5-21-100-200-300-9999"
L0C = 360


def random_letter(rng) -> tuple:
    """Letters outside the exhaustive alphabet: three L0s, three SIDs, positions biased to edges and to
    adjacent pairs such as (k,31) / (k+1,0)."""
    r = rng.random()
    if r < 0.08:
        return ("load", rng.randrange(2))
    if r < 0.14:
        return ("policy", rng.choice(["public", "seed"]))
    if r < 0.26:
        return ("P", 0, rng.choice([SID_A, SID_B, SID_C]), rng.random() < 0.7)
    l0 = rng.choice([L0A, L0A, L0B, L0C])
    k = rng.randrange(0, 31)
    p = rng.choice([(k, 31), (k + 1, 0), (k, 30), (k + 1, 1), (rng.randrange(32), rng.randrange(32)), (0, 0), (31, 31), (5, 7)])
    if l0 == L0B and p > NOW[1:]:
        p = (rng.randrange(0, NOW[1]), rng.randrange(32))
    return ("U", rng.choice([0, 0, 0, 1]), rng.choice([SID_A, SID_A, SID_B, SID_C]), l0, p)


def run_random(spec, rec: Recorder):
    mon.KDFS.install()
    w = World(spec)
    loop = asyncio.new_event_loop()
    asyncio.set_event_loop(loop)
    try:
        for i in range(spec["n"]):
            depth = w.rng.choice([5, 6, 8, 12, 20, 30])
            # bias: RPC-obtained envelopes first, root key load in the middle or late
            if i % 2:
                h = [w.rng.choice(LETTERS + [l for l in LETTERS if l[0] == "U"]) for _ in range(depth)]
            else:
                # few coordinates per history so that covering relations actually occur
                pool = [random_letter(w.rng) for _ in range(w.rng.choice([4, 6, 9]))]
                h = [w.rng.choice(pool) for _ in range(depth)]
                rec.count("extended_alphabet_histories")
            run_history(rec, w, h, "rand2" if i % 3 == 0 else "rand", loop, two_caches=(i % 3 == 0))
            if i % 3 == 0:
                rec.count("two_cache_histories")
        rec.sample({"kind": "random history", "depth": depth, "history": [str(x) for x in h]})
    finally:
        loop.close()


def run_adjacent(spec, rec: Recorder):
    """Every pair of adjacent positions around each L1 roll-over and around equality, in both orders, on one cache
    without a root key (seed keys come from the DC), followed by a protect whose clock sits in the second interval."""
    mon.KDFS.install()
    w = World(spec)
    loop = asyncio.new_event_loop()
    asyncio.set_event_loop(loop)
    n = 0
    try:
        for k in range(31):
            pairs = [((k, 31), (k + 1, 0)), ((k + 1, 0), (k, 31)), ((k, 30), (k, 31)), ((k, 31), (k, 30)), ((k, 31), (k, 31)), ((k + 1, 0), (k + 1, 1)), ((k + 1, 1), (k + 1, 0))]
            for a, b in pairs:
                for sid in ((SID_A,) if k % 5 else (SID_A, SID_B)):
                    h = [("U", 0, sid, L0A, a), ("U", 0, sid, L0A, b), ("U", 0, sid, L0A, a)]
                    run_history(rec, w, h, "adjacent", loop if k % 2 else None)
                    n += 1
        rec.mark_exhaustive("adjacent position pairs (k,31)/(k+1,0), (k,30)/(k,31), equality, (k+1,0)/(k+1,1) for k in 0..30, both orders")
        rec.sample({"kind": "adjacent", "histories": n, "example": [str(x) for x in h]})
    finally:
        loop.close()


# --- concurrent async calls, forced completion orders --------------------------------------
def run_async_orders(spec, rec: Recorder):
    import dpapi_ng

    mon.KDFS.install()
    w = World(spec)
    loop = asyncio.new_event_loop()
    asyncio.set_event_loop(loop)
    call_letters = [l for l in LETTERS if l[0] in ("U", "P") and l[1] == 0][:9]
    try:
        for k in range(2, spec["kmax"] + 1):
            mixes = list(itertools.combinations_with_replacement(range(len(call_letters)), k))
            if k >= 3:
                mixes = mixes[:: (3 if k == 3 else 11)]
            for mix in mixes:
                for order in itertools.permutations(range(k)):
                    for preload in (False, True) if k == 2 else (False,):
                        cache = dpapi_ng.KeyCache()
                        if preload:
                            online.load_into_cache(cache, w.rkids[1], w.rks[1])
                        w.cfg.policy = "seed"
                        mem = DeferringMemoryDC(w.core)
                        wit = {"mix": [str(call_letters[i]) for i in mix], "order": list(order), "preload_R2": preload}

                        async def scenario():
                            tasks = []
                            expected = []
                            for i in mix:
                                letter = call_letters[i]
                                if letter[0] == "U":
                                    blob, pt = w.blob(letter)
                                    tasks.append(asyncio.ensure_future(dpapi_ng.async_ncrypt_unprotect_secret(blob, cache=cache, **w.kw)))
                                    expected.append(("U", pt))
                                else:
                                    w.uid += 1
                                    pt = b"pa-%06d" % w.uid
                                    tasks.append(asyncio.ensure_future(dpapi_ng.async_ncrypt_protect_secret(pt, letter[2], root_key_identifier=w.rkids[0] if letter[3] else None, cache=cache, **w.kw)))
                                    expected.append(("P", pt))
                            # let every call run until it waits for its GetKey reply
                            # (the client hands provider steps to worker threads: progress is not a function of loop iterations
                            # alone, so after a burst of bare yields the gate waits in real time, under a generous watchdog)
                            uses0 = tr_.BRIDGE.uses
                            for spin in range(400 + 20000):
                                await asyncio.sleep(0 if spin < 400 else 0.001)
                                if len(mem.deferred) == k or tr_.BRIDGE.uses != uses0:
                                    break
                            if tr_.BRIDGE.uses != uses0:
                                # the client reached the scripted DC through the transport bridge (an API the in-memory stream
                                # does not intercept): replies cannot be held back there.  The calls still run concurrently, in
                                # whatever order the scheduler gives; results and coverage are judged as usual.
                                res = await asyncio.gather(*tasks, return_exceptions=True)
                                return res, expected, None
                            if len(mem.deferred) != k:
                                return None, expected, tasks
                            done_order = []
                            for j in order:
                                mem.release(j)
                                await asyncio.wait_for(asyncio.shield(tasks[j]), 30) if False else None
                                for spin in range(400 + 20000):
                                    await asyncio.sleep(0 if spin < 400 else 0.001)
                                    if tasks[j].done():
                                        break
                                done_order.append(j if tasks[j].done() else None)
                            res = await asyncio.gather(*tasks, return_exceptions=True)
                            return res, expected, done_order

                        with mem.installed(), mon.CLOCK.at_ns(mon.filetime_to_ns(NOW_FT)):
                            mon.KDFS.n, mon.KDFS.limit = 0, KDF_BUDGET * k
                            try:
                                res, expected, done_order = loop.run_until_complete(asyncio.wait_for(scenario(), 120))
                            except mon.BudgetExceeded as e:
                                rec.violation("call-did-not-terminate", f"concurrent calls {wit}: {e}", wit)
                                continue
                            except asyncio.TimeoutError:
                                rec.inconclusive_because(f"watchdog: concurrent scenario {wit}")
                                continue
                            finally:
                                mon.KDFS.limit = 1 << 62
                            if res is None:
                                rec.inconclusive_because(f"gate: not all {k} calls reached the DC ({len(mem.deferred)})")
                                continue
                            rec.count("completion_orders_forced" if done_order is not None else "completion_orders_not_forceable")
                            if done_order is not None and done_order != list(order):
                                rec.count("completion_order_not_as_forced")
                            for (kind, pt), r in zip(expected, res):
                                rec.count("calls_checked")
                                if isinstance(r, BaseException):
                                    rec.violation("cache-wrong-result", f"concurrent {wit}: a call raised {type(r).__name__}: {r}", wit)
                                elif kind == "U" and r != pt:
                                    rec.violation("cache-wrong-result", f"concurrent {wit}: unprotect returned different bytes", wit)
                                elif kind == "P" and cms.reference_unprotect(r, w.root_keys) != pt:
                                    rec.violation("cache-wrong-result", f"concurrent {wit}: protect blob does not decrypt with the reference implementation", wit)
                            # afterwards: a sequential call at or before every obtained position must be covered
                            before = w.core.getkey_count
                            mem2 = fe.MemoryDC(w.core)
                            with mem2.installed():
                                obtained = {}
                                for i in mix:
                                    letter = call_letters[i]
                                    if letter[0] == "U":
                                        key = (letter[1], letter[2], letter[3])
                                        obtained[key] = max(obtained.get(key, (0, 0)), letter[4])
                                for (ri, sid, l0), p in obtained.items():
                                    blob, pt = w.blob(("U", ri, sid, l0, p))
                                    try:
                                        out = dpapi_ng.ncrypt_unprotect_secret(blob, cache=cache, **w.kw)
                                    except Exception as e:
                                        out = f"{type(e).__name__}: {e}"
                                    rec.count("rpc_counts_compared")
                                    if out != pt:
                                        rec.violation("cache-wrong-result", f"after concurrent {wit}: follow-up unprotect at {p} gave {str(out)[:100]}", wit)
                                    elif w.core.getkey_count != before:
                                        rec.violation("repeat-rpc", f"after concurrent {wit}: follow-up unprotect at {p} contacted the DC again", wit)
                                        before = w.core.getkey_count
                                    else:
                                        rec.count("covered_calls_without_rpc")
                            rec.case(("async", mix, order, preload), nontrivial=True)
                            rec.seen("async_k", k)
        rec.sample({"kind": "concurrent async calls", "example": wit})
    finally:
        loop.close()


class DeferringMemoryDC(fe.MemoryDC):
    """GetKey replies are held back until the harness releases them (forced completion orders)."""

    def __init__(self, core):
        super().__init__(core)
        self.deferred: t.List[t.Tuple[t.Any, bytes]] = []
        self.released: t.Set[int] = set()

    def async_factory(self, host, port):
        from vf.instruments import transport as tr

        inner = self._handler(port)
        holder = {}

        def h(data):
            out = inner(data)
            if port != 135 and data[2:3] == b"\x00" and out:  # a Request on the ISD connection
                self.deferred.append((holder["st"], out))
                return []
            return out

        h.last = False
        st = tr.FakeStream(h, eof_after_each_reply=False)
        holder["st"] = st
        self.sockets.append(st)
        return st.reader, st.writer

    def release(self, j: int) -> None:
        st, chunks = self.deferred[j]
        st._pending.extend(chunks)
        st._kick()
        self.released.add(j)


# --- threads ------------------------------------------------------------------------------------
def run_threads(spec, rec: Recorder):
    import sys

    import dpapi_ng

    mon.KDFS.install()
    w = World(spec)
    old = sys.getswitchinterval()
    sys.setswitchinterval(1e-6)
    try:
        for rnd in range(spec["rounds"]):
            cache = dpapi_ng.KeyCache()
            w.cfg.policy = "seed"
            mem = fe.MemoryDC(w.core)
            jobs = []
            for ti in range(8):
                ops = []
                for _ in range(6):
                    letter = w.rng.choice([l for l in LETTERS if l[0] in ("U", "P") and l[1] == 0 and (l[0] == "U" or l[3])])
                    if letter[0] == "U":
                        blob, pt = w.blob(letter)
                        ops.append(("U", blob, pt))
                    else:
                        w.uid += 1
                        ops.append(("P", letter, b"pthr-%06d" % w.uid))
                jobs.append(ops)
            results: t.List[t.List] = [[] for _ in jobs]
            load_at = w.rng.randrange(0, 4)

            def worker(i):
                for j, op in enumerate(jobs[i]):
                    try:
                        if i == 0 and j == load_at:
                            online.load_into_cache(cache, w.rkids[0], w.rks[0])
                        if op[0] == "U":
                            results[i].append(dpapi_ng.ncrypt_unprotect_secret(op[1], cache=cache, **w.kw))
                        else:
                            results[i].append(dpapi_ng.ncrypt_protect_secret(op[2], op[1][2], root_key_identifier=w.rkids[0] if op[1][3] else None, cache=cache, **w.kw))
                    except BaseException as e:
                        results[i].append(e)

            inject = mon.YIELDS.active(seed=rnd, every=4) if rnd % 2 else contextlib.nullcontext()
            with mem.installed(), mon.CLOCK.at_ns(mon.filetime_to_ns(NOW_FT)), inject:
                ths = [threading.Thread(target=worker, args=(i,)) for i in range(8)]
                for th in ths:
                    th.start()
                for th in ths:
                    th.join(120)
                if any(th.is_alive() for th in ths):
                    rec.inconclusive_because("watchdog: worker thread still running after 120s")
                    return
            for i, ops in enumerate(jobs):
                for op, r in zip(ops, results[i]):
                    rec.count("calls_checked")
                    wit = {"round": rnd, "thread": i, "op": op[0]}
                    if isinstance(r, BaseException):
                        rec.violation("cache-wrong-result", f"threads: {op[0]} raised {type(r).__name__}: {r}", wit)
                    elif op[0] == "U" and r != op[2]:
                        rec.violation("cache-wrong-result", "threads: unprotect returned different bytes", wit)
                    elif op[0] == "P" and cms.reference_unprotect(r, w.root_keys) != op[2]:
                        rec.violation("cache-wrong-result", "threads: protect blob does not decrypt", wit)
            rec.count("thread_rounds")
            if rnd % 2:
                rec.count("yield_injections", mon.YIELDS.yields)
                rec.count("lines_under_yield_injection", mon.YIELDS.lines)
            rec.case(("threads", rnd), nontrivial=True)
        rec.sample({"kind": "threads", "threads": 8, "ops_per_thread": 6, "rounds": spec["rounds"], "switchinterval": 1e-6})
    finally:
        sys.setswitchinterval(old)


def run_shard(spec, rec: Recorder):
    if not common.calibrate(rec, "crypto", "gkdi", "sd", "cms", "rpc", "epm"):
        return
    try:
        steerable = common.clock_steerable()
    except Exception as e:  # a protect that fails offline is C01's finding; here it only means 'now' cannot be placed
        steerable = False
        rec.count("clock_probe_failed")
    if not steerable:
        rec.inconclusive_because("the code under test does not read a clock the harness can script: 'now' cannot be placed relative to the cached positions")
        return
    rec.count("clock_steerable_probe_ok")
    {"histories": run_histories, "random": run_random, "adjacent": run_adjacent, "async_orders": run_async_orders, "threads": run_threads}[spec["kind"]](spec, rec)


def replay(body, rec: Recorder):
    import ast

    w_ = body["witness"]
    if "history" in w_:
        mon.KDFS.install()
        w = World({"name": body["shard"], "seed": body["seed"]})
        h = [ast.literal_eval("(" + ", ".join(x) + ")") if False else _parse_letter(x) for x in w_["history"]]
        run_history(rec, w, h, "replay", None, two_caches=bool(w_.get("two_caches")))
    else:
        specs = {s["name"]: s for s in plan(body["tier"], body["seed"])}
        run_shard(dict(specs[body["shard"]], seed=body["seed"], tier=body["tier"]), rec)
        rec.violations[:] = [v for v in rec.violations if v["mechanism"] == body["mechanism"]][:3]


def _parse_letter(fields: t.Sequence[str]) -> tuple:
    import ast

    out = []
    for f in fields:
        try:
            out.append(ast.literal_eval(f))
        except Exception:
            out.append(f)
    return tuple(out)
