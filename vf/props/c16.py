"""C16 - key material is accepted only from replies sealed by the security context.

Monitor: the reference DC seals its GetKey replies with a *real* pyspnego NTLM (or SPNEGO)
acceptor and then tampers with its own reply in an enumerated way (security trailer stripped with an
attacker-chosen stub, every single-bit flip, length-field rewrites, replay).  The client (public
API and SyncRpcClient.request) must raise, or return exactly what the DC sealed.  For protect the
emitted blob is decrypted with the reference implementation under the DC's real root key and under
the attacker's root key: the latter succeeding means injected key material was used.
"""
from __future__ import annotations

import asyncio
import struct
import typing as t
import uuid

from vf.core.framework import Recorder
from vf.props import common, online
from vf.ref import cms, gkdi as rg, rpc as rrpc, sd as rsd
from vf.refdc import frontends as fe
from vf.refdc.core import DCConfig, DCCore

ID = "C16"
LEVEL = "fault_enumeration"
RULE = (
    "alterations of an authentic sealed GetKey reply (real NTLM / SPNEGO session keys on both sides): security trailer removed (auth_len 0) with an "
    "attacker-chosen stub (a valid envelope for an attacker-known root key, seed-key and public-key form) in protect and unprotect; every single-bit "
    "flip of the whole reply PDU (quick: all header / trailer / signature bits + every 8th body bit; thorough: all); pad_length / auth_len / frag_len / "
    "alloc_hint rewrites; replay of an earlier reply on the same connection; scripted context with header signing off for header/trailer flips. "
    "distinct = (tamper class, position, op, api); non-trivial = the client read the tampered reply (counted by the transport)"
    " Also: replies the DC legitimately fragments with attacker fragments substituted (tail / middle); request-level cases incl. empty and odd stubs without verification trailer; level / provider downgrade; unsealed extra fragments; stripped bind_ack verifier."
)
ASSUMPTIONS = [
    "pyspnego's NTLM is the genuine security context (Kerberos cannot be exercised offline)",
    "for header/trailer flips when header signing is not negotiated the allowed outcomes are {error, identical result}",
    "'uses injected key material' for protect = the emitted blob decrypts under the attacker's root key with the reference implementation",
]
FL = rrpc.PFC_FIRST | rrpc.PFC_LAST


def plan(tier, seed):
    q = tier == "quick"
    specs = []
    for sec in ("ntlm", "negotiate"):
        specs.append({"name": f"strip-{sec}", "kind": "strip", "security": sec})
    for i in range(10):
        specs.append({"name": f"flips-ntlm-{i}", "kind": "flips", "security": "ntlm", "part": i, "parts": 10, "body_stride": 8 if q else 1})
    specs.append({"name": "flips-negotiate", "kind": "flips", "security": "negotiate", "part": 0, "parts": 1, "body_stride": 64 if q else 4})
    specs.append({"name": "flips-scripted-nosign", "kind": "flips", "security": "scripted", "part": 0, "parts": 1, "body_stride": 16 if q else 1})
    specs.append({"name": "rewrites", "kind": "rewrites", "security": "ntlm"})
    specs.append({"name": "replay", "kind": "replay", "security": "ntlm"})
    specs.append({"name": "request-level-ntlm", "kind": "request_level", "security": "ntlm", "flip_stride": 16 if q else 1})
    specs.append({"name": "request-level-negotiate", "kind": "request_level", "security": "negotiate", "flip_stride": 64 if q else 4})
    return specs


def finalize(agg, tier):
    r = []
    for c in ("tampered_replies_read_by_client", "baseline_ok", "strip_cases", "bitflip_cases", "rewrite_cases", "replay_cases", "benign_or_rejected"):
        if agg.counter(c) == 0:
            r.append(f"monitor never reached: {c}")
    return r


class World:
    def __init__(self, rec: Recorder, spec: dict, alg: str = "ECDH_P256"):
        self.rec = rec
        rng = self.rng = common.rng_for(ID, spec)
        self.rkid = uuid.UUID(int=rng.getrandbits(128))
        self.rk = online.root_key(rng, "SHA256", alg)
        self.evil_rk = online.root_key(rng, "SHA256", alg)  # attacker-known root key (same id, different key)
        self.sec = spec["security"]
        self.cfg = DCConfig({self.rkid: self.rk}, self.rkid, security=self.sec, now=(361, 9, 13))
        self.core = DCCore(self.cfg)
        self.sid = "S-1-5-21-11-22-33-1105"
        self.pt = b"c16-secret-" + rng.randbytes(8)
        self.blob = online.ref_blob(rng, self.rkid, self.rk, self.sid, (361, 4, 5), "nonce", self.pt)
        self.loop = asyncio.new_event_loop()
        asyncio.set_event_loop(self.loop)
        self.kw = dict(server="dc.verif.test", username=fe.NTLM_USER, password=fe.NTLM_PASS, auth_protocol="negotiate" if self.sec == "negotiate" else "ntlm")
        self.last_reply: t.Optional[bytes] = None
        self.delivered = 0

    def close(self):
        self.loop.close()

    def call(self, op: str, api: str, tamper) -> t.Tuple[str, t.Any]:
        import dpapi_ng

        def recording_tamper(conn, out, info):
            new = tamper(conn, out, info)
            self.changed = new != out
            return new

        self.changed = False
        self.cfg.tamper = recording_tamper
        mem = fe.MemoryDC(self.core)
        try:
            with mem.installed(scripted_auth=(self.sec == "scripted")):
                if op == "unprotect":
                    if api == "sync":
                        return ("ok", dpapi_ng.ncrypt_unprotect_secret(self.blob, cache=dpapi_ng.KeyCache(), **self.kw))
                    return ("ok", self.loop.run_until_complete(asyncio.wait_for(dpapi_ng.async_ncrypt_unprotect_secret(self.blob, cache=dpapi_ng.KeyCache(), **self.kw), 30)))
                if api == "sync":
                    return ("ok", dpapi_ng.ncrypt_protect_secret(self.pt, self.sid, cache=dpapi_ng.KeyCache(), **self.kw))
                return ("ok", self.loop.run_until_complete(asyncio.wait_for(dpapi_ng.async_ncrypt_protect_secret(self.pt, self.sid, cache=dpapi_ng.KeyCache(), **self.kw), 30)))
        except asyncio.TimeoutError:
            self.rec.inconclusive_because("watchdog: async call exceeded 30s")
            return ("timeout", None)
        except Exception as e:
            return ("error", f"{type(e).__name__}: {e}")
        finally:
            self.cfg.tamper = None
            self.delivered = sum(len(s.sent) if hasattr(s, "sent") else 0 for s in mem.sockets)

    def judge(self, op: str, out, wit: dict, tamper_class: str, strict: bool = False) -> None:
        """strict: the alteration is covered by the security context (ciphertext, signature, or - when
        header signing is in effect - header / trailer), so acceptance with the same result is a violation too."""
        rec = self.rec
        kind, val = out
        if strict and self.changed and kind == "ok":
            same = (val == self.pt) if op == "unprotect" else True
            if same:
                rec.count("tampered_replies_read_by_client")
                rec.violation("altered-reply-accepted", f"{op} succeeded although the sealed reply was altered ({tamper_class}); the alteration is covered by the security context and must be rejected", wit)
                return
        if kind == "timeout":
            return
        rec.count("tampered_replies_read_by_client")
        if kind == "error":
            rec.count("benign_or_rejected")
            rec.seen("rejection_types", val.split(":")[0])
            return
        if op == "unprotect":
            if val == self.pt:
                rec.count("benign_or_rejected")
                rec.count("benign_accepted_same_result")
                if tamper_class == "strip":
                    rec.violation("cleartext-reply-accepted", "unprotect succeeded although the reply carried no security trailer", wit)
                return
            rec.violation("tampered-reply-used", f"unprotect returned different bytes after {tamper_class}: {val!r:.60}", wit)
            return
        # protect: who can decrypt the blob?
        try:
            parsed = cms.parse(val)
            real = cms.reference_decrypt_parts(parsed, {self.rkid: self.rk})["plaintext"]
            evil = cms.reference_decrypt_parts(parsed, {self.rkid: self.evil_rk})["plaintext"]
        except Exception as e:
            rec.violation("tampered-reply-used", f"protect returned an unparseable blob after {tamper_class}: {type(e).__name__}: {e}", wit)
            return
        if evil == self.pt:
            mech = "cleartext-reply-accepted" if tamper_class == "strip" else "tampered-reply-used"
            rec.violation(mech, f"protect after {tamper_class}: the blob decrypts under the ATTACKER's root key - injected key material was used", wit)
        elif real == self.pt:
            rec.count("benign_or_rejected")
            rec.count("benign_accepted_same_result")
            if tamper_class == "strip":
                rec.violation("cleartext-reply-accepted", "protect succeeded although the reply carried no security trailer", wit)
        else:
            rec.violation("tampered-reply-used", f"protect after {tamper_class}: blob decrypts under neither key (key material altered in transit was used)", wit)

    def evil_stub(self, request_stub_info: dict, form: str) -> bytes:
        """A valid GetKey response stub for the attacker-known root key."""
        evil_core = DCCore(DCConfig({self.rkid: self.evil_rk}, self.rkid, now=self.cfg.now, policy=form))
        gk = request_stub_info
        env, _ = evil_core.envelope(gk)
        return rg.enc_getkey_response(env, 0)


def baseline(w: World, rec: Recorder) -> bool:
    ok = True
    for op in ("unprotect", "protect"):
        for api in ("sync", "async"):
            captured = {}

            def keep(conn, out, info, captured=captured):
                captured["reply"] = out
                return out

            out = w.call(op, api, keep)
            good = out == ("ok", w.pt) if op == "unprotect" else (out[0] == "ok" and cms.reference_unprotect(out[1], {w.rkid: w.rk}) == w.pt)
            if not good:
                rec.inconclusive_because(f"baseline {op}/{api} over {w.sec} failed: {str(out)[:200]}")
                ok = False
            else:
                rec.count("baseline_ok")
            w.last_reply = captured.get("reply")
    return ok


def run_strip(spec, rec: Recorder):
    w = World(rec, spec)
    try:
        if not baseline(w, rec):
            return
        for op in ("unprotect", "protect"):
            for api in ("sync", "async"):
                for form in ("seed", "public"):
                    for variant in ("evil-envelope", "same-stub", "with-pad", "level-1", "level-2", "level-4", "level-5", "type-0", "prepend-unsealed-fragment", "prepend-unsealed-fragment-no-hresult", "append-unsealed-fragment", "stripped-bind-ack", "fragmented-legit", "fragmented-evil-tail", "fragmented-evil-tail-3", "fragmented-evil-middle", "challenge-flags-cleared", "mapper-names-port-135", "short-auth-1", "short-auth-8", "short-auth-15", "long-auth-17", "long-auth-32"):

                        if variant == "mapper-names-port-135" and w.sec == "negotiate":
                            # (a SPNEGO initiator that is handed empty server tokens re-emits its token: against this rogue
                            # endpoint the handshake never ends - a server-driven loop, not something C16 decides)
                            continue

                        def tamper(conn, out, info, form=form, variant=variant):
                            req = [e for e in conn.events if e["event"] == "request"][-1]["getkey"]
                            gk = dict(target_sd=req["target_sd"], root_key_id=req["root_key_id"], l0=req["l0"], l1=req["l1"], l2=req["l2"])
                            stub = w.evil_stub(gk, form) if variant != "same-stub" else info["stub"]
                            if variant.startswith("fragmented-"):
                                # the DC legitimately split its reply into individually sealed fragments (what a small
                                # max_recv_frag in the unprotected bind makes it do).  The attacker lets authentic fragments that
                                # carry only public data through and substitutes cleartext fragments (no security trailer) for
                                # the ones carrying key material: the envelope header of the attacker's own reply is
                                # byte-identical, so the pieces join up into the attacker's envelope
                                frags, pts = info.get("fragments"), info.get("cuts")
                                if not frags or variant == "fragmented-legit":
                                    return out
                                res = list(frags)
                                evil_idx = [len(frags) - 1] if "tail" in variant else [len(frags) // 2]
                                for k in evil_idx:
                                    piece = stub[pts[k] :] if k == len(frags) - 1 else stub[pts[k] : pts[k + 1]]
                                    fl = (rrpc.PFC_FIRST if k == 0 else 0) | (rrpc.PFC_LAST if k == len(frags) - 1 else 0)
                                    res[k] = rrpc.encode(dict(ptype=rrpc.RESPONSE, flags=fl, call_id=info["request"]["call_id"], auth=None, alloc_hint=len(piece), ctx_id=info["request"]["ctx_id"], cancel_count=0, stub=piece))
                                return b"".join(res)
                            if variant == "with-pad":
                                stub += b"\x00" * (-len(stub) % 16)
                            if variant.startswith(("prepend-", "append-")):
                                # the authentic reply is left untouched; one more, unauthenticated, Response PDU travels with it
                                # (a first / last fragment): nothing unauthenticated may end up in the stub
                                evil = stub[:-4] if variant.endswith("no-hresult") else stub
                                first = variant.startswith("prepend-")
                                frag = rrpc.encode(dict(ptype=rrpc.RESPONSE, flags=rrpc.PFC_FIRST if first else rrpc.PFC_LAST, call_id=info["request"]["call_id"], auth=None, alloc_hint=len(evil), ctx_id=info["request"]["ctx_id"], cancel_count=0, stub=evil))
                                return frag + out if first else out + frag
                            if variant == "stripped-bind-ack":
                                pass  # handled by the bind tamper below; the reply itself is the cleartext evil stub
                            if variant.startswith(("short-auth-", "long-auth-")):
                                # an authentic-looking PKT_PRIVACY trailer stays, but auth_len announces a signature of another
                                # size (shorter: a truncated copy; longer: zero-extended) and the attacker's cleartext stub sits
                                # where the ciphertext was: "has a trailer" must not be enough, the context has to verify it
                                k = int(variant.rsplit("-", 1)[1])
                                al = int.from_bytes(out[10:12], "little")
                                off = len(out) - al - 8
                                trailer = bytearray(out[off : off + 8])
                                padn = -len(stub) % 16
                                trailer[2] = padn
                                body = stub + b"\x00" * padn
                                sig = (out[off + 8 :] + bytes(k))[:k]
                                hdr = bytearray(out[:24])
                                hdr[8:10] = struct.pack("<H", 24 + len(body) + 8 + k)
                                hdr[10:12] = struct.pack("<H", k)
                                hdr[16:20] = struct.pack("<I", len(body))
                                return bytes(hdr) + body + bytes(trailer) + sig
                            if variant.startswith(("level-", "type-")):
                                # keep a security trailer (so 'no trailer' checks pass) but announce a weaker level /
                                # no provider, and put the attacker's cleartext stub where the ciphertext was
                                al = int.from_bytes(out[10:12], "little")
                                off = len(out) - al - 8
                                trailer = bytearray(out[off : off + 8])
                                if variant.startswith("level-"):
                                    trailer[1] = int(variant.split("-")[1])
                                else:
                                    trailer[0] = 0
                                padn = -len(stub) % 16
                                trailer[2] = padn
                                body = stub + b"\x00" * padn
                                hdr = bytearray(out[:24])
                                hdr[8:10] = struct.pack("<H", 24 + len(body) + 8 + al)
                                hdr[16:20] = struct.pack("<I", len(body))
                                return bytes(hdr) + body + bytes(trailer) + out[off + 8 :]
                            return rrpc.encode(dict(ptype=rrpc.RESPONSE, flags=FL, call_id=info["request"]["call_id"], auth=None, alloc_hint=len(stub), ctx_id=info["request"]["ctx_id"], cancel_count=0, stub=stub))

                        if variant == "mapper-names-port-135":
                            # the (unauthenticated) endpoint mapper reply names port 135 itself as the ISD_KEY endpoint, and
                            # whoever answers there speaks ISD_KEY without a security context and hands out its own envelope
                            from vf.ref import epm as _repm

                            w.cfg.epm_towers = lambda port: [_repm.tcpip_tower(rrpc.ISD_KEY, rrpc.NDR, 135, 0)]
                            w.cfg.rogue_isd_on_135 = True
                        if variant == "challenge-flags-cleared":
                            # a ROGUE server that does not hold the account's secret: it clears the sign / seal bits in the
                            # NTLM CHALLENGE it sends (so that the client's context ends up without message protection),
                            # waves the client's AUTHENTICATE through unverified and answers in clear with its own envelope.
                            # A client for which the property holds either refuses to go on or still demands a sealed reply.

                            def clear_flags(conn, ack, info):
                                m = rrpc.decode(ack)
                                tok = m["auth"]["token"] if m.get("auth") else None
                                if tok and tok[:8] == b"NTLMSSP\x00" and tok[8:12] == b"\x02\x00\x00\x00":
                                    fl = int.from_bytes(tok[20:24], "little") & ~(0x10 | 0x20 | 0x8000 | 0x40000000)
                                    m["auth"]["token"] = tok[:20] + fl.to_bytes(4, "little") + tok[24:]
                                    rec.count("ntlm_challenges_downgraded")
                                    return rrpc.encode(m)
                                return ack

                            w.cfg.tamper_bind = clear_flags
                            w.cfg.rogue_ignore_auth_failure = True
                        if variant == "stripped-bind-ack":
                            # two coordinated steps: the bind_ack loses its verifier (no server token), and whatever request
                            # follows is answered in clear with the attacker's envelope

                            def strip_ack(conn, ack, info):
                                m = rrpc.decode(ack)
                                m["auth"] = None
                                return rrpc.encode(m)

                            w.cfg.tamper_bind = strip_ack
                        if variant.startswith("fragmented-"):
                            # cut inside the public envelope header (first 64 bytes are NDR header, version, magic, flags, position, root key id)
                            w.cfg.reply_fragment_cuts = {"fragmented-legit": [48, 200], "fragmented-evil-tail": [64], "fragmented-evil-tail-3": [32, 64], "fragmented-evil-middle": [64, 100000]}[variant]
                            if variant == "fragmented-evil-middle":
                                w.cfg.reply_fragment_cuts = [64, 64 + 8 * 40]
                        try:
                            out = w.call(op, api, tamper)
                        finally:
                            w.cfg.tamper_bind = None
                            w.cfg.reply_fragment_cuts = None
                            w.cfg.rogue_ignore_auth_failure = False
                            w.cfg.rogue_isd_on_135 = False
                            if variant == "mapper-names-port-135":
                                w.cfg.epm_towers = None
                        ev = [e for c in w.core.transcripts[-1:] for e in c.events if e["event"] == "request"]
                        if ev and ev[-1].get("unsealed_on_auth_connection") and ev[-1].get("getkey") is not None:
                            rec.violation("request-sent-unsealed", f"{op}/{api}: after {variant} the client sent the GetKey request in clear on an authenticated connection", {"class": "strip", "op": op, "api": api, "variant": variant, "security": w.sec})
                        wit = {"class": "strip", "op": op, "api": api, "form": form, "variant": variant, "security": w.sec}
                        rec.count("strip_cases")
                        # an extra unauthenticated PDU *after* the authentic reply is never read: succeeding with the authentic
                        # result is correct there; in every other variant the authentic reply never reaches the client intact
                        if variant == "fragmented-legit":
                            # nothing was altered: a client without fragment support fails, one with it must get the right result
                            rec.count("legit_fragmented_replies")
                            w.judge(op, out, wit, "legitimately fragmented reply")
                        else:
                            w.judge(op, out, wit, "trailing unauthenticated PDU" if variant.startswith("append-") else "strip")
                        rec.case(("strip", op, api, form, variant, w.sec), sample=wit if (op, api, form, variant) == ("protect", "sync", "seed", "evil-envelope") else None)
    finally:
        w.close()


def flip_positions(n: int, auth_off: int, body_stride: int) -> t.List[int]:
    bits = []
    for bit in range(n * 8):
        byte = bit // 8
        if byte < 24 or byte >= auth_off or (bit - 24 * 8) % body_stride == 0:
            bits.append(bit)
    return bits


def run_flips(spec, rec: Recorder):
    w = World(rec, spec)
    try:
        if w.sec == "scripted":
            w.cfg.header_sign = False  # header/trailer not signed: flips there must be {error, identical result}
        if not baseline(w, rec):
            return
        ops = [("unprotect", "sync"), ("protect", "sync")]
        # learn the reply geometry for each op from a clean run
        for op, api in ops:
            cap = {}
            w.call(op, api, lambda conn, out, info, cap=cap: cap.setdefault("r", out) and out)
            reply = cap["r"]
            n = len(reply)
            auth_len = int.from_bytes(reply[10:12], "little")
            auth_off = n - auth_len - 8
            positions = flip_positions(n, auth_off, spec["body_stride"])
            mine = positions[spec["part"] :: spec["parts"]]
            for k, bit in enumerate(mine):
                a = "async" if k % 16 == 15 else "sync"

                def tamper(conn, out, info, bit=bit):
                    b = bytearray(out)
                    if bit // 8 < len(b):
                        b[bit // 8] ^= 1 << (bit % 8)
                    return bytes(b)

                out = w.call(op, a, tamper)
                region = "header" if bit // 8 < 24 else ("body" if bit // 8 < auth_off else ("trailer" if bit // 8 < auth_off + 8 else "signature"))
                wit = {"class": "bitflip", "op": op, "api": a, "bit": bit, "region": region, "security": w.sec, "reply_len": n}
                rec.count("bitflip_cases")
                rec.count(f"bitflip_{region}")
                # real NTLM signs header and trailer in every mode; the scripted context of this shard has header signing off
                strict = w.sec != "scripted" or region in ("body", "signature")
                w.judge(op, out, wit, f"bit flip {bit} ({region})", strict=strict)
                rec.case(("flip", op, bit, w.sec))
            rec.sample({"class": "bitflip", "op": op, "security": w.sec, "reply_len": n, "auth_offset": auth_off, "bits_in_this_shard": len(mine), "body_stride": spec["body_stride"]})
            if spec["body_stride"] == 1:
                rec.mark_exhaustive(f"every bit of the {n}-byte {op} reply ({w.sec}), shard part {spec['part']}/{spec['parts']}")
    finally:
        w.close()


def run_rewrites(spec, rec: Recorder):
    w = World(rec, spec)
    try:
        if not baseline(w, rec):
            return
        for op in ("unprotect", "protect"):
            for api in ("sync", "async"):
                cases = []
                for pad in list(range(0, 17)) + [32, 255]:
                    cases.append(("pad_length", pad))
                for al in (0, 1, 8, 15, 17, 32, 65535):
                    cases.append(("auth_len", al))
                for delta in (-16, -8, -1, 1, 8, 16):
                    cases.append(("frag_len", delta))
                for ah in (0, 1, 2**32 - 1):
                    cases.append(("alloc_hint", ah))
                for cut in (1, 8, 16, 24):
                    cases.append(("truncate", cut))
                cases += [("swap-body-blocks", 0), ("zero-signature", 0), ("auth-level", 5), ("auth-level", 2), ("auth-type", 9), ("ptype-fault", 0)]
                for field, val in cases:

                    def tamper(conn, out, info, field=field, val=val):
                        b = bytearray(out)
                        n = len(b)
                        al = int.from_bytes(b[10:12], "little")
                        off = n - al - 8
                        if field == "pad_length":
                            b[off + 2] = val
                        elif field == "auth_len":
                            b[10:12] = struct.pack("<H", val)
                        elif field == "frag_len":
                            b[8:10] = struct.pack("<H", n + val)
                        elif field == "alloc_hint":
                            b[16:20] = struct.pack("<I", val)
                        elif field == "truncate":
                            b = b[: n - val]
                            b[8:10] = struct.pack("<H", len(b))
                        elif field == "swap-body-blocks":
                            b[24:40], b[40:56] = b[40:56], b[24:40]
                        elif field == "zero-signature":
                            b[off + 8 :] = bytes(al)
                        elif field == "auth-level":
                            b[off + 1] = val
                        elif field == "auth-type":
                            b[off] = val
                        elif field == "ptype-fault":
                            b[2] = 3
                        return bytes(b)

                    out = w.call(op, api, tamper)
                    wit = {"class": "rewrite", "field": field, "value": val, "op": op, "api": api, "security": w.sec}
                    rec.count("rewrite_cases")
                    w.judge(op, out, wit, f"{field}={val}", strict=True)
                    rec.case(("rewrite", field, val, op, api), sample=wit if field == "pad_length" and val == 1 else None)
    finally:
        w.close()


def run_replay(spec, rec: Recorder):
    """Two requests on one authenticated connection; the second is answered with a replay of the first reply."""
    from dpapi_ng import _client as cl
    from dpapi_ng._rpc import _auth
    from dpapi_ng._rpc import _client as rc

    rng = common.rng_for(ID, spec)
    fe.ensure_ntlm_credentials()
    for sec in ("ntlm", "negotiate"):
        for mode in ("control", "replay", "replay-sync-seq"):
            rkid = uuid.UUID(int=rng.getrandbits(128))
            rk = online.root_key(rng, "SHA256", "ECDH_P256")
            cfg = DCConfig({rkid: rk}, rkid, security=sec, now=(361, 9, 13))
            core = DCCore(cfg)
            mem = fe.MemoryDC(core)
            state = {"replies": []}

            def tamper(conn, out, info, state=state, mode=mode):
                state["replies"].append(out)
                if mode != "control" and len(state["replies"]) == 2:
                    return state["replies"][0]
                return out

            cfg.tamper = tamper
            sock = mem.sync_factory("dc", cfg.isd_port)
            auth = _auth.AuthenticationProvider(fe.NTLM_USER, fe.NTLM_PASS, "dc.verif.test", sec)
            c = rc.SyncRpcClient(sock, auth)
            c.bind(cl._ISD_KEY_CONTEXTS)
            sd1 = rsd.target_sd(rsd.Sid(1, 5, (21, 1, 2, 3, 500)))
            sd2 = rsd.target_sd(rsd.Sid(1, 5, (21, 9, 9, 9, 501)))
            from dpapi_ng import _gkdi

            r1 = c.request(0, 0, _gkdi.GetKey(sd1, rkid, 361, 1, 1).pack(), verification_trailer=cl._VERIFICATION_TRAILER)
            wit = {"class": "replay", "security": sec, "mode": mode}
            try:
                r2 = c.request(0, 0, _gkdi.GetKey(sd2, rkid, 361, 2, 2).pack(), verification_trailer=cl._VERIFICATION_TRAILER)
                res = ("ok", r2.stub_data)
            except Exception as e:
                res = ("error", f"{type(e).__name__}: {e}")
            rec.count("replay_cases")
            rec.count("tampered_replies_read_by_client")
            ev = [e for e in core.transcripts[-1].events if e["event"] == "request"]
            sealed2 = None
            if len(ev) == 2:
                env2, _ = core.envelope(dict(ev[1]["getkey"]))
                sealed2 = rg.enc_getkey_response(env2, 0)
            if mode == "control":
                if res[0] != "ok" or sealed2 is None or res[1][: len(sealed2)] != sealed2:
                    rec.inconclusive_because(f"replay control run failed over {sec}: {str(res)[:200]}")
                else:
                    rec.count("baseline_ok")
            else:
                if res[0] == "ok":
                    if sealed2 is not None and res[1][: len(sealed2)] == sealed2:
                        rec.count("benign_or_rejected")
                    else:
                        rec.violation("replayed-reply-accepted", f"{sec}: the second request returned the replayed first reply's stub instead of raising", wit)
                else:
                    rec.count("benign_or_rejected")
            rec.case(("replay", sec, mode), sample=wit if mode == "replay" else None)


def rewrite_cases() -> t.List[t.Tuple[str, int]]:
    cases = [("pad_length", p) for p in list(range(0, 17)) + [32, 255]]
    cases += [("auth_len", a) for a in (0, 1, 8, 15, 17, 32, 65535)]
    cases += [("frag_len", d) for d in (-16, -8, -1, 1, 8, 16)]
    cases += [("alloc_hint", a) for a in (0, 1, 2**32 - 1)]
    cases += [("truncate", c) for c in (1, 8, 16, 24)]
    cases += [("swap-body-blocks", 0), ("zero-signature", 0), ("auth-level", 5), ("auth-level", 2), ("auth-level", 1), ("auth-type", 9), ("auth-type", 16), ("strip-trailer", 0), ("strip-trailer-keep-body", 0)]
    return cases


def apply_rewrite(out: bytes, field: str, val: int) -> bytes:
    b = bytearray(out)
    n = len(b)
    al = int.from_bytes(b[10:12], "little")
    off = n - al - 8
    if field == "pad_length":
        b[off + 2] = val
    elif field == "auth_len":
        b[10:12] = struct.pack("<H", val)
    elif field == "frag_len":
        b[8:10] = struct.pack("<H", (n + val) & 0xFFFF)
    elif field == "alloc_hint":
        b[16:20] = struct.pack("<I", val)
    elif field == "truncate":
        b = b[: n - val]
        b[8:10] = struct.pack("<H", len(b))
    elif field == "swap-body-blocks":
        b[24:40], b[40:56] = b[40:56], b[24:40]
    elif field == "zero-signature":
        b[off + 8 :] = bytes(al)
    elif field == "auth-level":
        b[off + 1] = val
    elif field == "auth-type":
        b[off] = val
    elif field == "strip-trailer":
        b = b[:off]
        b[8:10] = struct.pack("<H", len(b))
        b[10:12] = b"\x00\x00"
    elif field == "strip-trailer-keep-body":
        b[10:12] = b"\x00\x00"
    return bytes(b)


def run_request_level(spec, rec: Recorder):
    """SyncRpcClient / AsyncRpcClient.request() directly: whatever it returns without raising must be exactly
    the plaintext stub the DC sealed (the public API would mask a garbled stub behind a later decode error)."""
    from dpapi_ng import _client as cl
    from dpapi_ng import _gkdi
    from dpapi_ng._rpc import _auth
    from dpapi_ng._rpc import _client as rc

    rng = common.rng_for(ID, spec)
    sec = spec["security"]
    fe.ensure_ntlm_credentials()
    rkid = uuid.UUID(int=rng.getrandbits(128))
    rk = online.root_key(rng, "SHA256", "ECDH_P256")
    cfg = DCConfig({rkid: rk}, rkid, security=sec, now=(361, 9, 13))
    core = DCCore(cfg)
    sd1 = rsd.target_sd(rsd.Sid(1, 5, (21, 1, 2, 3, 500)))
    loop = asyncio.new_event_loop()
    asyncio.set_event_loop(loop)

    # requests other than GetKey too: the sealing of the reply must not depend on what the request looked like
    # (an empty stub, no verification trailer, ...); the reference DC answers those with a sealed fixed stub
    cfg.other_op_reply = b"other-operation-reply-" + bytes(range(7))
    REQUESTS = {"getkey": None, "empty": (b"", False), "empty+vt": (b"", True), "one-byte": (b"\x00", False), "sixteen": (bytes(16), False), "seventeen+vt": (bytes(17), True)}

    def one(tamper_fn, label: str, wit: dict, use_async: bool, req: str = "getkey") -> None:
        sealed = {}

        def tamper(conn, out, info):
            sealed["stub"] = info["stub"]
            new = tamper_fn(out)
            sealed["changed"] = new != out
            return new

        cfg.tamper = tamper
        mem = fe.MemoryDC(core)
        auth = _auth.AuthenticationProvider(fe.NTLM_USER, fe.NTLM_PASS, "dc.verif.test", sec)
        stub_req = _gkdi.GetKey(sd1, rkid, 361, 1, 1).pack()
        vt = cl._VERIFICATION_TRAILER
        if REQUESTS[req] is not None:
            stub_req, with_vt = REQUESTS[req]
            vt = cl._VERIFICATION_TRAILER if with_vt else None
            wit = dict(wit, request=req)
        try:
            if use_async:
                reader, writer = mem.async_factory("dc", cfg.isd_port)
                c = rc.AsyncRpcClient(reader, writer, auth)

                async def go():
                    await c.bind(cl._ISD_KEY_CONTEXTS)
                    return await c.request(0, 0, stub_req, verification_trailer=vt)

                resp = loop.run_until_complete(asyncio.wait_for(go(), 30))
            else:
                c = rc.SyncRpcClient(mem.sync_factory("dc", cfg.isd_port), auth)
                c.bind(cl._ISD_KEY_CONTEXTS)
                resp = c.request(0, 0, stub_req, verification_trailer=vt)
            res = ("ok", resp)
        except asyncio.TimeoutError:
            rec.inconclusive_because("watchdog: request-level async call exceeded 30s")
            return
        except Exception as e:
            res = ("error", f"{type(e).__name__}: {e}")
        finally:
            cfg.tamper = None
        rec.count("tampered_replies_read_by_client")
        rec.count("request_level_cases")
        if res[0] == "error":
            rec.count("benign_or_rejected")
            return
        resp = res[1]
        want = sealed.get("stub", b"")
        got = resp.stub_data
        pad = resp.sec_trailer.pad_length if resp.sec_trailer else 0
        if label == "control" and req != "getkey" and (got[: len(want)] != want or len(got) - len(want) > 255):
            rec.violation("reply-not-unsealed", f"request() with a {req} stub returned {len(got)} bytes that are not the plaintext the DC sealed ({sec}, {'async' if use_async else 'sync'})", wit)
        elif got[: len(want)] != want or len(got) - len(want) > 255 or (sealed.get("changed") and label != "control"):
            mech = "cleartext-reply-accepted" if label.startswith("strip") else "altered-reply-accepted"
            rec.violation(mech, f"request() [{req} stub] returned without raising after {label} ({sec}, {'async' if use_async else 'sync'}); stub equals what was sealed: {got[: len(want)] == want}", wit)
        else:
            rec.count("benign_or_rejected")

    try:
        one(lambda out: out, "control", {"class": "control"}, False)
        one(lambda out: out, "control", {"class": "control"}, True)
        if rec.violations:
            rec.inconclusive_because("request-level control run failed")
            return
        rec.count("baseline_ok")
        i = 0
        for req in REQUESTS:
            if req == "getkey":
                continue
            for use_async in (False, True):
                one(lambda out: out, "control", {"class": "control"}, use_async, req)
                for field, val in rewrite_cases():
                    if field.startswith("strip") or field in ("auth_len", "pad_length"):
                        one(lambda out, f=field, v=val: apply_rewrite(out, f, v), f"{'strip' if field.startswith('strip') else 'rewrite'} {field}={val}", {"class": "request-level", "field": field, "value": val, "async": use_async, "security": sec}, use_async, req)
                        rec.count("other_request_cases")
                one(lambda out: mutate_flip(out, 8 * 30 + 1), "bit flip in body", {"class": "request-level", "bit": 241, "security": sec}, use_async, req)
                rec.case(("rl-other", req, use_async, sec))
        for field, val in rewrite_cases():
            for use_async in (False, True):
                one(lambda out, f=field, v=val: apply_rewrite(out, f, v), f"{'strip' if field.startswith('strip') else 'rewrite'} {field}={val}", {"class": "request-level", "field": field, "value": val, "async": use_async, "security": sec}, use_async)
                rec.case(("rl", field, val, use_async, sec))
                rec.count("rewrite_cases")
        # bit flips
        probe = {}
        one(lambda out: probe.setdefault("r", out), "control", {"class": "control"}, False)
        n = len(probe["r"])
        al = int.from_bytes(probe["r"][10:12], "little")
        off = n - al - 8
        for bit in flip_positions(n, off, spec["flip_stride"]):
            i += 1
            one(lambda out, bit=bit: mutate_flip(out, bit), f"bit flip {bit}", {"class": "request-level", "bit": bit, "security": sec}, i % 7 == 0)
            rec.case(("rlflip", bit, sec))
            rec.count("bitflip_cases")
        rec.sample({"class": "request-level", "security": sec, "rewrites": len(rewrite_cases()), "reply_len": n, "flip_stride": spec["flip_stride"]})
    finally:
        loop.close()


def mutate_flip(out: bytes, bit: int) -> bytes:
    b = bytearray(out)
    if bit // 8 < len(b):
        b[bit // 8] ^= 1 << (bit % 8)
    return bytes(b)


def run_shard(spec, rec: Recorder):
    if not common.calibrate(rec, "rpc", "gkdi", "cms", "crypto"):
        return
    {"strip": run_strip, "flips": run_flips, "rewrites": run_rewrites, "replay": run_replay, "request_level": run_request_level}[spec["kind"]](spec, rec)


def replay(body, rec: Recorder):
    # tamper cases are cheap: re-run the shard that produced the witness and keep the matching mechanism
    shard = body["shard"]
    q = body["tier"] == "quick"
    specs = {s["name"]: s for s in plan(body["tier"], body["seed"])}
    spec = dict(specs[shard], seed=body["seed"], tier=body["tier"])
    run_shard(spec, rec)
    rec.violations[:] = [v for v in rec.violations if v["mechanism"] == body["mechanism"]][:3]
