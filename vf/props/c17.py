"""C17 - online vs a conforming DC: faithful requests, correct results, sync = async.

Monitor: the public API runs against the reference MS-GKDI/DCE-RPC DC (loopback TCP with the real
pyspnego NTLM / SPNEGO acceptor, and the in-memory front end for volume).  Every PDU is decoded at
the DC with the independent references; the GetKey arguments, sealing, auth level, verification
trailer, presentation contexts and the EPM conversation are checked; results are decrypted with
the independent implementation; the normalised sync and async transcripts are compared.
"""
from __future__ import annotations

import asyncio
import contextlib
import typing as t
import uuid

from vf.core.framework import Recorder
from vf.instruments import monitors as mon
from vf.props import common, online
from vf.props.c20 import ScriptedDNS, same_dns_name
from vf.ref import cms, gkdi as rg, sd as rsd
from vf.refdc import frontends as fe
from vf.refdc.core import DCConfig, DCCore

ID = "C17"
LEVEL = "exploration"
RULE = (
    "cases = (operation in {unprotect, protect}, hash x {DH, ECDH_P256, ECDH_P384} root key, DC policy in {seed keys, public key only}, blob "
    "position x DC-now position incl. L1/L2 boundaries and 31-edges, SID with 1..15 sub-authorities (every SD length residue), domain/forest "
    "name lengths 0..40 (reply residues), root key id given/not, server given / discovered through scripted DNS, security in {real NTLM over TCP, "
    "real SPNEGO over TCP, scripted context in memory}); each case is run through the sync and the async API. distinct = digest of the case tuple; "
    "non-trivial = all (the repository's suite never executes the online path)"
    " Also: ISD ports with 1..5 digits; 2-6 async calls in flight at once with independent caches (scripted and real NTLM)."
)
ASSUMPTIONS = [
    "the reference DC implements MS-GKDI 3.1.4.1 / MS-RPCE as transcribed in vf/refdc (its key material is calibrated: the reference decrypts the 16 Windows blobs)",
    "pyspnego's NTLM/SPNEGO acceptor is the genuine peer security context; Kerberos cannot be exercised offline",
    "transcripts are compared after replacing tokens, ciphertext and signatures by their decoded form",
]

POSITIONS = [(0, 0), (0, 31), (31, 0), (31, 31), (1, 0), (5, 7), (17, 8), (30, 31), (12, 30)]


def plan(tier, seed):
    q = tier == "quick"
    specs = []
    for i in range(8):
        specs.append({"name": f"tcp-ntlm-{i}", "kind": "online", "security": "ntlm", "n": 40 if q else 400})
    for i in range(4):
        specs.append({"name": f"tcp-negotiate-{i}", "kind": "online", "security": "negotiate", "n": 30 if q else 300})
    for i in range(4):
        specs.append({"name": f"mem-{i}", "kind": "online", "security": "scripted", "n": 300 if q else 2500})
    specs.append({"name": "concurrent-mem", "kind": "concurrent", "security": "scripted", "n": 40 if q else 600})
    specs.append({"name": "concurrent-ntlm", "kind": "concurrent", "security": "ntlm", "n": 8 if q else 80})
    return specs


def finalize(agg, tier):
    r = []
    for c in ("conversations_checked", "sync_async_transcripts_compared", "unprotect_results_checked", "protect_results_decrypted_by_reference", "getkey_decoded_at_dc", "dns_discoveries"):
        if agg.counter(c) == 0:
            r.append(f"monitor never reached: {c}")
    for s in ("ntlm", "negotiate", "scripted"):
        if agg.counter(f"security_{s}") == 0:
            r.append(f"security mode {s} never exercised")
    if agg.counter("policy_public") == 0 or agg.counter("policy_seed") == 0:
        r.append("a DC policy was never exercised")
    return r


def run_online(spec, rec: Recorder):
    import dpapi_ng

    rng = common.rng_for(ID, spec)
    security = spec["security"]
    keys = {}
    for h, a in online.CONFIGS:
        keys[(h, a)] = (uuid.UUID(int=rng.getrandbits(128)), online.root_key(rng, h, a))
    root_keys = {rkid: rk for rkid, rk in keys.values()}
    cfg = DCConfig(root_keys, next(iter(root_keys)), security=security)
    # the dynamic endpoint the mapper announces: ports with 1..5 digits (the bind_ack's secondary address string, and so its
    # padding, depends on the number of digits)
    idx = int(spec["name"].rsplit("-", 1)[1]) if spec["name"].rsplit("-", 1)[1].isdigit() else 0
    cfg.isd_port = [49668, 5001, 636, 88, 9, 65535, 1024, 10000][idx % 8]
    rec.seen("isd_port_digits", len(str(cfg.isd_port)))
    core = DCCore(cfg)
    dc = fe.TcpDC(core) if security != "scripted" else fe.MemoryDC(core)
    dns_ = ScriptedDNS()
    loop = asyncio.new_event_loop()
    asyncio.set_event_loop(loop)
    auth_protocol = {"ntlm": "ntlm", "negotiate": "negotiate", "scripted": "ntlm"}[security]
    auth_type = {"ntlm": 10, "negotiate": 9}[auth_protocol]
    try:
        with dc.installed():
            for i in range(spec["n"]):
                h, a = online.CONFIGS[(i + rng.randrange(12)) % 12]
                rkid, rk = keys[(h, a)]
                cfg.policy = "public" if i % 3 == 2 else "seed"
                cfg.default_root_key = rkid
                l0 = rng.choice([361, 361, 0, 2**31 - 1, rng.randrange(1000)])
                pos = rng.choice(POSITIONS + [(rng.randrange(32), rng.randrange(32))])
                nowp = rng.choice([pos, (31, 31), (pos[0], 31), (min(31, pos[0] + 1), 0), (rng.randrange(pos[0], 32), rng.randrange(32))])
                if nowp < pos:
                    nowp = pos
                cfg.now = (l0,) + nowp
                name_len = rng.randrange(0, 41) if i % 9 else rng.choice([63, 100, 200])
                cfg.domain = "" if name_len == 0 else ("d" * name_len if name_len < 3 else ".".join(["d" * 50] * (name_len // 51) + ["d" * max(1, name_len % 51 - 2)]) + ".t")
                if i % 11 == 5:
                    cfg.domain = rng.choice(["müller.example", "中文.example", "xn--mller-kva.example", "UPPER.Example"])
                cfg.forest = cfg.domain[: rng.randrange(0, name_len + 1)]
                cfg.l2_key_absent_at_31 = rng.random() < 0.3
                cfg.header_sign = rng.random() < 0.8
                cfg.reply_align = rng.choice([16, 16, 8, 4])
                # a DC under load may take its time: one case per TCP shard (quick: the first shard only) is answered after
                # 6 s - longer than any connect timeout the client may have set on its socket.  Both APIs must cope alike.
                cfg.reply_delay = 6.0 if (security != "scripted" and i in (3, 4) and (spec.get("tier") != "quick" or idx == 0)) else 0.0
                if cfg.reply_delay:
                    rec.count("slow_dc_cases")
                sid = online.gen_sid(rng, n=1 + (i % 15))
                op = "protect" if i % 4 == 3 else "unprotect"
                use_dns = i % 5 == 0
                give_rkid = rng.random() < 0.5
                pt = online.gen_plaintext(rng, big_ok=False)
                case = dict(i=i, op=op, hash=h, alg=a, policy=cfg.policy, l0=l0, pos=pos, now=nowp, sid=sid, name_len=name_len, dns=use_dns, rkid_given=give_rkid, security=security, align=cfg.reply_align, l2_absent=cfg.l2_key_absent_at_31, header_sign=cfg.header_sign)
                rec.count(f"security_{security}")
                rec.count(f"policy_{cfg.policy}")
                rec.seen("sd_len_mod8", len(rsd.target_sd(rsd.canonical_sid_from_string(sid))) % 8)
                kw = dict(username=fe.NTLM_USER, password=fe.NTLM_PASS, auth_protocol=auth_protocol)
                host = "dc%02d.%s" % (i % 7, (cfg.domain if cfg.domain.isascii() else "") or "nodomain.test")
                if use_dns:
                    dns_.set_records([(0, 100, 389, host + "."), (1, 200, 389, "other.example.")])
                else:
                    kw["server"] = host
                sd_bytes = rsd.target_sd(rsd.canonical_sid_from_string(sid))
                if op == "unprotect":
                    mode = "public" if rng.random() < 0.4 else "nonce"
                    lz = mode == "public" and a == "DH" and i % 2 == 0
                    if lz:
                        rec.count("leading_zero_dh_secret_blobs")
                    lookalike = online.lookalike_nonce(rng) if (mode == "nonce" and i % 6 == 1) else None
                    if lookalike:
                        rec.count("lookalike_nonce_blobs")
                    blob = online.ref_blob(rng, rkid, rk, sid, (l0,) + pos, mode, pt, in_envelope=rng.random() < 0.7, domain=cfg.domain, forest="forest-root.example" if i % 2 else cfg.forest, leading_zero_secret=lz, nonce=lookalike)
                    expect_gk = (sd_bytes, rkid, l0, pos[0], pos[1])
                    call_sync = lambda: dpapi_ng.ncrypt_unprotect_secret(blob, cache=dpapi_ng.KeyCache(), **kw)  # noqa: E731
                    call_async = lambda: dpapi_ng.async_ncrypt_unprotect_secret(blob, cache=dpapi_ng.KeyCache(), **kw)  # noqa: E731
                    case["blob_mode"] = mode
                else:
                    expect_gk = (sd_bytes, rkid if give_rkid else None, -1, -1, -1)
                    pkw = dict(kw)
                    if use_dns:
                        pkw["domain_name"] = cfg.domain or None
                    call_sync = lambda: dpapi_ng.ncrypt_protect_secret(pt, sid, root_key_identifier=rkid if give_rkid else None, cache=dpapi_ng.KeyCache(), **pkw)  # noqa: E731
                    call_async = lambda: dpapi_ng.async_ncrypt_protect_secret(pt, sid, root_key_identifier=rkid if give_rkid else None, cache=dpapi_ng.KeyCache(), **pkw)  # noqa: E731
                results = {}
                transcripts = {}
                forced = None
                if op == "protect" and cfg.policy == "public" and a == "DH" and i % 2 == 1:
                    # steer the library's ephemeral DH key so that the shared secret starts with a zero byte
                    nbytes = -(-rk.private_key_length // 8)
                    if nbytes >= 32 and nbytes != 32:
                        forced = {nbytes: [online.dh_ephemeral_for_leading_zero_secret(rng, online.server_private(rk, rkid, sid, cfg.now)).to_bytes(nbytes, "big") for _ in range(2)]}
                        rec.count("leading_zero_dh_secret_protects")
                for api, call in (("sync", call_sync), ("async", call_async)):
                    since = len(core.transcripts)
                    dc.connect_log.clear()
                    dns_.queries.clear()
                    import time as _time

                    t_start = _time.monotonic()
                    try:
                        with mon.NET.guard(allow_loopback=True), (mon.ENTROPY.record(forced) if forced else contextlib.nullcontext()):
                            out = call() if api == "sync" else loop.run_until_complete(asyncio.wait_for(call(), 60))
                        results[api] = ("ok", out)
                    except TimeoutError as e:
                        # (asyncio.TimeoutError, socket.timeout and TimeoutError are one class: only a timeout after the
                        # watchdog's 60 s is the watchdog's; anything earlier was raised by the client itself)
                        if api == "async" and _time.monotonic() - t_start >= 59:
                            rec.inconclusive_because(f"watchdog: async call did not finish in 60s: {case}")
                            results[api] = ("timeout", None)
                            continue
                        results[api] = ("error", f"{type(e).__name__}: {e}")
                    except BaseException as e:
                        results[api] = ("error", f"{type(e).__name__}: {e}")
                    if security != "scripted":
                        # give the server thread time to log the close (events are appended before replies are sent)
                        pass
                    wit = dict(case, api=api)
                    if use_dns:
                        rec.count("dns_discoveries")
                        exp_q = "_ldap._tcp.dc._msdcs" + ("." + cfg.domain if cfg.domain else "")
                        if not dns_.queries or any(not same_dns_name(qq[1], exp_q) for qq in dns_.queries):
                            rec.violation("dns-query", f"{api}: DNS queries {dns_.queries}, expected SRV lookups for {exp_q} only", wit)
                        if dc.connect_log and dc.connect_log[0][1] != host:
                            rec.violation("dns-host", f"{api}: connected to {dc.connect_log[0]} but discovery chose {host}", wit)
                    elif dc.connect_log and any(hh != host for (_, hh, _) in dc.connect_log):
                        rec.violation("server-host", f"{api}: connected to {dc.connect_log} but server={host}", wit)
                    for mech, msg in online.check_conversation(core, since, expect_gk, auth_type, list(dc.connect_log), cfg.isd_port):
                        rec.violation(mech, f"{api} {op}: {msg}", wit)
                    rec.count("conversations_checked")
                    rec.count("getkey_decoded_at_dc", sum(1 for c in core.transcripts[since:] for e in c.events if e["event"] == "request" and e.get("getkey")))
                    transcripts[api] = online.normalise(core, since)
                    # result oracle
                    kind, val = results[api]
                    if op == "unprotect":
                        rec.count("unprotect_results_checked")
                        if cfg.policy == "seed":
                            if kind != "ok" or val != pt:
                                rec.violation("unprotect-result", f"{api}: expected the plaintext, got {kind} {str(val)[:200]}", wit)
                        elif kind == "ok":
                            rec.violation("unprotect-unauthorised-returned", f"{api}: DC returned only the public key but unprotect returned {str(val)[:80]}", wit)
                    else:
                        if kind != "ok":
                            rec.violation("protect-failed", f"{api}: {val}", wit)
                        else:
                            try:
                                parsed = cms.parse(val)
                                kid = rg.dec_key_identifier(parsed["key_identifier"])
                                dec = cms.reference_decrypt_parts(parsed, root_keys)
                                rec.count("protect_results_decrypted_by_reference")
                                if dec["plaintext"] != pt:
                                    rec.violation("protect-result-undecryptable", f"{api}: blob does not decrypt to the plaintext with the reference implementation (kek ok={dec['kek'] is not None}, cek ok={dec['cek'] is not None})", dict(wit, blob=val))
                                if (kid["l0"], kid["l1"], kid["l2"]) != cfg.now or kid["root_key_identifier"] != rkid or bool(kid["flags"] & 1) != (cfg.policy == "public"):
                                    rec.violation("protect-key-identifier", f"{api}: key identifier {(kid['l0'], kid['l1'], kid['l2'], kid['flags'])} vs DC now {cfg.now} policy {cfg.policy}", wit)
                                if (kid["domain_name"], kid["forest_name"]) != (cfg.domain, cfg.forest):
                                    rec.violation("protect-names", f"{api}: names {(kid['domain_name'], kid['forest_name'])} vs {(cfg.domain, cfg.forest)}", wit)
                            except Exception as e:
                                rec.violation("protect-result-unparseable", f"{api}: {type(e).__name__}: {e}", dict(wit, blob=val))
                if len(transcripts) == 2:
                    rec.count("sync_async_transcripts_compared")
                    if transcripts["sync"] != transcripts["async"]:
                        d = next((k for k, (x, y) in enumerate(zip(transcripts["sync"], transcripts["async"])) if x != y), min(len(transcripts["sync"]), len(transcripts["async"])))
                        rec.violation("sync-async-transcript", f"{op}: transcripts differ at event {d}: {str(transcripts['sync'][d:d+1])[:300]} vs {str(transcripts['async'][d:d+1])[:300]}", case)
                    ks, ka = results["sync"][0], results["async"][0]
                    if ks != ka or (op == "unprotect" and results["sync"] != results["async"]):
                        rec.violation("sync-async-result", f"{op}: sync {str(results['sync'])[:120]} vs async {str(results['async'])[:120]}", case)
                rec.case(tuple(sorted((k, str(v)) for k, v in case.items())), sample=dict(case, transcript=[str(x)[:300] for x in transcripts.get("sync", [])]) if i < 1 else None)
        if security != "scripted" and dc.errors:
            rec.inconclusive_because(f"reference DC thread error: {dc.errors[0][-300:]}")
    finally:
        loop.close()
        dns_.restore()
        if hasattr(dc, "close"):
            dc.close()


def run_concurrent(spec, rec: Recorder):
    """Several async calls in flight at once against one DC (independent callers: each has its own cache): blobs of the same
    (root key, SID, L0) at different positions, blobs of other SIDs / L0s, and protect calls in between.  Each call must
    end as it does alone; the DC must have been asked for a key that covers each blob's position under that blob's SD."""
    import dpapi_ng

    rng = common.rng_for(ID, spec)
    security = spec["security"]
    rkid = uuid.UUID(int=rng.getrandbits(128))
    rk = online.root_key(rng, rng.choice(common.HASHES), "DH")
    cfg = DCConfig({rkid: rk}, rkid, security=security, now=(362, 31, 31))
    core = DCCore(cfg)
    dc = fe.TcpDC(core) if security != "scripted" else fe.MemoryDC(core)
    loop = asyncio.new_event_loop()
    asyncio.set_event_loop(loop)
    kw = dict(server="dc.c17.test", username=fe.NTLM_USER, password=fe.NTLM_PASS, auth_protocol="ntlm")
    try:
        with dc.installed():
            for rnd in range(spec["n"]):
                k = rng.choice([2, 3, 4, 6])
                sid_main = online.gen_sid(rng, n=3)
                l0_main = rng.choice([361, 362])
                calls, expect = [], []
                for j in range(k):
                    same = rng.random() < 0.75
                    sid = sid_main if same else online.gen_sid(rng, n=2 + j)
                    l0 = l0_main if rng.random() < 0.85 else 360
                    pos = (rng.randrange(32), rng.randrange(32))
                    pt = b"conc-%d-%d-" % (rnd, j) + rng.randbytes(5)
                    if rng.random() < 0.85:
                        blob = online.ref_blob(rng, rkid, rk, sid, (l0,) + pos, "nonce", pt, domain=cfg.domain)
                        calls.append(lambda blob=blob: dpapi_ng.async_ncrypt_unprotect_secret(blob, cache=dpapi_ng.KeyCache(), **kw))
                        expect.append(("U", pt, sid, l0, pos))
                    else:
                        calls.append(lambda pt=pt, sid=sid: dpapi_ng.async_ncrypt_protect_secret(pt, sid, cache=dpapi_ng.KeyCache(), **kw))
                        expect.append(("P", pt, sid, None, None))
                wit = {"kind": "concurrent", "shard": spec["name"], "round": rnd, "calls": [(e[0], e[2], e[3], e[4]) for e in expect], "security": security}
                since = len(core.getkeys)

                async def batch():
                    return await asyncio.gather(*[c() for c in calls], return_exceptions=True)

                try:
                    with mon.NET.guard(allow_loopback=True):
                        res = loop.run_until_complete(asyncio.wait_for(batch(), 120))
                except asyncio.TimeoutError:
                    rec.inconclusive_because(f"watchdog: concurrent batch {wit}")
                    continue
                asked = core.getkeys[since:]
                for (kind, pt, sid, l0, pos), r in zip(expect, res):
                    rec.count("concurrent_calls_checked")
                    if isinstance(r, BaseException):
                        rec.violation("concurrent-call-failed", f"{kind} {sid} {l0} {pos} raised {type(r).__name__}: {r} while {k} calls were in flight (alone it succeeds)", wit)
                    elif kind == "U" and r != pt:
                        rec.violation("concurrent-wrong-result", f"unprotect of the blob at {(l0,) + pos} returned other bytes while {k} calls were in flight", wit)
                    elif kind == "P" and cms.reference_unprotect(r, {rkid: rk}) != pt:
                        rec.violation("concurrent-wrong-result", f"protect while {k} calls were in flight: the reference implementation cannot decrypt the blob", wit)
                rec.count("getkey_decoded_at_dc", len(asked))
                rec.case(("concurrent", spec["name"], rnd), nontrivial=True)
            rec.sample({"kind": "concurrent async calls with independent caches", "security": security, "rounds": spec["n"], "last": wit})
        if security != "scripted" and dc.errors:
            rec.inconclusive_because(f"reference DC thread error: {dc.errors[0][-300:]}")
    finally:
        loop.close()
        if hasattr(dc, "close"):
            dc.close()


def run_shard(spec, rec: Recorder):
    if not common.calibrate(rec, "crypto", "gkdi", "sd", "cms", "rpc", "epm"):
        return
    if spec["kind"] == "concurrent":
        run_concurrent(spec, rec)
        return
    run_online(spec, rec)


def replay(body, rec: Recorder):
    shard = body["shard"]
    q = body["tier"] == "quick"
    sec = {"tcp-ntlm": "ntlm", "tcp-negotiate": "negotiate", "mem": "scripted"}[shard.rsplit("-", 1)[0]]
    n = {"ntlm": 40 if q else 400, "negotiate": 30 if q else 300, "scripted": 300 if q else 2500}[sec]
    run_shard({"name": shard, "seed": body["seed"], "tier": body["tier"], "kind": "online", "security": sec, "n": n}, rec)
    rec.violations[:] = [v for v in rec.violations if v["mechanism"] == body["mechanism"]][:3]
