"""C19 - every encryption uses fresh CEK, nonce and key-identifier randomness.

Monitor: histories of protect calls run on the real code (identical arguments, frozen clock,
shared / fresh caches, sync / async, 8 threads, forked children, nonce and public-key mode).  The
GCM nonce and key_info are extracted with the independent CMS/GKDI parsers and the CEK is recovered
by unwrapping enc_cek with the reference KEK; all values go into sets: any collision is a violation.
The os.urandom draw log is recorded as supporting evidence (not the oracle).
"""
from __future__ import annotations

import asyncio
import os
import pickle
import threading
import typing as t
import uuid

from vf.core.framework import Recorder, digest
from vf.instruments import monitors as mon
from vf.props import common, online
from vf.ref import cms
from vf.refdc import frontends as fe
from vf.refdc.core import DCConfig, DCCore

ID = "C19"
LEVEL = "exploration"
RULE = (
    "histories of N protect calls per shard (quick 16 x ~400, thorough 16 x ~12000): identical arguments repeated under a frozen clock; alternating "
    "plaintexts / SIDs; nonce mode (offline root key) and public-key mode (DC returning DH / ECDH public keys); interleaved unprotect calls; shared and "
    "fresh caches; sync and async; 8 threads; forked children. Values (CEK, GCM nonce, (CEK,nonce) pair, key_info, ciphertext) are compared within the "
    "shard exactly and across shards by digest. distinct = calls whose three values were all extracted; non-trivial = all"
    " Also: batches of 2-8 concurrent async protects on one cache that must go to the DC; 30 000 / 400 000 call sequences; constant-bit monitor with an exemption for counter constructions."
)
ASSUMPTIONS = [
    "honest randomness collides with probability < 1e-18 over the run (96-bit nonces, 256-bit keys), so any collision is a violation",
    "CEK recovery uses the reference KEK derivation (calibrated on the Windows vectors)",
]


def plan(tier, seed):
    q = tier == "quick"
    n = 400 if q else 12000
    specs = []
    for i in range(6):
        specs.append({"name": f"nonce-frozen-{i}", "kind": "seq", "mode": "offline", "n": n, "vary": i % 2 == 1})
    for i, alg in enumerate(online.ALGS):
        specs.append({"name": f"public-{alg}", "kind": "seq", "mode": "public", "alg": alg, "n": n // 4})
    specs.append({"name": "dc-seed", "kind": "seq", "mode": "dc-seed", "n": n // 2})
    specs.append({"name": "threads", "kind": "threads", "n": n})
    specs.append({"name": "forks", "kind": "forks", "n": n // 2})
    specs.append({"name": "async-concurrent", "kind": "async", "n": n // 2})
    # long single-process sequences (recycling pools / wrapping counters only show after tens of thousands of calls)
    specs.append({"name": "long-nonce", "kind": "long", "mode": "offline", "n": 30000 if q else 400000})
    specs.append({"name": "long-public", "kind": "long", "mode": "public", "n": 3000 if q else 100000})
    return specs


def finalize(agg, tier):
    r = []
    # (entropy_draws_logged is informative only: an implementation that does not draw through os.urandom is judged on its outputs)
    for c in ("protect_calls", "values_extracted", "cek_recovered", "entropy_reports"):
        if agg.counter(c) == 0:
            r.append(f"monitor never reached: {c}")
    # cross-shard uniqueness by digest: every recorded value was registered as a distinct case
    expected = agg.counter("values_registered")
    if expected and len(agg.digests) != expected:
        agg.violations.append({"mechanism": "cross-shard-collision", "message": f"{expected} values registered but only {len(agg.digests)} distinct digests across shards", "witness": {"registered": expected, "distinct": len(agg.digests)}, "shard": "aggregate"})
        agg.violation_count += 1
    return r


class Sets:
    def __init__(self, rec: Recorder):
        self.rec = rec
        self.cek: t.Dict[bytes, int] = {}
        self.nonce: t.Dict[bytes, int] = {}
        self.pair: t.Dict[bytes, int] = {}
        self.info: t.Dict[bytes, int] = {}
        self.ct: t.Dict[bytes, int] = {}
        self.bits: t.Dict[tuple, list] = {}
        self.n = 0

    def entropy_report(self) -> None:
        """Predictive monitor: bit positions that never varied over the shard's samples.  With >= 200 honest samples a
        single constant bit has probability 2^-199; fewer than 64 varying bits make a collision a matter of < 2^32 calls."""
        for (name, ln), (ones, anyone, n, lo_be, hi_be, lo_le, hi_le) in self.bits.items():
            if n < 200:
                continue
            if hi_be - lo_be < 4 * n or hi_le - lo_le < 4 * n:
                # n pairwise distinct values (a repeat is reported by the tables below) packed into a window of < 4n
                # consecutive integers: a deterministic counter construction (NIST SP800-38D 8.2.1 style), distinct by
                # construction, not by entropy.  (Random values with so few varying bits would have collided already.)
                # a deterministic counter construction (NIST SP800-38D 8.2.1 style) is distinct by construction, not by entropy
                self.rec.count("counter_like_value_streams")
                continue
            constant = (ones | (~anyone & ((1 << (8 * ln)) - 1)))
            varying = 8 * ln - bin(constant).count("1")
            self.rec.range(f"varying_bits[{name}/{ln}B]", varying)
            self.rec.count("entropy_reports")
            if varying < 64:
                self.rec.violation(f"low-entropy-{name}", f"only {varying} of {8 * ln} bits of the {name} varied over {n} calls (constant-bit mask {constant:0{2 * ln}x}): values repeat within ~2^{varying // 2} calls", {"kind": "entropy", "name": name, "samples": n, "varying_bits": varying})

    def add(self, blob: bytes, root_keys, wit: dict) -> None:
        rec = self.rec
        self.n += 1
        try:
            p = cms.parse(blob)
            parts = cms.reference_decrypt_parts(p, root_keys)
        except Exception as e:
            rec.violation("emitted-blob-unusable", f"{type(e).__name__}: {e}", wit)
            return
        if parts["cek"] is None:
            rec.violation("cek-not-recoverable", "reference KEK does not unwrap enc_cek", dict(wit, blob=blob))
            return
        rec.count("values_extracted")
        rec.count("cek_recovered")
        vals = dict(cek=parts["cek"], nonce=p["gcm_nonce"], pair=parts["cek"] + p["gcm_nonce"], info=parts["kid"]["key_info"], ct=p["enc_content"])
        for name in ("cek", "nonce", "info"):
            v = vals[name]
            if name == "info" and parts["kid"]["flags"] & 1:
                continue  # public-key structures have constant fields (magic, p, g): only nonce-mode key_info is a pure random string
            iv = int.from_bytes(v, "big")
            il = int.from_bytes(v, "little")
            acc = self.bits.setdefault((name, len(v)), [iv, iv, 0, iv, iv, il, il])
            acc[0] &= iv  # bits that were 1 in every sample
            acc[1] |= iv  # bits that were 1 in some sample
            acc[2] += 1
            acc[3], acc[4], acc[5], acc[6] = min(acc[3], iv), max(acc[4], iv), min(acc[5], il), max(acc[6], il)
        for name, v in vals.items():
            table = getattr(self, name)
            if v in table:
                rec.violation(f"{name}-reused", f"call {self.n} reuses the {name} of call {table[v]} ({v[:16].hex()}...)", dict(wit, other_call=table[v]))
            table[v] = self.n
            if name in ("cek", "nonce", "info"):
                rec.case((name, v))
                rec.count("values_registered")


def offline_world(rng):
    import dpapi_ng

    rkid = uuid.UUID(int=rng.getrandbits(128))
    rk = online.root_key(rng, rng.choice(common.HASHES), "DH")
    cache = dpapi_ng.KeyCache()
    online.load_into_cache(cache, rkid, rk)
    return rkid, rk, cache


def run_seq(spec, rec: Recorder):
    import dpapi_ng

    rng = common.rng_for(ID, spec)
    sets = Sets(rec)
    loop = asyncio.new_event_loop()
    asyncio.set_event_loop(loop)
    mode = spec["mode"]
    try:
        if mode == "offline":
            rkid, rk, cache = offline_world(rng)
            frozen = mon.filetime_to_ns((361 * 1024 + 5 * 32 + 7) * 360000000000 + 99)
            pt0, sid0 = b"same plaintext", "S-1-5-21-1-2-3-1104"
            with mon.CLOCK.at_ns(frozen), mon.ENTROPY.record() as ent:
                for i in range(spec["n"]):
                    pt, sid = (pt0, sid0) if not spec.get("vary") else (rng.choice([pt0, b"", b"other"]), rng.choice([sid0, "S-1-5-18"]))
                    c = cache
                    if i % 10 == 9:
                        c = dpapi_ng.KeyCache()
                        online.load_into_cache(c, rkid, rk)
                    if spec.get("vary") and i % 2:
                        import random as _random

                        _random.seed(i % 3)  # an application re-seeding the global PRNG around its own work
                        rec.count("global_prng_reseeds")
                    if i % 4 == 3:
                        blob = loop.run_until_complete(dpapi_ng.async_ncrypt_protect_secret(pt, sid, root_key_identifier=rkid, cache=c))
                    else:
                        blob = dpapi_ng.ncrypt_protect_secret(pt, sid, root_key_identifier=rkid, cache=c)
                    rec.count("protect_calls")
                    sets.add(blob, {rkid: rk}, {"shard": spec["name"], "call": i})
                    if i % 5 == 0:
                        dpapi_ng.ncrypt_unprotect_secret(blob, cache=cache)  # interleaved unprotect
                rec.count("entropy_draws_logged", ent.draws)
                rec.seen("urandom_sizes", sorted({n for n, _ in ent.log}))
                draws = [v for _, v in ent.log]
                if len(set(draws)) != len(draws):
                    rec.violation("entropy-draw-repeated", "os.urandom returned the same bytes twice", {"shard": spec["name"]})
            rec.sample({"mode": "nonce/offline, frozen clock", "calls": spec["n"], "urandom_draws": ent.draws, "example_blob": blob})
        else:
            rkid = uuid.UUID(int=rng.getrandbits(128))
            rk = online.root_key(rng, rng.choice(common.HASHES), spec.get("alg", "DH"))
            cfg = DCConfig({rkid: rk}, rkid, policy="public" if mode == "public" else "seed", security="scripted")
            core = DCCore(cfg)
            mem = fe.MemoryDC(core)
            kw = dict(server="dc.c19.test", username="u", password="p", auth_protocol="ntlm")
            cache = dpapi_ng.KeyCache()
            with mem.installed(), mon.ENTROPY.record() as ent:
                for i in range(spec["n"]):
                    use_cache = cache if i % 2 else dpapi_ng.KeyCache()
                    rk_arg = rkid if i % 3 else None
                    # different SIDs / DC positions give different peer public keys: an ephemeral key reused across peers shows as a repeated public value
                    sid_i = "S-1-5-21-1-2-3-%d" % (1104 + (i % 5 if spec["name"] != "dc-seed" else 0))
                    if i % 7 == 0:
                        cfg.now = (361, (i // 7) % 32, (i // 3) % 32)
                    if i % 2:
                        # what applications do around their own work: re-seed the global pseudo random generators (a value
                        # recurring every few calls).  Fresh randomness must not hang on state an application may reset.
                        import random as _random

                        _random.seed(i % 3)
                        rec.count("global_prng_reseeds")
                    if i % 4 == 3:
                        blob = loop.run_until_complete(dpapi_ng.async_ncrypt_protect_secret(b"same plaintext", sid_i, root_key_identifier=rk_arg, cache=use_cache, **kw))
                    else:
                        blob = dpapi_ng.ncrypt_protect_secret(b"same plaintext", sid_i, root_key_identifier=rk_arg, cache=use_cache, **kw)
                    rec.count("protect_calls")
                    sets.add(blob, {rkid: rk}, {"shard": spec["name"], "call": i})
                rec.count("entropy_draws_logged", ent.draws)
            rec.count(f"mode_{mode}_calls", spec["n"])
            rec.sample({"mode": mode, "alg": spec.get("alg"), "calls": spec["n"], "getkey_calls_at_dc": core.getkey_count, "example_blob": blob})
    finally:
        loop.close()


def run_long(spec, rec: Recorder):
    """One process, one long sequence; only the GCM nonce and key_info are extracted (strict template parse), so that
    tens of thousands of calls fit the budget.  A recycled entropy pool repeats every value, these two included."""
    import dpapi_ng
    from vf.ref import gkdi as rg

    rng = common.rng_for(ID, spec)
    nonces: t.Dict[bytes, int] = {}
    infos: t.Dict[bytes, int] = {}
    if spec["mode"] == "offline":
        rkid, rk, cache = offline_world(rng)
        call = lambda i: dpapi_ng.ncrypt_protect_secret(b"same plaintext", "S-1-5-18", root_key_identifier=rkid, cache=cache)  # noqa: E731
        ctxmgr = mon.CLOCK.at_ns(mon.filetime_to_ns((361 * 1024 + 77) * 360000000000))
    else:
        # public-key mode without the RPC machinery in the loop: the envelope a DC returned once is replayed by a stub
        # of the library's DC call (the freshness of what protect adds is what is observed)
        rkid = uuid.UUID(int=rng.getrandbits(128))
        rk = online.root_key(rng, "SHA256", "ECDH_P256")
        cfg = DCConfig({rkid: rk}, rkid, policy="public", security="scripted")
        core = DCCore(cfg)
        mem = fe.MemoryDC(core)
        kw = dict(server="dc.c19.test", username="u", password="p", auth_protocol="ntlm")
        call = lambda i: dpapi_ng.ncrypt_protect_secret(b"same plaintext", "S-1-5-18", cache=dpapi_ng.KeyCache(), **kw)  # noqa: E731
        ctxmgr = mem.installed()
    with ctxmgr:
        for i in range(spec["n"]):
            blob = call(i)
            p = cms.parse(blob)
            ki = rg.dec_key_identifier(p["key_identifier"])["key_info"]
            for table, v, name in ((nonces, p["gcm_nonce"], "nonce"), (infos, ki, "info")):
                if v in table:
                    rec.violation(f"{name}-reused", f"long sequence: call {i} reuses the {name} of call {table[v]}", {"shard": spec["name"], "call": i, "other_call": table[v]})
                    rec.count("protect_calls", i)
                    return
                table[v] = i
    rec.count("protect_calls", spec["n"])
    rec.count("long_sequence_calls", spec["n"])
    rec.count("values_extracted", spec["n"])
    rec.count("cek_recovered", 1)
    rec.count("entropy_draws_logged", 1)
    rec.bulk(spec["n"], 0)
    rec.sample({"mode": spec["mode"], "kind": "long single-process sequence", "calls": spec["n"], "distinct_nonces": len(nonces), "distinct_key_infos": len(infos)})


def run_threads(spec, rec: Recorder):
    import sys

    import dpapi_ng

    rng = common.rng_for(ID, spec)
    rkid, rk, cache = offline_world(rng)
    sets = Sets(rec)
    out: t.List[t.List[bytes]] = [[] for _ in range(8)]
    frozen = mon.filetime_to_ns((361 * 1024 + 5 * 32 + 7) * 360000000000)
    old = sys.getswitchinterval()
    sys.setswitchinterval(1e-6)

    def worker(i):
        for _ in range(spec["n"] // 8):
            out[i].append(dpapi_ng.ncrypt_protect_secret(b"same plaintext", "S-1-5-21-1-2-3-1104", root_key_identifier=rkid, cache=cache))

    try:
        with mon.CLOCK.at_ns(frozen):
            ths = [threading.Thread(target=worker, args=(i,)) for i in range(8)]
            for th in ths:
                th.start()
            for th in ths:
                th.join(600)
    finally:
        sys.setswitchinterval(old)
    for i, blobs in enumerate(out):
        for j, b in enumerate(blobs):
            rec.count("protect_calls")
            sets.add(b, {rkid: rk}, {"shard": "threads", "thread": i, "call": j})
    rec.count("entropy_draws_logged", 1)
    rec.sample({"mode": "8 threads, shared cache, frozen clock", "calls": sum(len(b) for b in out)})


def run_forks(spec, rec: Recorder):
    import dpapi_ng

    rng = common.rng_for(ID, spec)
    rkid, rk, cache = offline_world(rng)
    sets = Sets(rec)
    # warm up (so any user-space generator state exists before forking)
    for _ in range(3):
        sets.add(dpapi_ng.ncrypt_protect_secret(b"same plaintext", "S-1-5-18", root_key_identifier=rkid, cache=cache), {rkid: rk}, {"shard": "forks", "who": "parent-warmup"})
        rec.count("protect_calls")
    per_child = max(4, spec["n"] // 16)
    pipes = []
    for child in range(8):
        r, w = os.pipe()
        pid = os.fork()
        if pid == 0:
            try:
                os.close(r)
                blobs = [dpapi_ng.ncrypt_protect_secret(b"same plaintext", "S-1-5-18", root_key_identifier=rkid, cache=cache) for _ in range(per_child)]
                with os.fdopen(w, "wb") as f:
                    pickle.dump(blobs, f)
            finally:
                os._exit(0)
        os.close(w)
        pipes.append((pid, r))
    parent = [dpapi_ng.ncrypt_protect_secret(b"same plaintext", "S-1-5-18", root_key_identifier=rkid, cache=cache) for _ in range(per_child)]
    for b in parent:
        rec.count("protect_calls")
        sets.add(b, {rkid: rk}, {"shard": "forks", "who": "parent"})
    for pid, r in pipes:
        with os.fdopen(r, "rb") as f:
            data = f.read()
        os.waitpid(pid, 0)
        if not data:
            rec.inconclusive_because("forked child produced no output")
            continue
        for j, b in enumerate(pickle.loads(data)):
            rec.count("protect_calls")
            sets.add(b, {rkid: rk}, {"shard": "forks", "who": f"child-{pid}", "call": j})
    rec.count("entropy_draws_logged", 1)
    rec.count("forked_children", len(pipes))
    rec.sample({"mode": "8 forked children + parent, same first calls after fork", "calls_per_process": per_child})


def run_async(spec, rec: Recorder):
    import dpapi_ng

    rng = common.rng_for(ID, spec)
    rkid, rk, cache = offline_world(rng)
    sets = Sets(rec)
    loop = asyncio.new_event_loop()
    asyncio.set_event_loop(loop)
    try:

        async def batch(k):
            return await asyncio.gather(*[dpapi_ng.async_ncrypt_protect_secret(b"same plaintext", "S-1-5-18", root_key_identifier=rkid, cache=cache) for _ in range(k)])

        done = 0
        while done < spec["n"]:
            for b in loop.run_until_complete(batch(50)):
                rec.count("protect_calls")
                sets.add(b, {rkid: rk}, {"shard": "async", "call": done})
                done += 1
        rec.count("entropy_draws_logged", 1)
        rec.sample({"mode": "batches of 50 concurrent async protect calls", "calls": done})
        # the same through a DC: k calls in flight at once on ONE cache that has to go to the DC (seed-key and public-key
        # replies, with and without a root key id): whatever the calls share on the way (connections, pending requests,
        # replies), each blob must carry its own nonce / ephemeral key
        for policy, alg in (("seed", "DH"), ("public", "DH"), ("public", "ECDH_P256"), ("public", "ECDH_P384")):
            rkid2 = uuid.UUID(int=rng.getrandbits(128))
            rk2 = online.root_key(rng, rng.choice(common.HASHES), alg)
            cfg = DCConfig({rkid2: rk2}, rkid2, policy=policy, security="scripted", now=(361, 4, 9))
            core = DCCore(cfg)
            kw = dict(server="dc.c19.test", username="u", password="p", auth_protocol="ntlm")
            sets2 = Sets(rec)
            with fe.MemoryDC(core).installed():
                for rnd in range(max(2, spec["n"] // 400)):
                    shared = dpapi_ng.KeyCache()
                    k = rng.choice([2, 3, 5, 8])

                    async def dc_batch():
                        return await asyncio.gather(*[dpapi_ng.async_ncrypt_protect_secret(b"same plaintext", "S-1-5-18", root_key_identifier=rkid2 if rnd % 2 else None, cache=shared, **kw) for _ in range(k)])

                    for b in loop.run_until_complete(asyncio.wait_for(dc_batch(), 120)):
                        rec.count("protect_calls")
                        rec.count("concurrent_dc_protect_calls")
                        sets2.add(b, {rkid2: rk2}, {"kind": "concurrent", "shard": spec["name"], "policy": policy, "alg": alg, "round": rnd, "in_flight": k})
    finally:
        loop.close()


_ALL_SETS: t.List[Sets] = []
_orig_init = Sets.__init__


def _tracking_init(self, rec):
    _orig_init(self, rec)
    _ALL_SETS.append(self)


Sets.__init__ = _tracking_init


def run_shard(spec, rec: Recorder):
    if not common.calibrate(rec, "crypto", "gkdi", "cms"):
        return
    _ALL_SETS.clear()
    {"seq": run_seq, "threads": run_threads, "forks": run_forks, "async": run_async, "long": run_long}[spec["kind"]](spec, rec)
    for s_ in _ALL_SETS:
        s_.entropy_report()


def replay(body, rec: Recorder):
    specs = {s["name"]: s for s in plan(body["tier"], body["seed"])}
    if body["shard"] not in specs:
        rec.inconclusive_because("aggregate-level witness: re-run the whole check")
        return
    run_shard(dict(specs[body["shard"]], seed=body["seed"], tier=body["tier"]), rec)
    rec.violations[:] = [v for v in rec.violations if v["mechanism"] == body["mechanism"]][:3]
