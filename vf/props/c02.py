"""C02 - derived group keys equal the MS-GKDI chain from any covering seed material.

Monitor: for every (envelope position, requested position) pair of the 32^4 lattice and every
envelope shape MS-GKDI allows, GroupKeyEnvelope.get_kek (nonce mode: KEK = KDF(L2 key, nonce)
identifies the L2 key) is run on the real code under a KDF-invocation meter and compared with an
independent chain computed from the root key.  Non-covering pairs must raise within the budget.
API level: reference-built blobs at every position are decrypted through a root-key cache.
"""
from __future__ import annotations

import typing as t
import uuid

from vf.core.framework import Recorder
from vf.instruments import monitors as mon
from vf.props import common
from vf.ref import cms, crypto, gkdi as rg, sd as rsd

ID = "C02"
LEVEL = "exploration"
RULE = (
    "points = (L1',L2',shape,L1,L2,hash): quick = the complete 32^4 lattice x shapes for one hash (chosen by VERIF_SEED) plus the boundary "
    "planes {0,1,30,31} for the other three; thorough = complete lattice x shapes for all four hashes; random root key / SD / L0 in "
    "{0,361,2^31-1,random} per shard. distinct by construction (enumeration); non-trivial = every point except the four (start -> (0,0)) "
    "derivations of tests/test_gkdi.py::test_compute_l2_key"
    " Also: the same derivations from 8 threads at once (threads-* shards), API-level derivations through DC-seeded caches incl. adjacent positions."
)
ASSUMPTIONS = [
    "ref.crypto.Chain transcribes MS-GKDI 3.1.4.1.2 (calibrated: the reference decrypts the 16 Windows blobs from the root key alone)",
    "conforming envelope shapes: L1 key for L1' when L2'=31 else for L1'-1 (absent at L1'=0); L2 key present, or absent when L2'=31",
    "covering predicate: (L1',L2') >= (L1,L2) lexicographically",
]
KDF_BUDGET = 128
STEP_BUDGET = 20000
NONCE = bytes(range(32))


def plan(tier, seed):
    specs = []
    full_hashes = [common.HASHES[seed % 4]] if tier == "quick" else common.HASHES
    for h in common.HASHES:
        mode = "full" if h in full_hashes else "planes"
        nshard = 16 if mode == "full" else 2
        for i in range(nshard):
            specs.append({"name": f"lat-{h}-{i}", "kind": "lattice", "hash": h, "mode": mode, "a_values": list(range(i, 32, nshard))})
    for i, h in enumerate(common.HASHES):
        specs.append({"name": f"api-{h}", "kind": "api", "hash": h, "n": 1024 if tier == "thorough" else 256})
    for i in range(4 if tier == "quick" else 16):
        specs.append({"name": f"apidc-{i}", "kind": "apidc", "n": 120 if tier == "quick" else 3000})
    for i in range(2 if tier == "quick" else 8):
        specs.append({"name": f"threads-{i}", "kind": "threads", "n": 50 if tier == "quick" else 300, "rounds": 2 if tier == "quick" else 6})
    return specs


def finalize(agg, tier):
    r = []
    for c in ("covering_compared", "noncovering_rejected", "kdf_calls_metered", "api_unprotect_compared", "stepmeter_samples", "apidc_cache_derived", "apidc_back_to_dc"):
        if agg.counter(c) == 0:
            r.append(f"monitor never reached: {c}")
    return r


def covers(a, b, l1, l2):
    return a > l1 or (a == l1 and b >= l2)


def make_envelope(G, chain: crypto.Chain, h: str, a: int, b: int, shape: str, rkid, l0):
    if b == 31:
        l1_key = chain.l1[a]
    else:
        l1_key = chain.l1[a - 1] if a > 0 else b""
    l2_key = chain.l2[a][b]
    if shape == "no-l2":
        l2_key = b""
    return G.GroupKeyEnvelope(
        version=1,
        flags=0,
        l0=l0,
        l1=a,
        l2=b,
        root_key_identifier=rkid,
        kdf_algorithm="SP800_108_CTR_HMAC",
        kdf_parameters=rg.enc_kdf_parameters(h),
        secret_algorithm="DH",
        secret_parameters=b"",
        private_key_length=512,
        public_key_length=2048,
        domain_name="c02.test",
        forest_name="c02.test",
        l1_key=l1_key,
        l2_key=l2_key,
    )


def check_point(rec: Recorder, G, B, env, chain, kek_table, h, a, b, shape, l1, l2, rkid, l0, with_steps=False) -> None:
    kid = B.KeyIdentifier(version=1, flags=0, l0=l0, l1=l1, l2=l2, root_key_identifier=rkid, key_info=NONCE, domain_name="", forest_name="")
    cov = covers(a, b, l1, l2)
    wit = {"hash": h, "envelope": [a, b], "shape": shape, "request": [l1, l2], "l0": l0}
    meter = mon.KDFS
    meter.n = 0
    meter.limit = KDF_BUDGET
    try:
        if with_steps:
            with mon.STEPS.measure(STEP_BUDGET):
                got = env.get_kek(kid)
            rec.count("stepmeter_samples")
            rec.range("steps_per_get_kek", mon.STEPS.n)
        else:
            got = env.get_kek(kid)
    except mon.BudgetExceeded as e:
        rec.violation("l2-walk-no-cover-check", f"envelope ({a},{b},{shape}) asked for ({l1},{l2}) [{'covering' if cov else 'non-covering'}]: {type(e).__name__} {e} after {meter.n} KDF calls", wit)
        return
    except Exception as e:
        if cov:
            rec.violation("covering-raised", f"envelope ({a},{b},{shape}) covers ({l1},{l2}) but get_kek raised {type(e).__name__}: {e}", wit)
        else:
            rec.count("noncovering_rejected")
        return
    finally:
        meter.limit = 1 << 62
        rec.count("kdf_calls_metered", meter.n)
        if meter.n > rec.minmax.get("kdf_calls_per_point", [0, 0])[1]:
            rec.range("kdf_calls_per_point", meter.n)
    if not cov:
        rec.violation("noncovering-returned-key", f"envelope ({a},{b},{shape}) does not cover ({l1},{l2}) but a KEK was returned", wit)
        return
    rec.count("covering_compared")
    if got != kek_table[l1][l2]:
        rec.violation("derived-key-mismatch", f"envelope ({a},{b},{shape}) -> ({l1},{l2}): KEK differs from the MS-GKDI chain", wit)


def run_threads(spec, rec: Recorder):
    """Derivations for ONE (root key, SD, L0) - and for a second root key - from 8 threads at once, each thread at other
    positions: the key for a position must not depend on what other threads are deriving (shared scratch buffers, caches
    keyed too coarsely).  Expected values come from the reference chain, computed beforehand."""
    from dpapi_ng import _blob as B
    from dpapi_ng import _gkdi as G

    rng = common.rng_for(ID, spec)
    tasks = []
    for world in range(2):
        h = rng.choice(common.HASHES)
        rkid = uuid.UUID(int=rng.getrandbits(128)) if world else uuid.UUID(int=7)
        l0 = rng.choice([361, 0, 2**31 - 1])
        sd = rsd.target_sd(rsd.Sid(1, 5, (21, rng.randrange(2**32), 1000 + world)))
        root = rng.randbytes(64)
        chain = crypto.Chain(h, root, rkid, sd, l0)
        algo = {"SHA1": "SHA1", "SHA256": "SHA256", "SHA384": "SHA384", "SHA512": "SHA512"}[h]
        from cryptography.hazmat.primitives import hashes as _h

        halg = getattr(_h, algo)()
        for i in range(spec["n"] // 2):
            a, b = rng.randrange(32), rng.randrange(32)
            shape = "full" if b != 31 or rng.random() < 0.5 else "no-l2"
            env = make_envelope(G, chain, h, a, b, shape, rkid, l0)
            l1 = rng.randrange(0, a + 1)
            l2 = rng.randrange(32) if l1 < a else rng.randrange(0, b + 1)
            wit = {"hash": h, "envelope": [a, b], "shape": shape, "request": [l1, l2], "l0": l0, "kind": "threads"}
            tasks.append((lambda env=env, l1=l1, l2=l2, halg=halg: G.compute_l2_key(halg, l1, l2, env), chain.l2[l1][l2], wit))
            kid = B.KeyIdentifier(version=1, flags=0, l0=l0, l1=l1, l2=l2, root_key_identifier=rkid, key_info=NONCE, domain_name="", forest_name="")
            tasks.append((lambda env=env, kid=kid: env.get_kek(kid), crypto.kek_nonce(h, chain.l2[l1][l2], NONCE), dict(wit, fn="get_kek")))
            rec.case(("threads", spec["name"], world, i))
        # and the L1 chain start from the root key
        tasks.append((lambda root=root, rkid=rkid, l0=l0, sd=sd, halg=halg: G.compute_l1_key(sd, rkid, l0, root, halg), chain.l1[31], {"kind": "threads", "fn": "compute_l1_key", "hash": h, "l0": l0}))
    common.hammer(rec, tasks, "derived-key-mismatch-under-threads", rounds=spec["rounds"], seed=spec["seed"])
    rec.count("covering_compared", len(tasks))


def run_lattice(spec, rec: Recorder):
    from dpapi_ng import _blob as B
    from dpapi_ng import _gkdi as G

    mon.KDFS.install()
    rng = common.rng_for(ID, spec)
    h = spec["hash"]
    root = rng.randbytes(64)
    rkid = uuid.UUID(int=rng.getrandbits(128))
    l0 = rng.choice([0, 361, 2**31 - 1, rng.randrange(2**31)])
    sid = rsd.Sid(1, 5, tuple(rng.randrange(2**32) for _ in range(rng.randrange(1, 16))))
    sdb = rsd.target_sd(sid)
    chain = crypto.Chain(h, root, rkid, sdb, l0)
    kek_table = [[crypto.kek_nonce(h, chain.l2[i][j], NONCE) for j in range(32)] for i in range(32)]
    planes = {0, 1, 30, 31}
    full = spec["mode"] == "full"
    n = 0
    k = 0
    for a in spec["a_values"]:
        for b in range(32):
            shapes = ["std", "no-l2"] if b == 31 else ["std"]
            for shape in shapes:
                env = make_envelope(G, chain, h, a, b, shape, rkid, l0)
                for l1 in range(32):
                    for l2 in range(32):
                        if not full and not ({a, b, l1, l2} & planes and (a in planes or b in planes) and (l1 in planes or l2 in planes)):
                            continue
                        k += 1
                        check_point(rec, G, B, env, chain, kek_table, h, a, b, shape, l1, l2, rkid, l0, with_steps=(k % 61 == 0))
                        n += 1
    # the 4 suite derivations are (31,31)->(0,0) style starts: count them as trivial
    rec.bulk(n, max(0, n - 4))
    rec.seen("hash", h)
    rec.seen("l0", l0)
    if full:
        rec.mark_exhaustive(f"lattice rows L1' in {spec['a_values']} x L2' 0..31 x shapes x (L1,L2) 32x32 for {h}")
    rec.sample({"hash": h, "l0": l0, "root_key_id": str(rkid), "sd_len": len(sdb), "rows": spec["a_values"], "mode": spec["mode"], "example_point": {"envelope": [spec["a_values"][0], 31, "no-l2"], "request": [0, 0]}})
    # out-of-range requests must be errors within budget as well
    env = make_envelope(G, chain, h, 31, 31, "std", rkid, l0)
    for l1, l2 in ((32, 0), (0, 32), (2**32 - 1, 5), (5, 2**32 - 1), (255, 255)):
        kid = B.KeyIdentifier(version=1, flags=0, l0=l0, l1=l1, l2=l2, root_key_identifier=rkid, key_info=NONCE, domain_name="", forest_name="")
        mon.KDFS.n, mon.KDFS.limit = 0, KDF_BUDGET
        try:
            env.get_kek(kid)
            rec.violation("out-of-range-returned-key", f"request ({l1},{l2}) returned a key", {"hash": h, "request": [l1, l2], "envelope": [31, 31], "shape": "std", "l0": l0})
        except mon.BudgetExceeded:
            rec.violation("l2-walk-no-cover-check", f"request ({l1},{l2}) exceeded the KDF budget", {"hash": h, "request": [l1, l2], "envelope": [31, 31], "shape": "std", "l0": l0})
        except Exception:
            rec.count("noncovering_rejected")
        finally:
            mon.KDFS.limit = 1 << 62
        rec.case(("oor", h, l1, l2))


def run_api(spec, rec: Recorder):
    """Reference-built blobs at lattice positions decrypted through the public API with a root-key cache."""
    import dpapi_ng

    mon.KDFS.install()
    rng = common.rng_for(ID, spec)
    h = spec["hash"]
    import base64

    from vf.props import online as _online

    # "forall root keys": not only 64 random bytes - other lengths, and material that looks like an encoding of a key
    pool = [rng.randbytes(rng.choice([64, 64, 16, 32, 63, 65, 128, 256, 1])), base64.b64encode(rng.randbytes(64)), rng.randbytes(64).hex().encode(), base64.b64encode(rng.randbytes(48)), bytes(64)] + [_online.root_key_material(rng) for _ in range(3)]
    worlds = []
    for root_ in pool:
        rkid_ = uuid.UUID(int=rng.getrandbits(128))
        c_ = __import__("dpapi_ng").KeyCache()
        c_.load_key(root_, rkid_, kdf_parameters=rg.enc_kdf_parameters(h))
        worlds.append((root_, rkid_, cms.RootKey(root_, h), c_))
        rec.seen("root_key_lengths", len(root_))
    root, rkid, rk, _ = worlds[0]
    positions = [(i, j) for i in range(32) for j in range(32)]
    if spec["n"] < 1024:
        edge = [(i, j) for i in (0, 1, 30, 31) for j in (0, 1, 30, 31)]
        positions = edge + rng.sample(positions, spec["n"] - len(edge))
    for idx, (l1, l2) in enumerate(positions):
        root, rkid, rk, cache = worlds[idx % len(worlds)] if idx % 2 else worlds[0]
        l0 = rng.choice([361, 0, 2**31 - 1, rng.randrange(1000)])
        sid = "S-1-5-21-%d-%d" % (rng.randrange(2**32), idx)
        pt = b"c02-%d-%d-%d" % (l0, l1, l2)
        blob = cms.reference_protect(pt, sid, rkid, rk, l0, l1, l2, nonce=rng.randbytes(32), cek=rng.randbytes(32), gcm_nonce=rng.randbytes(12), in_envelope=bool(idx % 2))
        wit = {"hash": h, "position": [l0, l1, l2], "sid": sid, "blob": blob, "root_key": root, "root_key_id": str(rkid)}
        c = cache if idx % 3 else None
        if c is None:
            c = dpapi_ng.KeyCache()
            c.load_key(root, rkid, kdf_parameters=rg.enc_kdf_parameters(h))
        mon.KDFS.n, mon.KDFS.limit = 0, 200
        try:
            with mon.NET.guard():
                got = dpapi_ng.ncrypt_unprotect_secret(blob, cache=c)
        except BaseException as e:
            rec.violation("api-unprotect-failed", f"reference-built blob at {(l0, l1, l2)} ({h}): {type(e).__name__}: {e}", wit)
            continue
        finally:
            mon.KDFS.limit = 1 << 62
        rec.count("api_unprotect_compared")
        rec.count("kdf_calls_metered", mon.KDFS.n)
        if got != pt:
            rec.violation("api-unprotect-wrong", f"blob at {(l0, l1, l2)} decrypted to different bytes", wit)
        rec.case(("api", h, l0, l1, l2))
    rec.sample({"kind": "api", "hash": h, "positions": len(positions), "example": {"position": [l0, l1, l2], "sid": sid}})
    if spec["n"] >= 1024:
        rec.mark_exhaustive(f"API unprotect of reference blobs at all 1024 positions ({h})")


def run_apidc(spec, rec: Recorder):
    """API level with seed material that came from a (reference) DC: a cache seeded by the DC's reply for
    position p' must serve blobs at p <= p' from the cache with the right key, and go back to the DC for p > p'."""
    import dpapi_ng
    from vf.props import online
    from vf.refdc import frontends as fe
    from vf.refdc.core import DCConfig, DCCore

    mon.KDFS.install()
    rng = common.rng_for(ID, spec)
    edge = [0, 1, 30, 31]
    for i in range(spec["n"]):
        h = common.HASHES[i % 4]
        rkid = uuid.UUID(int=rng.getrandbits(128))
        rk = online.root_key(rng, h, "DH")
        if i % 5 == 4:
            rk = rk._replace(key=rng.randbytes(rng.choice([16, 32, 63, 65, 128, 256])))
        l0 = rng.choice([361, 0, 2**31 - 1, rng.randrange(1000)])
        pick = lambda: rng.choice(edge) if rng.random() < 0.4 else rng.randrange(32)  # noqa: E731
        pp = (pick(), pick())
        p = (pick(), pick())
        if i % 3 == 0:  # adjacent positions around an L1 roll-over and around equality
            k = (i // 3) % 31
            pp, p = [((k, 31), (k + 1, 0)), ((k + 1, 0), (k, 31)), ((k, 31), (k, 31)), ((k, 30), (k, 31)), ((k + 1, 1), (k + 1, 0)), ((k, 0), (k, 1))][(i // 93) % 6]
        cfg = DCConfig({rkid: rk}, rkid, now=(l0, 31, 31), security="scripted")
        cfg.l2_key_absent_at_31 = bool(i % 2)
        core = DCCore(cfg)
        sid = online.gen_sid(rng)
        cache = dpapi_ng.KeyCache()
        kw = dict(server="dc.c02.test", username="u", password="p", auth_protocol="ntlm", cache=cache)
        b1 = online.ref_blob(rng, rkid, rk, sid, (l0,) + pp, "nonce", b"first")
        b2 = online.ref_blob(rng, rkid, rk, sid, (l0,) + p, "nonce", b"second")
        wit = {"hash": h, "l0": l0, "envelope": list(pp), "request": list(p), "sid": sid, "l2_absent": cfg.l2_key_absent_at_31}
        mem = fe.MemoryDC(core)
        try:
            with mem.installed():
                mon.KDFS.n, mon.KDFS.limit = 0, 200
                r1 = dpapi_ng.ncrypt_unprotect_secret(b1, **kw)
                if i % 4 == 1 and l0 < 2**31 - 1:
                    # the cached seed material is used for protect calls in its own interval in between: it must stay usable
                    ft = (l0 * 1024 + pp[0] * 32 + pp[1]) * 360000000000 + 4242
                    with mon.CLOCK.at_ns(mon.filetime_to_ns(ft)):
                        for _ in range(2):
                            made = dpapi_ng.ncrypt_protect_secret(b"between", sid, root_key_identifier=rkid, **kw)
                    if cms.reference_unprotect(made, {rkid: rk}) != b"between":
                        rec.violation("derived-key-mismatch", f"protect from DC-obtained seed keys at {pp}: the reference implementation cannot decrypt the blob", wit)
                    rec.count("apidc_protect_between")
                before = core.getkey_count
                mon.KDFS.n, mon.KDFS.limit = 0, 200
                r2 = dpapi_ng.ncrypt_unprotect_secret(b2, **kw)
                rpcs = core.getkey_count - before
        except mon.BudgetExceeded as e:
            rec.violation("l2-walk-no-cover-check", f"DC-seeded cache at {pp}, blob at {p}: {e}", wit)
            continue
        except Exception as e:
            rec.violation("apidc-unprotect-failed", f"DC-seeded cache at {pp}, blob at {p}: {type(e).__name__}: {e}", wit)
            continue
        finally:
            mon.KDFS.limit = 1 << 62
        if r1 != b"first" or r2 != b"second":
            rec.violation("derived-key-mismatch", f"DC-seeded cache at {pp}, blob at {p}: wrong plaintext", wit)
        if covers(pp[0], pp[1], p[0], p[1]):
            rec.count("apidc_cache_derived")
            if rpcs:
                rec.violation("covering-went-to-dc", f"cache holds seed keys for {pp} which cover {p}, but the DC was contacted again", wit)
        else:
            rec.count("apidc_back_to_dc")
            if not rpcs:
                rec.violation("noncovering-served-from-cache", f"cache holds seed keys for {pp} which do not cover {p}, yet no GetKey was made", wit)
        rec.case(("apidc", h, l0, pp, p))
    rec.sample({"kind": "apidc", "example": wit})


def run_shard(spec, rec: Recorder):
    if not common.calibrate(rec, "crypto", "gkdi", "sd", "cms"):
        return
    if spec["kind"] == "apidc" and not common.calibrate(rec, "rpc", "epm"):
        return
    {"lattice": run_lattice, "api": run_api, "apidc": run_apidc, "threads": run_threads}[spec["kind"]](spec, rec)


def replay(body, rec: Recorder):
    from dpapi_ng import _blob as B
    from dpapi_ng import _gkdi as G

    w = body["witness"]
    if body.get("shard", "").startswith("apidc"):
        run_shard({"name": body["shard"], "seed": body["seed"], "tier": body["tier"], "kind": "apidc", "n": 120 if body["tier"] == "quick" else 3000}, rec)
        rec.violations[:] = [v for v in rec.violations if v["mechanism"] == body["mechanism"]][:3]
        return
    if "blob" in w:
        import dpapi_ng

        c = dpapi_ng.KeyCache()
        c.load_key(bytes.fromhex(w["root_key"]["hex"]), uuid.UUID(w["root_key_id"]), kdf_parameters=rg.enc_kdf_parameters(w["hash"]))
        try:
            dpapi_ng.ncrypt_unprotect_secret(bytes.fromhex(w["blob"]["hex"]), cache=c)
        except Exception as e:
            rec.violation(body["mechanism"], f"{type(e).__name__}: {e}", w)
        rec.case(("replay", 1))
        return
    mon.KDFS.install()
    h = w["hash"]
    rkid = uuid.UUID(int=1)
    l0 = w.get("l0", 361)
    chain = crypto.Chain(h, b"\x42" * 64, rkid, rsd.target_sd(rsd.Sid(1, 5, (18,))), l0)
    kek_table = [[crypto.kek_nonce(h, chain.l2[i][j], NONCE) for j in range(32)] for i in range(32)]
    a, b = w["envelope"]
    l1, l2 = w["request"]
    env = make_envelope(G, chain, h, a, b, w["shape"], rkid, l0)
    if 0 <= l1 <= 31 and 0 <= l2 <= 31:
        check_point(rec, G, B, env, chain, kek_table, h, a, b, w["shape"], l1, l2, rkid, l0)
    else:
        kid = B.KeyIdentifier(version=1, flags=0, l0=l0, l1=l1, l2=l2, root_key_identifier=rkid, key_info=NONCE, domain_name="", forest_name="")
        mon.KDFS.n, mon.KDFS.limit = 0, KDF_BUDGET
        try:
            env.get_kek(kid)
            rec.violation("out-of-range-returned-key", "returned", w)
        except mon.BudgetExceeded:
            rec.violation("l2-walk-no-cover-check", "budget exceeded", w)
        except Exception:
            pass
        finally:
            mon.KDFS.limit = 1 << 62
    rec.case(("replay", 1))
