"""C04 - a modified blob never decrypts to different plaintext.

Monitor: every enumerated mutation of a valid blob is decrypted by the real code with the correct
offline key material under the network guard; the outcome class is recorded (same plaintext |
error | needs-network | budget).  Bytes different from the original plaintext = violation.
"""
from __future__ import annotations

import typing as t

from vf.core.framework import Recorder
from vf.instruments import monitors as mon
from vf.props import common, mutate

ID = "C04"
LEVEL = "fault_enumeration"
RULE = (
    "base blobs = 16 configurations x 2 layouts (as a Windows peer emits them, plaintext lengths 0/1/17/300). mutations: every single-bit flip "
    "(thorough: all base blobs; quick: all bits of 8 base blobs incl. one nonce + one ECDH per layout, and a stratified 1/16 of the others), every "
    "truncation, every single-byte deletion, DER-field-boundary substitutions / insertions / duplications, ciphertext<->tag swaps, content moved between "
    "envelope and trailer, multi-site random mutations. distinct = digest of the mutated bytes; non-trivial = mutation inside the CMS structure (not appended garbage)"
    " Also: contents of 64 KiB .. 3 MiB (thorough 64 MiB) around 2^16/2^20/2^24 with flips at chunk boundaries, tag, wrapped CEK, nonce; base blobs whose plaintext is itself a blob; interleaved-* shards (valid blob of A then altered blob of B of the same length on one cache); algorithm substitutions."
)
ASSUMPTIONS = [
    "alterations = flips, substitutions, insertions, deletions, truncations, multi-site and consistent structural rewrites of a valid blob by a party that does not re-encrypt; producing a NEW blob under a KEK the producer can compute (public-key mode has no origin authentication; a degenerate DH value makes the KEK public) is creating, not altering, and is outside the statement",
    "correct key material = the offline root key of the base blob; the audit-hook network guard classifies attempts to reach a DC",
    "a run in which no mutation is benign, or every mutation fails at the first parser step, would be inconclusive (outcome histogram is checked)",
]
KDF_BUDGET = 400
FULL_QUICK = {"NESTED-nonce-envelope", "NESTED-nonce-trailing", "SHA256-nonce-envelope", "SHA256-nonce-trailing", "SHA1-ECDH_P256-envelope", "SHA512-ECDH_P256-trailing", "SHA384-nonce-envelope", "SHA512-ECDH_P384-envelope", "SHA1-nonce-trailing", "SHA256-ECDH_P384-trailing"}


def plan(tier, seed):
    specs = []
    names = [b.name for b in mutate.base_blobs(seed)]
    for n in names:
        full = tier == "thorough" or n in FULL_QUICK
        stride = 1 if full else 16
        if "-DH-" in n and tier == "quick":
            stride = 48
        parts = 4 if (full and tier == "thorough" and "-DH-" in n) else 1
        for part in range(parts):
            specs.append({"name": f"flips-{n}" + (f"-{part}" if parts > 1 else ""), "kind": "flips", "base": n, "stride": stride, "part": part, "parts": parts})
    for i in range(8):
        specs.append({"name": f"struct-{i}", "kind": "structural", "bases": names[i::8], "n": 150 if tier == "quick" else 6000})
    # key agreement plays no role for these mutations: the quick tier uses the cheap (nonce / P-256) bases only
    det = names if tier == "thorough" else [n for n in names if "-nonce-" in n or n in ("SHA1-ECDH_P256-envelope", "SHA512-ECDH_P256-trailing")]
    for i in range(min(16, len(det))):
        specs.append({"name": f"deterministic-{i}", "kind": "deterministic", "bases": det[i::16] if tier == "thorough" else det[i : i + 1]})
    # large contents: sizes around the thresholds at which an implementation may switch to another decryption path
    sizes = [65535, 65536, 65537, 2**20 - 16, 2**20 - 15, 2**20, 2**20 + 1, 2**20 + 17, 3 * 2**20 + 5]
    if tier == "thorough":
        sizes += [2**16 - 16, 2**18 + 3, 2**24 - 16, 2**24 + 1, 2**25 + 7, 2**26 + 3]
    for i, sz in enumerate(sizes):
        specs.append({"name": f"large-{sz}", "kind": "large", "size": sz, "layouts": ["envelope", "trailing"]})
    for i in range(2 if tier == "quick" else 8):
        specs.append({"name": f"interleaved-{i}", "kind": "interleaved", "n": 400 if tier == "quick" else 6000})
    return specs


def finalize(agg, tier):
    r = []
    for c in ("mutations_executed", "outcome_error", "outcome_same_plaintext", "algorithm_substitutions", "deterministic_structure_mutations", "async_executions"):
        if agg.counter(c) == 0:
            r.append(f"monitor never reached / outcome class never seen: {c}")
    if len(agg.sets.get("error_sites", ())) < 4:
        r.append(f"mutations fail at only {len(agg.sets.get('error_sites', ()))} distinct places: workload too shallow")
    if agg.counter("reached_crypto") == 0:
        r.append("no mutation reached key derivation / decryption")
    return r


_LOOP = None
_N = [0]


def execute(rec: Recorder, base: mutate.Base, cache, mutated: bytes, label: str, wit_extra: dict, embed: bool = True) -> str:
    import asyncio

    import dpapi_ng

    global _LOOP
    wit = dict(wit_extra, base=base.name, mutation=label)
    if embed:
        wit["mutated"] = mutated
    mon.KDFS.n, mon.KDFS.limit = 0, KDF_BUDGET
    _N[0] += 1
    use_async = _N[0] % 8 == 0  # every 8th mutation goes through the async variant
    try:
        with mon.NET.guard():
            if use_async:
                if _LOOP is None:
                    _LOOP = asyncio.new_event_loop()
                    asyncio.set_event_loop(_LOOP)
                rec.count("async_executions")
                got = _LOOP.run_until_complete(dpapi_ng.async_ncrypt_unprotect_secret(mutated, cache=cache))
            else:
                got = dpapi_ng.ncrypt_unprotect_secret(mutated, cache=cache)
    except mon.NetworkAttempt:
        rec.count("outcome_needs_network")
        return "needs-network"
    except mon.BudgetExceeded:
        rec.count("outcome_budget_exceeded")  # belongs to C05
        return "budget"
    except Exception as e:
        rec.count("outcome_error")
        rec.seen("error_sites", f"{type(e).__name__}@{mon.exc_site(e)}")
        if mon.KDFS.n:
            rec.count("reached_crypto")
        return "error"
    finally:
        mon.KDFS.limit = 1 << 62
    rec.count("reached_crypto")
    if got == base.plaintext:
        rec.count("outcome_same_plaintext")
        return "same"
    rec.violation("different-plaintext", f"{base.name} {label}: unprotect returned {len(got)} bytes that differ from the original plaintext ({len(base.plaintext)} bytes)", wit)
    return "different"


def run_flips(spec, rec: Recorder):
    mon.KDFS.install()
    base = mutate.base_blobs(spec["seed"], [spec["base"]])[0]
    cache = mutate.offline_cache(base)
    # sanity: the unmodified blob decrypts
    if execute(rec, base, cache, base.blob, "identity", {}) != "same":
        rec.inconclusive_because(f"base blob {base.name} does not decrypt unmodified")
        return
    n = len(base.blob)
    bits = list(range(n * 8))[spec["part"] :: spec["parts"]]
    if spec["stride"] > 1:
        bits = [b for b in bits if b % spec["stride"] == (spec["seed"] + b // (8 * spec["stride"])) % spec["stride"]]
    hist: t.Dict[str, int] = {}
    for bit in bits:
        out = execute(rec, base, cache, mutate.flip(base.blob, bit), f"flip bit {bit}", {"bit": bit})
        hist[out] = hist.get(out, 0) + 1
        rec.count("mutations_executed")
    rec.bulk(len(bits), len(bits))
    if spec["stride"] == 1 and spec["parts"] == 1:
        rec.mark_exhaustive(f"every single-bit flip of {base.name} ({n} bytes)")
    # truncations and single-byte deletions (all)
    for k in range(n):
        execute(rec, base, cache, base.blob[:k], f"truncate to {k}", {"truncate": k})
        execute(rec, base, cache, base.blob[:k] + base.blob[k + 1 :], f"delete byte {k}", {"delete": k})
        rec.count("mutations_executed", 2)
    rec.bulk(2 * n, 2 * n)
    rec.sample({"base": base.name, "blob_len": n, "bit_flips": len(bits), "stride": spec["stride"], "outcomes": hist, "blob": base.blob})


def run_structural(spec, rec: Recorder):
    from vf.ref import cms

    mon.KDFS.install()
    rng = common.rng_for(ID, spec)
    bases = mutate.base_blobs(spec["seed"], spec["bases"])
    for base in bases:
        cache = mutate.offline_cache(base)
        p = cms.parse(base.blob)
        ct = p["enc_content"]
        special = []
        if len(ct) >= 17:
            special.append(("tag<->ciphertext swap", cms.build(p["key_identifier"], p["descriptor_raw"], p["enc_cek"], ct[-16:] + ct[:-16], p["content_params"], in_envelope=base.layout == "envelope")))
        special.append(("content moved to the other layout", cms.build(p["key_identifier"], p["descriptor_raw"], p["enc_cek"], ct, p["content_params"], in_envelope=base.layout != "envelope")))
        special.append(("content in both places", cms.build(p["key_identifier"], p["descriptor_raw"], p["enc_cek"], ct, p["content_params"], in_envelope=True) + ct))
        special.append(("envelope content + trailing garbage", cms.build(p["key_identifier"], p["descriptor_raw"], p["enc_cek"], ct, p["content_params"], in_envelope=True) + rng.randbytes(20)))
        special.append(("tag dropped", cms.build(p["key_identifier"], p["descriptor_raw"], p["enc_cek"], ct[:-16], p["content_params"], in_envelope=base.layout == "envelope")))
        special.append(("tag zeroed", cms.build(p["key_identifier"], p["descriptor_raw"], p["enc_cek"], ct[:-16] + bytes(16), p["content_params"], in_envelope=base.layout == "envelope")))
        special.append(("ciphertext truncated by a block, tag kept", cms.build(p["key_identifier"], p["descriptor_raw"], p["enc_cek"], ct[:-32] + ct[-16:] if len(ct) >= 32 else ct, p["content_params"], in_envelope=base.layout == "envelope")))
        special.append(("other nonce", cms.build(p["key_identifier"], p["descriptor_raw"], p["enc_cek"], ct, cms.gcm_parameters(rng.randbytes(12)), in_envelope=base.layout == "envelope")))
        special.append(("enc_cek halves swapped", cms.build(p["key_identifier"], p["descriptor_raw"], p["enc_cek"][20:] + p["enc_cek"][:20], ct, p["content_params"], in_envelope=base.layout == "envelope")))
        for label, m in special:
            out = execute(rec, base, cache, m, label, {})
            rec.count("mutations_executed")
            rec.seen("special_outcomes", f"{label}: {out}")
            rec.case(m, nontrivial=True)
        for label, m in mutate.structural_mutations(base.blob, rng, spec["n"]):
            execute(rec, base, cache, m, label, {})
            rec.count("mutations_executed")
            rec.case(m, nontrivial=label != "append-garbage")
        for _ in range(spec["n"]):  # multi-site random
            b = bytearray(base.blob)
            for _ in range(rng.randrange(2, 6)):
                k = rng.randrange(3)
                i = rng.randrange(len(b))
                if k == 0:
                    b[i] ^= 1 << rng.randrange(8)
                elif k == 1:
                    b[i] = rng.randrange(256)
                else:
                    del b[i]
            execute(rec, base, cache, bytes(b), "multi-site", {})
            rec.count("mutations_executed")
            rec.case(bytes(b), nontrivial=True)
    rec.sample({"bases": spec["bases"], "structural_mutations_each": spec["n"], "special": [s[0] for s in special]})


def run_deterministic(spec, rec: Recorder):
    mon.KDFS.install()
    rng = common.rng_for(ID, spec)
    for base in mutate.base_blobs(spec["seed"], spec["bases"]):
        cache = mutate.offline_cache(base)
        n = 0
        for label, m in mutate.deterministic_structure_mutations(base.blob):
            execute(rec, base, cache, m, label, {})
            n += 1
        rec.count("deterministic_structure_mutations", n)
        k = 0
        for label, m in mutate.algorithm_substitutions(base, rng):
            out = execute(rec, base, cache, m, label, {})
            rec.seen("algorithm_substitution_outcomes", out)
            k += 1
        rec.count("algorithm_substitutions", k)
        # blobs made from PUBLIC data only, for the victim's root key id and SID: the key-encryption key is derived from a
        # degenerate seed (empty / all-zero L2 key, or the public constants) at the base's position and at the positions a
        # cache treats specially ((31,31), (0,0), (31,0), (0,31)).  None of them may decrypt: if one does, anybody can forge.
        from vf.ref import cms as _cms, crypto as _crypto, gkdi as _rg

        p_ = _cms.parse(base.blob)
        kid0 = _rg.dec_key_identifier(p_["key_identifier"])
        sid0 = p_.get("descriptor_value")
        forged = 0
        if sid0:
            for pos in {(kid0["l1"], kid0["l2"]), (31, 31), (0, 0), (31, 0), (0, 31)}:
                for seed_name, seed_ in (("empty", b""), ("zero64", bytes(64)), ("root-key-id", kid0["root_key_identifier"].bytes_le * 4)):
                    nonce = rng.randbytes(32)
                    kek = _crypto.kek_nonce(base.rk.hash_name, seed_, nonce)
                    evil = b"forged from public data"
                    fb = _cms.reference_protect(evil, sid0, base.rkid, base.rk, kid0["l0"], pos[0], pos[1], nonce=nonce, cek=rng.randbytes(32), gcm_nonce=rng.randbytes(12), in_envelope=base.layout == "envelope", domain=kid0["domain_name"], forest=kid0["forest_name"], public=dict(key_info=nonce, kek=kek))
                    # (reference_protect marks caller-supplied KEKs as public-key mode: clear that flag again - nonce mode)
                    off = fb.find(_cms.parse(fb)["key_identifier"])
                    fb = fb[: off + 8] + (int.from_bytes(fb[off + 8 : off + 12], "little") & ~1).to_bytes(4, "little") + fb[off + 12 :]
                    execute(rec, base, cache, fb, f"forged under the {seed_name} seed at {pos}", {"forged_seed": seed_name, "position": list(pos)})
                    forged += 1
        rec.count("forged_from_public_data", forged)
        rec.count("mutations_executed", n + k)
        rec.bulk(n + k, n + k)
        rec.mark_exhaustive(f"per-TLV delete/empty/duplicate, all values of short primitives, algorithm substitution matrix for {base.name}")
    rec.sample({"kind": "deterministic structure + algorithm substitutions", "bases": spec["bases"], "structure_mutations": n, "algorithm_substitutions": k})


def run_large(spec, rec: Recorder):
    """Authentication must not depend on the size of the content: blobs whose encrypted content is 64 KiB .. 64 MiB, with
    flips in the first / block-boundary / middle / last ciphertext bytes, in every tag byte, in the wrapped CEK and the GCM
    nonce, and a one-byte truncation.  (The mutated blob is not embedded in the witness: size + position reproduce it.)"""
    import uuid as _uuid

    from vf.props import online
    from vf.ref import cms

    mon.KDFS.install()
    rng = common.rng_for(ID, spec)
    size = spec["size"]
    rkid = _uuid.UUID(int=rng.getrandbits(128))
    rk = online.root_key(rng, rng.choice(common.HASHES), "DH")
    for layout in spec["layouts"]:
        pt = rng.randbytes(size)
        mode = "nonce" if layout == "envelope" or size > 2**21 else "public"
        blob = online.ref_blob(rng, rkid, rk, online.gen_sid(rng, n=2), (361, rng.randrange(32), rng.randrange(32)), mode, pt, in_envelope=(layout == "envelope"), domain="mut.test")
        base = mutate.Base(f"large-{size}-{layout}", blob, pt, rkid, rk, mode, layout)
        cache = mutate.offline_cache(base)
        if execute(rec, base, cache, blob, "identity", {"size": size}, embed=False) != "same":
            rec.inconclusive_because(f"large base blob ({size} bytes, {layout}) does not decrypt unmodified")
            return
        parsed = cms.parse(blob)
        ct = parsed["enc_content"]
        off = blob.rfind(ct)
        if off < 0 or len(ct) != size + 16:
            rec.inconclusive_because("cannot locate the encrypted content inside the reference blob")
            return
        pos = {0, 1, 15, 16, 17, 4095, 4096, 65535, 65536, 65537, size // 2, size - 17, size - 16, size - 1}
        pos |= {k * 65536 + d for k in (1, 2, 15, 16, 17, size // 65536) for d in (-1, 0, 1)}
        pos |= {rng.randrange(size) for _ in range(12)}
        pos = sorted(q for q in pos if 0 <= q < size)
        hist: t.Dict[str, int] = {}
        for q in pos:
            out = execute(rec, base, cache, mutate.flip(blob, (off + q) * 8 + rng.randrange(8)), f"flip in ciphertext byte {q} of {size}", {"size": size, "ct_byte": q, "layout": layout}, embed=False)
            hist[out] = hist.get(out, 0) + 1
            rec.count("large_ciphertext_flips")
        for tb in range(16):
            out = execute(rec, base, cache, mutate.flip(blob, (off + size + tb) * 8 + rng.randrange(8)), f"flip in tag byte {tb} ({size} byte content)", {"size": size, "tag_byte": tb, "layout": layout}, embed=False)
            hist[out] = hist.get(out, 0) + 1
            rec.count("large_tag_flips")
        for name in ("enc_cek", "gcm_nonce"):
            o2 = blob.find(parsed[name])
            for _ in range(4):
                out = execute(rec, base, cache, mutate.flip(blob, (o2 + rng.randrange(len(parsed[name]))) * 8 + rng.randrange(8)), f"flip in {name} ({size} byte content)", {"size": size, "field": name, "layout": layout}, embed=False)
                hist[out] = hist.get(out, 0) + 1
        out = execute(rec, base, cache, blob[:-1], f"truncate by one byte ({size} byte content)", {"size": size, "truncate_tail": 1, "layout": layout}, embed=False)
        hist[out] = hist.get(out, 0) + 1
        n = len(pos) + 16 + 8 + 1
        rec.count("mutations_executed", n)
        rec.count("large_blobs")
        rec.range("large_content_bytes", size)
        rec.bulk(n, n)
        rec.sample({"kind": "large content", "size": size, "layout": layout, "mode": mode, "mutations": n, "outcomes": hist})
        if hist.get("same", 0):
            rec.violation("large-content-flip-ignored", f"{size} byte content, {layout}: a flip inside ciphertext / tag / wrapped CEK / nonce left the result unchanged {hist}", {"size": size, "layout": layout})


def run_interleaved(spec, rec: Recorder):
    """One cache, many blobs: valid blobs of secret A alternate with altered blobs of secret B of exactly the same length
    (short-lived buffers, so that a later input often occupies the memory of an earlier one).  An altered blob of B must fail
    or give B - never the secret of whatever was decrypted before it."""
    import uuid as _uuid

    import dpapi_ng
    from vf.props import online
    from vf.ref import cms

    mon.KDFS.install()
    rng = common.rng_for(ID, spec)
    rkid = _uuid.UUID(int=rng.getrandbits(128))
    rk = online.root_key(rng, rng.choice(common.HASHES), "DH")
    cache = dpapi_ng.KeyCache()
    online.load_into_cache(cache, rkid, rk)
    sid = online.gen_sid(rng, n=3)
    ptlen = rng.choice([16, 33, 200])
    hist: t.Dict[str, int] = {}
    for i in range(spec["n"]):
        layout = "envelope" if i % 4 < 2 else "trailing"
        pos = (361, rng.randrange(32), rng.randrange(32))
        pt_a, pt_b = rng.randbytes(ptlen), rng.randbytes(ptlen)
        a = online.ref_blob(rng, rkid, rk, sid, pos, "nonce", pt_a, in_envelope=(layout == "envelope"), domain="mut.test")
        b = online.ref_blob(rng, rkid, rk, sid, pos, "nonce", pt_b, in_envelope=(layout == "envelope"), domain="mut.test")
        base_a = mutate.Base(f"interleaved-A-{i}", a, pt_a, rkid, rk, "nonce", layout)
        base_b = mutate.Base(f"interleaved-B-{i}", b, pt_b, rkid, rk, "nonce", layout)
        if execute(rec, base_a, cache, bytes(bytearray(a)), "identity", {"kind": "interleaved", "shard": spec["name"], "round": i}, embed=False) != "same":
            rec.inconclusive_because("interleaved: a valid blob did not decrypt")
            return
        # altered B, same length as A, in a freshly allocated buffer
        ct = cms.parse(b)["enc_content"]
        off = b.rfind(ct)
        where = rng.choice(["ciphertext", "tag", "cek", "anywhere"])
        bit = {"ciphertext": (off + rng.randrange(max(1, len(ct) - 16))) * 8, "tag": (off + len(ct) - 1 - rng.randrange(16)) * 8, "cek": b.find(cms.parse(b)["enc_cek"]) * 8 + rng.randrange(320), "anywhere": rng.randrange(len(b) * 8)}[where] + rng.randrange(8) * (where != "cek")
        m = mutate.flip(b, min(bit, len(b) * 8 - 1))
        del a
        out = execute(rec, base_b, cache, m, f"flip in {where} after another blob of the same length was decrypted on the same cache", {"kind": "interleaved", "shard": spec["name"], "round": i, "bit": bit}, embed=False)
        hist[out] = hist.get(out, 0) + 1
        rec.count("mutations_executed")
        rec.count("interleaved_rounds")
        rec.case(("interleaved", spec["name"], i), nontrivial=True)
    rec.sample({"kind": "interleaved on one cache", "rounds": spec["n"], "plaintext_len": ptlen, "outcomes": hist})


def run_shard(spec, rec: Recorder):
    if not common.calibrate(rec, "der", "gkdi", "cms", "crypto"):
        return
    if spec["kind"] == "interleaved":
        run_interleaved(spec, rec)
        return
    {"flips": run_flips, "structural": run_structural, "deterministic": run_deterministic, "large": run_large}[spec["kind"]](spec, rec)


def replay(body, rec: Recorder):
    w = body["witness"]
    mon.KDFS.install()
    if str(w.get("base", "")).startswith("large-") or "size" in w:
        sz = int(w.get("size") or str(w["base"]).split("-")[1])
        run_large({"name": f"large-{sz}", "seed": body["seed"], "tier": body["tier"], "kind": "large", "size": sz, "layouts": ["envelope", "trailing"]}, rec)
        rec.violations[:] = [v for v in rec.violations if v["mechanism"] == body["mechanism"]][:3]
        return
    base = mutate.base_blobs(body["seed"], [w["base"]])[0]
    cache = mutate.offline_cache(base)
    if "bit" in w:
        m = mutate.flip(base.blob, w["bit"])
    elif "truncate" in w:
        m = base.blob[: w["truncate"]]
    elif "delete" in w:
        m = base.blob[: w["delete"]] + base.blob[w["delete"] + 1 :]
    elif "hex" in w.get("mutated", {}):
        m = bytes.fromhex(w["mutated"]["hex"])
    else:
        rec.inconclusive_because("witness too large to embed: re-run the shard " + body["shard"])
        return
    execute(rec, base, cache, m, w.get("mutation", "replay"), {})
    rec.case(m)
