"""C07 - ASN.1 DER primitives: minimal encoding, exact decoding, exact consumption.

Monitor: every value is written through the public ASN1Writer, compared byte-for-byte with the
independent ref.der encoder, read back through the public ASN1Reader, and the reader's
remaining data is inspected after every read.
"""
from __future__ import annotations

import random
import typing as t

from vf.core.framework import Recorder
from vf.props import common
from vf.ref import der

ID = "C07"
LEVEL = "exploration"
RULE = (
    "cases = (type, value) pairs pushed through ASN1Writer -> ref.der comparison -> ASN1Reader -> leftover check; "
    "integers enumerated exhaustively over all 1..2 (quick) / 1..3 (thorough) content octets plus +-2^k,+-(2^k+-1) to 2^4096 "
    "and random to 2^8192; OIDs, strings, tags, lengths, nested trees and concatenations generated from VERIF_SEED. "
    "distinct = digest of (type, value); non-trivial = not one of the literal values used by tests/test_asn1.py"
)
ASSUMPTIONS = [
    "ref.der transcribes X.690 correctly (calibrated on X.690 examples each run)",
    "universal-class tags are restricted to the numbers X.680 defines (the reader maps them onto an enum)",
]

SUITE_INTS = {0, 1, 16, 17, 127, 128, 129, 255, 256, 257, 32767, 32768, 32769, 748591}
SUITE_INTS |= {-v for v in SUITE_INTS}



_buf_n = [0]


def as_buffer(data: bytes):
    """The reader is documented to take bytes, bytearray or memoryview: the same encoding is handed over in each of these
    (memoryviews of unsigned bytes, whole and sliced).  Views with other item formats (signed char, char - what array('b') or
    ctypes give) are NOT used: the property does not speak of them, and two independently written property-preserving
    refactors (C06-r3bB, C07-r3bA) do not support them either, so judging them would alarm on code where the property holds."""
    _buf_n[0] += 1
    k = _buf_n[0] % 6
    if k == 1:
        return bytearray(data)
    if k == 2:
        return memoryview(data)
    if k == 3:
        return memoryview(bytearray(b"\x00" + data + b"\x00"))[1:-1]
    return data


def plan(tier: str, seed: int) -> t.List[dict]:
    specs: t.List[dict] = []
    if tier == "quick":
        # exhaustive 1..2 octets, split in 4; 3-octet boundary bands; others
        for i in range(4):
            specs.append({"name": f"int-exh2-{i}", "kind": "int_range", "lo": -32768 + i * 16384, "hi": -32768 + (i + 1) * 16384})
        specs.append({"name": "int-bands3", "kind": "int_bands"})
        nshard = 8
        rand_n = 4000
    else:
        width = (1 << 24) // 32
        for i in range(32):
            specs.append({"name": f"int-exh3-{i}", "kind": "int_range", "lo": -(1 << 23) + i * width, "hi": -(1 << 23) + (i + 1) * width})
        nshard = 16
        rand_n = 60000
    specs.append({"name": "int-pow2", "kind": "int_pow2"})
    for i in range(nshard):
        specs.append({"name": f"mix-{i}", "kind": "mix", "n": rand_n})
    specs.append({"name": "strings-lengths", "kind": "lengths", "big": tier == "thorough"})
    specs.append({"name": "tags", "kind": "tags"})
    return specs


def finalize(agg, tier: str) -> t.List[str]:
    r = []
    for c in ("int_checked", "oid_checked", "tag_checked", "tree_checked", "concat_checked", "string_checked", "bool_checked", "reader_api_checked"):
        if agg.counter(c) == 0:
            r.append(f"monitor never reached: {c} == 0")
    if agg.counter("reader_leftover_checks") == 0:
        r.append("leftover monitor never ran")
    return r


# ---------------------------------------------------------------------------
def _asn1():
    from dpapi_ng import _asn1

    return _asn1


def check_int(rec: Recorder, v: int, a=None, enumerated: bool = False) -> None:
    a = a or _asn1()
    kind = "enum" if enumerated else "int"
    want = der.enc_enum(v) if enumerated else der.enc_int(v)
    try:
        w = a.ASN1Writer()
        (w.write_enumerated if enumerated else w.write_integer)(v)
        got = bytes(w.get_data())
    except Exception as e:
        rec.violation(f"{kind}-enc-exception", f"writing {kind} {v} raised {type(e).__name__}: {e}", {"kind": kind, "value": str(v)})
        return
    if got != want:
        rec.violation(f"{kind}-enc-mismatch", f"{kind} {v}: writer {got.hex()} != DER {want.hex()}", {"kind": kind, "value": str(v)})
        return
    try:
        r = a.ASN1Reader(as_buffer(want))
        back = r.read_enumerated(int) if enumerated else r.read_integer()
        left = r.get_remaining_data()
    except Exception as e:
        mech = "asn1-int-carry" if (v < 0 and want[-1] == 0) else f"{kind}-dec-exception"
        rec.violation(mech, f"reading {kind} {want.hex()} ({v}) raised {type(e).__name__}: {e}", {"kind": kind, "value": str(v)})
        return
    rec.count("reader_leftover_checks")
    if back != v:
        rec.violation(f"{kind}-dec-mismatch", f"reading {want.hex()} gave {back}, expected {v}", {"kind": kind, "value": str(v)})
    elif left:
        rec.violation(f"{kind}-consumed-mismatch", f"{len(left)} bytes left after reading {want.hex()}", {"kind": kind, "value": str(v)})


def run_int_range(spec: dict, rec: Recorder) -> None:
    a = _asn1()
    lo, hi = spec["lo"], spec["hi"]
    W, R = a.ASN1Writer, a.ASN1Reader
    enc_int = der.enc_int
    bad = 0
    for v in range(lo, hi):
        want = enc_int(v)
        ok = False
        try:
            w = W()
            w.write_integer(v)
            if bytes(w.get_data()) == want:
                r = R(want)
                if r.read_integer() == v and not r.get_remaining_data():
                    ok = True
        except Exception:
            pass
        if not ok:
            bad += 1
            if bad <= 5:
                check_int(rec, v, a)  # slow path records the precise mechanism + witness
    n = hi - lo
    suite = sum(1 for s in SUITE_INTS if lo <= s < hi)
    rec.bulk(n, n - suite)
    rec.count("int_checked", n)
    rec.count("reader_leftover_checks", n)
    rec.mark_exhaustive(f"integers [{lo},{hi})")
    rec.sample({"kind": "int_range", "lo": lo, "hi": hi, "example": {"value": lo, "der": enc_int(lo).hex()}})
    if bad > 5:
        rec.count("int_failures_beyond_first_5", bad - 5)


def band_values() -> t.List[int]:
    vals = set()
    for c in (1 << 15, 1 << 16, 1 << 23, 1 << 24, 1 << 31, 1 << 32, 1 << 63, 1 << 64):
        for d in range(-300, 301):
            vals.add(c + d)
            vals.add(-c + d)
    for hi in range(-128, 128):  # every 3-octet content whose low two octets are 0x0000 / 0xffff / 0x00ff / 0xff00
        for low in (0x0000, 0xFFFF, 0x00FF, 0xFF00, 0x8000, 0x7FFF):
            vals.add(int.from_bytes(bytes([hi & 0xFF]) + low.to_bytes(2, "big"), "big", signed=True))
    return sorted(vals)


def run_int_list(vals: t.Iterable[int], rec: Recorder) -> None:
    a = _asn1()
    for v in vals:
        check_int(rec, v, a)
        rec.case(("int", v), nontrivial=v not in SUITE_INTS)
        rec.count("int_checked")
    rec.sample({"kind": "int", "value": str(v), "der": der.enc_int(v).hex()[:80]})


def pow2_values() -> t.List[int]:
    vals = []
    for k in range(0, 4097):
        for d in (-1, 0, 1):
            vals.append((1 << k) + d)
            vals.append(-(1 << k) + d)
    return vals


# --- OIDs -------------------------------------------------------------------
ARC_SIZES = [0, 1, 39, 40, 47, 48, 127, 128, 999, 16383, 16384, 2**21 - 1, 2**21, 2**32, 2**64, 2**70]


def gen_oid(rng: random.Random) -> t.List[int]:
    first = rng.choice([0, 1, 2])
    if first < 2:
        second = rng.choice([0, 1, 39, rng.randrange(40)])
    else:
        second = rng.choice([0, 39, 40, 47, 48, 999, 2**32, rng.randrange(200), rng.randrange(1 << rng.randrange(1, 40))])
    n = rng.choice([0, 1, 2, 3, 5, 8, 13, 38])
    return [first, second] + [rng.choice(ARC_SIZES + [rng.randrange(1 << rng.randrange(1, 72))]) for _ in range(n)]


def check_oid(rec: Recorder, arcs: t.List[int]) -> None:
    a = _asn1()
    s = ".".join(str(x) for x in arcs)
    want = der.enc_oid(arcs)
    wit = {"kind": "oid", "value": s}
    try:
        w = a.ASN1Writer()
        w.write_object_identifier(s)
        got = bytes(w.get_data())
    except Exception as e:
        mech = "asn1-oid-first-arc" if arcs[0] == 2 and arcs[1] > 39 else "oid-enc-exception"
        rec.violation(mech, f"writing OID {s} raised {type(e).__name__}: {e}", wit)
        return
    if got != want:
        rec.violation("oid-enc-mismatch", f"OID {s}: writer {got.hex()} != DER {want.hex()}", wit)
        return
    try:
        r = a.ASN1Reader(as_buffer(want))
        back = r.read_object_identifier()
        left = r.get_remaining_data()
    except Exception as e:
        rec.violation("oid-dec-exception", f"reading OID {want.hex()} raised {type(e).__name__}: {e}", wit)
        return
    rec.count("reader_leftover_checks")
    if back != s:
        mech = "asn1-oid-first-arc" if arcs[0] == 2 and arcs[1] > 39 else "oid-dec-mismatch"
        rec.violation(mech, f"reading {want.hex()} gave {back}, expected {s}", wit)
    elif left:
        rec.violation("oid-consumed-mismatch", f"{len(left)} bytes left after OID {s}", wit)


# --- strings / bool -------------------------------------------------------------
def rand_text(rng: random.Random, n: int) -> str:
    alphabet = ["a", "Z", "0", " ", "é", "ß", "Ω", "ж", "中", " ", "😀", "𝄞", "\x00", "\x7f"]
    return "".join(rng.choice(alphabet) for _ in range(n))


def check_string(rec: Recorder, kind: str, value: t.Any) -> None:
    a = _asn1()
    if kind == "octets":
        want = der.enc_octets(value)
    elif kind == "utf8":
        want = der.enc_utf8(value)
    else:
        want = der.enc_gentime(value)
    wit = {"kind": kind, "value": value if isinstance(value, str) else {"len": len(value), "hex_prefix": bytes(value[:32]).hex()}}
    try:
        w = a.ASN1Writer()
        {"octets": w.write_octet_string, "utf8": w.write_utf8_string, "gentime": w.write_generalized_time}[kind](value)
        got = bytes(w.get_data())
    except Exception as e:
        rec.violation(f"{kind}-enc-exception", f"writing {kind} raised {type(e).__name__}: {e}", wit)
        return
    if got != want:
        rec.violation(f"{kind}-enc-mismatch", f"{kind} len {len(value)}: writer {got[:16].hex()}.. != DER {want[:16].hex()}..", wit)
        return
    try:
        r = a.ASN1Reader(as_buffer(want))
        back = {"octets": r.read_octet_string, "utf8": r.read_utf8_string, "gentime": r.read_generalized_time}[kind]()
        left = r.get_remaining_data()
    except Exception as e:
        rec.violation(f"{kind}-dec-exception", f"reading {kind} raised {type(e).__name__}: {e}", wit)
        return
    rec.count("reader_leftover_checks")
    if back != value:
        rec.violation(f"{kind}-dec-mismatch", f"{kind} read back differs", wit)
    elif left:
        rec.violation(f"{kind}-consumed-mismatch", f"{len(left)} bytes left", wit)


def check_bool(rec: Recorder, v: bool) -> None:
    a = _asn1()
    w = a.ASN1Writer()
    w.write_boolean(v)
    got = bytes(w.get_data())
    want = der.enc_bool(v)
    if got != want:
        rec.violation("bool-enc-mismatch", f"bool {v}: {got.hex()} != {want.hex()}", {"kind": "bool", "value": v})
        return
    r = a.ASN1Reader(as_buffer(want))
    back = r.read_boolean()
    rec.count("reader_leftover_checks")
    if back is not v or r.get_remaining_data():
        rec.violation("bool-dec-mismatch", f"bool {v} read back {back}", {"kind": "bool", "value": v})


# --- tags ---------------------------------------------------------------------
TAG_NUMBERS = list(range(0, 31)) + [31, 32, 36, 127, 128, 255, 256, 16383, 16384, 2**21, 2**32, 2**35 + 5]


def check_tag(rec: Recorder, cls: int, number: int, constructed: bool, content: bytes) -> None:
    a = _asn1()
    wit = {"kind": "tag", "cls": cls, "number": number, "constructed": constructed, "len": len(content)}
    want = der.tlv(cls, constructed, number, content)
    tag = a.ASN1Tag(a.TagClass(cls), number, constructed)
    try:
        w = a.ASN1Writer()
        w.write_octet_string(content, tag)
        got = bytes(w.get_data())
    except Exception as e:
        rec.violation("tag-enc-exception", f"writing tag {wit} raised {type(e).__name__}: {e}", wit)
        return
    if got != want:
        rec.violation("tag-enc-mismatch", f"tag {wit}: writer {got[:12].hex()} != DER {want[:12].hex()}", wit)
        return
    try:
        r = a.ASN1Reader(want + b"\x05\x00")
        hdr = r.peek_header()
        back = r.read_octet_string(tag=tag)
        left = r.get_remaining_data()
    except Exception as e:
        rec.violation("tag-dec-exception", f"reading tag {wit} raised {type(e).__name__}: {e}", wit)
        return
    rec.count("reader_leftover_checks")
    exp_hl = len(want) - len(content)
    if (int(hdr.tag.tag_class), int(hdr.tag.tag_number), bool(hdr.tag.is_constructed)) != (cls, number, constructed):
        rec.violation("tag-dec-mismatch", f"header tag {hdr.tag} for {wit}", wit)
    elif hdr.tag_length != exp_hl or hdr.length != len(content):
        rec.violation("tag-header-lengths", f"header lengths {hdr.tag_length},{hdr.length} expected {exp_hl},{len(content)}", wit)
    elif back != content or left != b"\x05\x00":
        rec.violation("tag-consumed-mismatch", f"content/leftover wrong for {wit}: left={left.hex()}", wit)


# --- trees ----------------------------------------------------------------------
def gen_tree(rng: random.Random, depth: int, budget: t.List[int]) -> t.Any:
    """('seq'|'set', tag|None, [children]) or leaf (kind, value)."""
    budget[0] -= 1
    if depth <= 0 or budget[0] <= 0 or rng.random() < 0.45:
        k = rng.choice(["int", "bool", "oid", "octets", "utf8", "enum", "gentime"])
        if k == "int" or k == "enum":
            return (k, rng.choice([0, -1, 127, 128, -128, -129, -65536, rng.randrange(-(1 << 70), 1 << 70)]))
        if k == "bool":
            return (k, rng.random() < 0.5)
        if k == "oid":
            return (k, gen_oid(rng))
        if k == "octets":
            return (k, rng.randbytes(rng.choice([0, 1, 5, 126, 127, 128, 129, 255, 256, 300])))
        if k == "utf8":
            return (k, rand_text(rng, rng.choice([0, 1, 7, 60, 130])))
        return (k, "20230405123456Z")
    kind = rng.choice(["seq", "set"])
    tag = None
    if rng.random() < 0.3:
        tag = (rng.choice([1, 2, 3]), rng.choice([0, 1, 2, 30, 31, 200]))
    n = rng.choice([0, 1, 2, 3, 4, 6])
    return (kind, tag, [gen_tree(rng, depth - 1, budget) for _ in range(n)])


def ref_encode_tree(node) -> bytes:
    if node[0] in ("seq", "set"):
        kind, tag, children = node
        body = b"".join(ref_encode_tree(c) for c in children)
        if tag:
            return der.tlv(tag[0], True, tag[1], body)
        return der.tlv(0, True, 16 if kind == "seq" else 17, body)
    k, v = node
    return {
        "int": der.enc_int,
        "enum": der.enc_enum,
        "bool": der.enc_bool,
        "oid": der.enc_oid,
        "octets": der.enc_octets,
        "utf8": der.enc_utf8,
        "gentime": der.enc_gentime,
    }[k](v)


def write_tree(a, w, node) -> None:
    if node[0] in ("seq", "set"):
        kind, tag, children = node
        t_ = a.ASN1Tag(a.TagClass(tag[0]), tag[1], True) if tag else None
        with (w.push_sequence(t_) if kind == "seq" else w.push_set(t_)) as cw:
            for c in children:
                write_tree(a, cw, c)
        return
    k, v = node
    if k == "int":
        w.write_integer(v)
    elif k == "enum":
        w.write_enumerated(v)
    elif k == "bool":
        w.write_boolean(v)
    elif k == "oid":
        w.write_object_identifier(".".join(map(str, v)))
    elif k == "octets":
        w.write_octet_string(v)
    elif k == "utf8":
        w.write_utf8_string(v)
    else:
        w.write_generalized_time(v)


def read_tree(a, r, node) -> t.Optional[str]:
    """Reads `node` from reader r; returns a description of the first mismatch or None."""
    if node[0] in ("seq", "set"):
        kind, tag, children = node
        t_ = a.ASN1Tag(a.TagClass(tag[0]), tag[1], True) if tag else None
        cr = (r.read_sequence if kind == "seq" else r.read_set)(tag=t_)
        for c in children:
            m = read_tree(a, cr, c)
            if m:
                return m
        if cr:
            return f"child reader of {kind} not empty after reading all {len(children)} children"
        return None
    k, v = node
    if k == "int":
        got = r.read_integer()
    elif k == "enum":
        got = r.read_enumerated(int)
    elif k == "bool":
        got = r.read_boolean()
    elif k == "oid":
        got = r.read_object_identifier()
        v = ".".join(map(str, v))
    elif k == "octets":
        got = r.read_octet_string()
    elif k == "utf8":
        got = r.read_utf8_string()
    else:
        got = r.read_generalized_time()
    if got != v:
        return f"{k}: read {got!r} expected {v!r}"
    return None


def check_tree(rec: Recorder, tree, label: str) -> None:
    a = _asn1()
    want = ref_encode_tree(tree) if tree[0] != "concat" else b"".join(ref_encode_tree(c) for c in tree[1])
    wit = {"kind": label, "tree": repr(tree)[:3000]}
    try:
        w = a.ASN1Writer()
        if tree[0] == "concat":
            for c in tree[1]:
                write_tree(a, w, c)
        else:
            write_tree(a, w, tree)
        got = bytes(w.get_data())
    except Exception as e:
        rec.violation(f"{label}-enc-exception", f"writing raised {type(e).__name__}: {e}", wit)
        return
    if got != want:
        rec.violation(f"{label}-enc-mismatch", f"writer output differs from DER at byte {next((i for i, (x, y) in enumerate(zip(got, want)) if x != y), min(len(got), len(want)))}", wit)
        return
    try:
        r = a.ASN1Reader(as_buffer(want))
        if tree[0] == "concat":
            m = None
            for c in tree[1]:
                m = read_tree(a, r, c)
                if m:
                    break
        else:
            m = read_tree(a, r, tree)
        left = r.get_remaining_data()
    except Exception as e:
        rec.violation(f"{label}-dec-exception", f"reading raised {type(e).__name__}: {e}", wit)
        return
    rec.count("reader_leftover_checks")
    if m:
        rec.violation(f"{label}-dec-mismatch", m, wit)
    elif left:
        rec.violation(f"{label}-consumed-mismatch", f"{len(left)} bytes left over", wit)
    # ref.der must accept what the writer produced (canonical DER)
    try:
        der.parse_all(got)
    except der.DerError as e:
        rec.violation(f"{label}-not-der", f"strict parser rejected writer output: {e}", wit)


def check_reader_api_variants(rec: Recorder, rng: random.Random) -> None:
    """The same decoding through the other entry points of the reader: peek_header + header=, skip_value,
    read_set_of / read_sequence_of, get_remaining_data on child readers, bytes / bytearray / memoryview input,
    read_enumerated with a real IntEnum, BOOLEAN contents other than 00 / FF."""
    import enum

    a = _asn1()
    items = [gen_tree(rng, rng.randrange(0, 3), [8]) for _ in range(rng.randrange(2, 7))]
    encs = [ref_encode_tree(x) for x in items]
    data = b"".join(encs)
    wit = {"kind": "reader-api", "tree": repr(("concat", items))[:3000]}
    try:
        for wrap in (bytes, bytearray, memoryview):
            r = a.ASN1Reader(as_buffer(wrap(data)))
            for enc in encs:
                hdr = r.peek_header()
                n = der.parse_at(enc, 0, len(enc))
                if (int(hdr.tag.tag_class), bool(hdr.tag.is_constructed), int(hdr.tag.tag_number)) != n.tag or hdr.tag_length != n.hdr_len or hdr.length != n.length:
                    rec.violation("peek-header-mismatch", f"peek_header gave {hdr} for {enc[:12].hex()} ({wrap.__name__} input)", wit)
                    return
                if rng.random() < 0.5:
                    r.skip_value(hdr)
                else:
                    got = r.read_octet_string(header=hdr)  # header= makes the reader accept the tag it peeked
                    if got != n.content:
                        rec.violation("read-with-header-mismatch", f"read_octet_string(header=) returned {len(got)} bytes, content is {len(n.content)}", wit)
                        return
            if r or r.get_remaining_data():
                rec.violation("reader-api-consumed-mismatch", f"bytes left after skipping / reading every value ({wrap.__name__} input)", wit)
                return
        # child readers: remaining data after reading k children equals the encodings of the rest
        seq = der.enc_seq(*encs)
        st = der.enc_set(*encs)
        for enc, reader_name in ((seq, "read_sequence"), (seq, "read_sequence_of"), (st, "read_set"), (st, "read_set_of")):
            outer = a.ASN1Reader(enc + b"\x05\x00")
            child = getattr(outer, reader_name)()
            k = rng.randrange(0, len(encs) + 1)
            for e in encs[:k]:
                child.skip_value(child.peek_header())
            rest = child.get_remaining_data()
            if rest != b"".join(encs[k:]) or bool(child) or outer.get_remaining_data() != b"\x05\x00":
                rec.violation("child-reader-remaining", f"{reader_name}: remaining data after {k} of {len(encs)} children is wrong", wit)
                return
    except Exception as e:
        rec.violation("reader-api-exception", f"{type(e).__name__}: {e}", wit)
        return

    class Color(enum.IntEnum):
        A = 0
        B = 5
        C = 300
        D = -7

    for member in Color:
        r = a.ASN1Reader(der.enc_enum(int(member)))
        got = r.read_enumerated(Color)
        if got is not member or r.get_remaining_data():
            rec.violation("enumerated-intenum", f"read_enumerated(Color) gave {got!r} for {int(member)}", {"kind": "reader-api", "value": int(member)})
    for content, want in ((b"\x00", False), (b"\xff", True), (b"\x01", True), (b"\x80", True)):
        r = a.ASN1Reader(der.tlv(0, False, 1, content) + b"\x02\x01\x07")
        if r.read_boolean() is not want or r.read_integer() != 7 or r.get_remaining_data():
            rec.violation("boolean-read", f"BOOLEAN content {content.hex()} not read as {want} / consumption wrong", {"kind": "reader-api", "content": content})
    rec.count("reader_api_checked")
    rec.count("reader_leftover_checks", 3 + 4)


# ---------------------------------------------------------------------------
def run_mix(spec: dict, rec: Recorder) -> None:
    rng = common.rng_for(ID, spec)
    n = spec["n"]
    for i in range(n):
        sel = i % 10
        if sel < 3:
            k = rng.randrange(1, 8193)
            v = rng.randrange(-(1 << k), 1 << k)
            check_int(rec, v, enumerated=(sel == 2))
            rec.case(("int", v), nontrivial=v not in SUITE_INTS)
            rec.count("int_checked")
        elif sel < 5:
            arcs = gen_oid(rng)
            check_oid(rec, arcs)
            rec.case(("oid", tuple(arcs)))
            rec.count("oid_checked")
            if i < 40:
                rec.sample({"kind": "oid", "value": ".".join(map(str, arcs))})
        elif sel < 6:
            kind = rng.choice(["octets", "utf8", "gentime"])
            ln = rng.choice([0, 1, 126, 127, 128, 129, 254, 255, 256, 257, 1000, rng.randrange(0, 3000)])
            val = rng.randbytes(ln) if kind == "octets" else (rand_text(rng, ln // 2) if kind == "utf8" else "20231231235959.%dZ" % rng.randrange(1000))
            if kind == "octets" and i % 3 == 0:
                # data that looks like other data: an OCTET STRING whose content is itself one complete DER value - an OCTET
                # STRING (as in X.509 extensions), nested several times, or any other value - possibly followed by more bytes
                inner = rng.randbytes(rng.choice([0, 1, 20, 127, 128, 300]))
                val = rng.choice([der.enc_octets(inner), der.enc_octets(der.enc_octets(inner)), der.enc_seq(der.enc_octets(inner)), der.enc_int(rng.getrandbits(64)), der.tlv(2, True, rng.choice([0, 1, 31, 200]), der.enc_octets(inner)), der.enc_octets(inner) + b"\x00", der.enc_octets(inner) + der.enc_octets(inner)])
                rec.count("octet_strings_holding_der")
            check_string(rec, kind, val)
            rec.case((kind, val))
            rec.count("string_checked")
            check_bool(rec, bool(i & 8))
            rec.count("bool_checked")
        elif sel < 8:
            tree = gen_tree(rng, rng.choice([rng.randrange(1, 13), 40, 120]), [rng.choice([5, 30, 200, 600])])
            check_tree(rec, tree, "tree")
            rec.case(("tree", repr(tree)))
            rec.count("tree_checked")
            if i < 40:
                rec.sample({"kind": "tree", "tree": repr(tree)[:400]})
        else:
            items = [gen_tree(rng, rng.randrange(0, 3), [10]) for _ in range(rng.randrange(1, 51))]
            check_tree(rec, ("concat", items), "concat")
            rec.case(("concat", repr(items)))
            rec.count("concat_checked")
            if i % 20 == 9:
                check_reader_api_variants(rec, rng)


def run_lengths(spec: dict, rec: Recorder) -> None:
    rng = common.rng_for(ID, spec)
    lens = []
    for c in (1 << 7, 1 << 8, 1 << 16):
        lens += [c - 2, c - 1, c, c + 1, c + 2]
    lens += [0, 1, 2, 65534]
    if spec.get("big"):
        lens += [(1 << 24) - 1, 1 << 24, (1 << 24) + 1]
    else:
        lens += [(1 << 20) + 3]
    for ln in lens:
        data = rng.randbytes(min(ln, 4096)) * (ln // max(1, min(ln, 4096)) + 1)
        data = data[:ln]
        check_string(rec, "octets", data)
        rec.case(("octets-len", ln))
        rec.count("string_checked")
        if ln <= (1 << 16) + 2:
            s = ("x" * ln)
            check_string(rec, "utf8", s)
            check_string(rec, "gentime", s)
            rec.case(("utf8-len", ln))
            # a constructed value of that content length as well
            a = _asn1()
            w = a.ASN1Writer()
            with w.push_sequence() as sw:
                sw.write_octet_string(data)
            got = bytes(w.get_data())
            want = der.enc_seq(der.enc_octets(data))
            if got != want:
                rec.violation("seq-length-enc-mismatch", f"sequence with content length {len(want)}: header {got[:8].hex()} != {want[:8].hex()}", {"kind": "seqlen", "len": ln})
    for special in ("\ufeff", "\ufeffSID", "\ufeff\ufeffx", "x\ufeff", "\ufffe", "\x00", "\x00abc", "abc\x00", "\r\n", " lead", "trail ", "\u0085", "\u2028"):
        check_string(rec, "utf8", special)
        check_string(rec, "gentime", special)
        rec.case(("utf8-special", special))
    rec.sample({"kind": "lengths", "lengths": lens})
    rec.mark_exhaustive("content lengths listed in sample", True)


def run_tags(spec: dict, rec: Recorder) -> None:
    a = _asn1()
    universal_ok = {int(x) for x in a.TypeTagNumber}
    n = 0
    for cls in range(4):
        for number in TAG_NUMBERS:
            if cls == 0 and number not in universal_ok:
                continue
            for constructed in (False, True):
                for content in (b"", b"\x01", b"z" * 127, b"q" * 128, b"r" * 300):
                    check_tag(rec, cls, number, constructed, content)
                    rec.case(("tag", cls, number, constructed, len(content)))
                    rec.count("tag_checked")
                    n += 1
    rec.sample({"kind": "tag", "classes": 4, "numbers": TAG_NUMBERS, "count": n})
    rec.mark_exhaustive("tag class x listed numbers x constructed x 5 lengths", True)


def run_shard(spec: dict, rec: Recorder) -> None:
    if not common.calibrate(rec, "der"):
        return
    kind = spec["kind"]
    if kind == "int_range":
        run_int_range(spec, rec)
    elif kind == "int_bands":
        run_int_list(band_values(), rec)
    elif kind == "int_pow2":
        run_int_list(pow2_values(), rec)
    elif kind == "mix":
        run_mix(spec, rec)
    elif kind == "lengths":
        run_lengths(spec, rec)
    elif kind == "tags":
        run_tags(spec, rec)
    else:
        raise ValueError(kind)


def replay(body: dict, rec: Recorder) -> None:
    w = body["witness"]
    k = w.get("kind")
    if k in ("int", "enum"):
        check_int(rec, int(w["value"]), enumerated=(k == "enum"))
    elif k == "oid":
        check_oid(rec, [int(x) for x in w["value"].split(".")])
    elif k == "bool":
        check_bool(rec, bool(w["value"]))
    elif k == "tag":
        check_tag(rec, w["cls"], w["number"], w["constructed"], b"z" * w["len"])
    elif k in ("tree", "concat"):
        import ast

        check_tree(rec, ast.literal_eval(w["tree"]), k)
    elif k in ("utf8", "gentime") and isinstance(w["value"], str):
        check_string(rec, k, w["value"])
    else:
        rec.inconclusive_because(f"witness kind {k} is replayed by re-running the shard: {body.get('shard')}")
    rec.case(("replay", repr(w)))
