"""Entry point: python -m vf.core.main <PROP> --tier quick|thorough | --replay FILE | --shard-file F --out F"""
from __future__ import annotations

import argparse
import json
import os
import sys

import vf.instruments.clock  # noqa: F401  (scripted clock in place before anything imports the code under test)


def main(argv=None) -> int:
    ap = argparse.ArgumentParser()
    ap.add_argument("prop")
    ap.add_argument("--tier", default=os.environ.get("VERIF_TIER", "quick"), choices=["quick", "thorough"])
    ap.add_argument("--replay")
    ap.add_argument("--shard-file")
    ap.add_argument("--out")
    ap.add_argument("--jobs", type=int, default=int(os.environ.get("VF_JOBS", "0")) or (os.cpu_count() or 4))
    ap.add_argument("--inprocess", action="store_true", help="debug: run all shards in this process")
    args = ap.parse_args(argv)
    prop = args.prop.upper()
    seed = int(os.environ.get("VERIF_SEED", "0") or 0)

    from vf.core import framework as fw

    if args.shard_file:
        with open(args.shard_file) as f:
            spec = json.load(f)
        out = fw.run_one_shard_inprocess(prop, spec)
        with open(args.out, "w") as f:
            json.dump(out, f)
        return 0
    if args.replay:
        return fw.run_replay(prop, args.replay)
    if args.inprocess:
        mod = fw.load_prop(prop)
        agg = fw.Aggregate()
        import time

        t0 = time.time()
        for i, s in enumerate(mod.plan(args.tier, seed)):
            s.setdefault("name", f"s{i}")
            s["tier"] = args.tier
            s["seed"] = seed
            agg.merge(fw.run_one_shard_inprocess(prop, s))
        reasons = list(agg.inconclusive) + list(mod.finalize(agg, args.tier) or [])
        return fw.conclude(mod, agg, args.tier, seed, reasons, time.time() - t0)
    return fw.run_check(prop, args.tier, seed, args.jobs)


if __name__ == "__main__":
    sys.exit(main())
