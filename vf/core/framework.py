"""Core of the runtime-monitoring framework: recorder, sharded runner, verdicts,
known-findings classifier, evidence and replay writers.

A property module (vf/props/cNN.py) provides:

    ID, LEVEL, RULE, ASSUMPTIONS
    plan(tier, seed) -> list of JSON-serialisable shard specs
    run_shard(spec, rec)            executes the workload, feeding the Recorder
    finalize(agg, tier) -> list[str] reasons for INCONCLUSIVE (anti-vacuity)
    replay(witness, rec)            re-executes exactly one recorded case

Verdicts are three-valued: violation (exit 1), held (exit 0), inconclusive
(exit 2).  A wall-clock watchdog firing is inconclusive, never a violation.
"""
from __future__ import annotations

import concurrent.futures
import hashlib
import importlib
import json
import os
import subprocess
import sys
import tempfile
import time
import traceback
import typing as t

VERIF_ROOT = os.path.dirname(os.path.dirname(os.path.dirname(os.path.abspath(__file__))))
REPO_ROOT = os.environ.get("VF_REPO", "/repo")
MAX_SAMPLES = 6
MAX_VIOLATIONS_KEPT = 25
MAX_DIGESTS = 400_000


def digest(obj: t.Any) -> str:
    if isinstance(obj, (bytes, bytearray)):
        raw = bytes(obj)
    else:
        raw = repr(obj).encode("utf-8", "backslashreplace")
    return hashlib.blake2b(raw, digest_size=8).hexdigest()


def jsonable(obj: t.Any, depth: int = 0) -> t.Any:
    if depth > 6:
        return repr(obj)[:200]
    if isinstance(obj, (bytes, bytearray, memoryview)):
        b = bytes(obj)
        if len(b) > 400:
            return {"hex_prefix": b[:200].hex(), "len": len(b), "blake2b8": digest(b)}
        return {"hex": b.hex()}
    if isinstance(obj, (str, int, float, bool)) or obj is None:
        if isinstance(obj, int) and abs(obj) > 2**62:
            return {"int": str(obj)}
        if isinstance(obj, str) and len(obj) > 600:
            return obj[:600] + "...(%d chars)" % len(obj)
        return obj
    if isinstance(obj, dict):
        return {str(k): jsonable(v, depth + 1) for k, v in list(obj.items())[:60]}
    if isinstance(obj, (list, tuple, set, frozenset)):
        return [jsonable(v, depth + 1) for v in list(obj)[:60]]
    return repr(obj)[:300]


class Recorder:
    """Collects what a shard's monitors observed."""

    def __init__(self, prop: str, shard: str = "") -> None:
        self.prop = prop
        self.shard = shard
        self.evaluations = 0
        self.digests: t.Set[str] = set()
        self.distinct_overflow = 0  # counted but not kept as digests (disjoint by construction)
        self.samples: t.List[t.Any] = []
        self.counters: t.Dict[str, int] = {}
        self.sets: t.Dict[str, t.Set[str]] = {}
        self.minmax: t.Dict[str, t.List[float]] = {}
        self.violations: t.List[dict] = []
        self.violation_count = 0
        self.inconclusive: t.List[str] = []
        self.exhaustive: t.Dict[str, bool] = {}
        self.notes: t.Dict[str, t.Any] = {}

    # --- cases ---------------------------------------------------------
    def case(self, key: t.Any = None, nontrivial: bool = True, sample: t.Any = None, n: int = 1) -> None:
        self.evaluations += n
        if nontrivial and key is not None:
            if len(self.digests) < MAX_DIGESTS:
                self.digests.add(digest(key))
            else:
                self.distinct_overflow += 0  # beyond the cap we stop counting: conservative
        if sample is not None and len(self.samples) < MAX_SAMPLES:
            self.samples.append(jsonable(sample))

    def bulk(self, evaluations: int, distinct_nontrivial: int) -> None:
        """For enumerations whose cases are distinct by construction (lattices)."""
        self.evaluations += evaluations
        self.distinct_overflow += distinct_nontrivial

    def sample(self, sample: t.Any, force: bool = False) -> None:
        if force or len(self.samples) < MAX_SAMPLES:
            self.samples.append(jsonable(sample))

    # --- observations --------------------------------------------------
    def count(self, name: str, n: int = 1) -> None:
        self.counters[name] = self.counters.get(name, 0) + n

    def seen(self, name: str, value: t.Any) -> None:
        s = self.sets.setdefault(name, set())
        if len(s) < 5000:
            s.add(value if isinstance(value, str) else repr(value))

    def range(self, name: str, value: float) -> None:
        mm = self.minmax.get(name)
        if mm is None:
            self.minmax[name] = [value, value]
        else:
            if value < mm[0]:
                mm[0] = value
            if value > mm[1]:
                mm[1] = value

    def mark_exhaustive(self, subspace: str, value: bool = True) -> None:
        self.exhaustive[subspace] = value

    # --- verdict material ---------------------------------------------
    def violation(self, mechanism: str, message: str, witness: t.Any) -> None:
        self.violation_count += 1
        if len(self.violations) < MAX_VIOLATIONS_KEPT:
            self.violations.append(
                {
                    "mechanism": mechanism,
                    "message": message[:1500],
                    "witness": jsonable(witness),
                    "shard": self.shard,
                }
            )

    def inconclusive_because(self, reason: str) -> None:
        if reason not in self.inconclusive:
            self.inconclusive.append(reason)

    def dump(self) -> dict:
        return {
            "evaluations": self.evaluations,
            "digests": sorted(self.digests),
            "distinct_overflow": self.distinct_overflow,
            "samples": self.samples,
            "counters": self.counters,
            "sets": {k: sorted(v) for k, v in self.sets.items()},
            "minmax": self.minmax,
            "violations": self.violations,
            "violation_count": self.violation_count,
            "inconclusive": self.inconclusive,
            "exhaustive": self.exhaustive,
            "notes": jsonable(self.notes),
        }


class Aggregate:
    def __init__(self) -> None:
        self.evaluations = 0
        self.digests: t.Set[str] = set()
        self.distinct_overflow = 0
        self.samples: t.List[t.Any] = []
        self.counters: t.Dict[str, int] = {}
        self.sets: t.Dict[str, t.Set[str]] = {}
        self.minmax: t.Dict[str, t.List[float]] = {}
        self.violations: t.List[dict] = []
        self.violation_count = 0
        self.inconclusive: t.List[str] = []
        self.exhaustive: t.Dict[str, bool] = {}
        self.notes: t.Dict[str, t.Any] = {}
        self.shards_run = 0

    def merge(self, d: dict) -> None:
        self.shards_run += 1
        self.evaluations += d["evaluations"]
        self.digests.update(d["digests"])
        self.distinct_overflow += d["distinct_overflow"]
        for s in d["samples"]:
            if len(self.samples) < MAX_SAMPLES:
                self.samples.append(s)
        for k, v in d["counters"].items():
            self.counters[k] = self.counters.get(k, 0) + v
        for k, v in d["sets"].items():
            self.sets.setdefault(k, set()).update(v)
        for k, v in d["minmax"].items():
            mm = self.minmax.get(k)
            if mm is None:
                self.minmax[k] = list(v)
            else:
                mm[0] = min(mm[0], v[0])
                mm[1] = max(mm[1], v[1])
        self.violations.extend(d["violations"])
        self.violation_count += d["violation_count"]
        for r in d["inconclusive"]:
            if r not in self.inconclusive:
                self.inconclusive.append(r)
        for k, v in d["exhaustive"].items():
            self.exhaustive[k] = self.exhaustive.get(k, True) and v
        for k, v in d.get("notes", {}).items():
            self.notes.setdefault(k, v)

    @property
    def distinct_nontrivial(self) -> int:
        return len(self.digests) + self.distinct_overflow

    def counter(self, name: str) -> int:
        return self.counters.get(name, 0)


# ---------------------------------------------------------------------------
# known findings


def load_known_findings() -> t.Tuple[t.List[dict], t.List[dict]]:
    open_, fixed = [], []
    path = os.path.join(VERIF_ROOT, "KNOWN_FINDINGS.txt")
    if not os.path.exists(path):
        return open_, fixed
    with open(path, encoding="utf-8") as fh:
        lines = fh.readlines()
    for line in lines:
        line = line.strip()
        if not line or line.startswith("#"):
            continue
        kind, _, rest = line.partition(":")
        kind = kind.strip()
        fields = dict(p.split("=", 1) for p in rest.split() if "=" in p and p.split("=", 1)[0] in ("property", "mechanism"))
        entry = {"property": fields.get("property", ""), "mechanisms": fields.get("mechanism", "").split(","), "text": rest.strip()}
        (open_ if kind == "open" else fixed).append(entry)
    return open_, fixed


# ---------------------------------------------------------------------------
# environment


def repo_state() -> dict:
    def run(*a: str) -> str:
        try:
            return subprocess.run(["git", "-C", REPO_ROOT, *a], capture_output=True, text=True, timeout=20).stdout.strip()
        except Exception as e:  # pragma: no cover
            return "?" + type(e).__name__

    import dpapi_ng

    return {
        "repo_head": run("rev-parse", "HEAD"),
        "repo_dirty": bool(run("status", "--porcelain", "--", "src")),
        "dpapi_ng_file": dpapi_ng.__file__,
        "python": sys.version.split()[0],
    }


def check_import_root() -> t.Optional[str]:
    import dpapi_ng

    want = os.environ.get("VF_REPO_SRC") or os.path.join(REPO_ROOT, "src")
    got = os.path.dirname(os.path.dirname(os.path.abspath(dpapi_ng.__file__)))
    if os.path.realpath(got) != os.path.realpath(want):
        return f"dpapi_ng imported from {got}, expected {want}"
    return None


# ---------------------------------------------------------------------------
# running


def load_prop(prop: str):
    return importlib.import_module(f"vf.props.{prop.lower()}")


def run_one_shard_inprocess(prop: str, spec: dict) -> dict:
    mod = load_prop(prop)
    rec = Recorder(prop, spec.get("name", ""))
    t0 = time.time()
    try:
        bad = check_import_root()
        if bad:
            rec.inconclusive_because(bad)
        elif spec.get("interp") == "O" and not sys.flags.optimize:
            rec.inconclusive_because("shard planned for the optimised interpreter (python -O) but PYTHONOPTIMIZE was not applied")
        else:
            mod.run_shard(spec, rec)
            if spec.get("interp") == "O":
                rec.count("shards_run_under_python_O")
    except BaseException as e:  # harness failure, not a property verdict
        rec.inconclusive_because(f"harness error in shard {spec.get('name')}: {type(e).__name__}: {e}\n{traceback.format_exc()[-1500:]}")
    if spec.get("interp") == "O":
        for v in rec.violations:
            v["interp"] = "O"
            v["message"] = "[python -O] " + v["message"]
    out = rec.dump()
    out["wall_s"] = time.time() - t0
    return out


def _child(prop: str, spec: dict, timeout: float) -> dict:
    with tempfile.TemporaryDirectory(prefix="vfshard-", dir=os.environ.get("VF_TMP")) as td:
        spec_path = os.path.join(td, "spec.json")
        out_path = os.path.join(td, "out.json")
        with open(spec_path, "w") as f:
            json.dump(spec, f)
        env = dict(os.environ)
        env["VF_CHILD"] = "1"
        env.update({str(k): str(v) for k, v in (spec.get("env") or {}).items()})  # e.g. TZ for configuration sweeps
        cmd = [sys.executable, "-X", "faulthandler", "-m", "vf.core.main", prop, "--shard-file", spec_path, "--out", out_path]
        try:
            p = subprocess.run(cmd, env=env, capture_output=True, text=True, timeout=timeout, cwd=VERIF_ROOT)
        except subprocess.TimeoutExpired:
            return {"_failed": f"watchdog: shard {spec.get('name')} exceeded {timeout:.0f}s wall clock"}
        if not os.path.exists(out_path):
            return {"_failed": f"shard {spec.get('name')} died rc={p.returncode}: {(p.stderr or '')[-1200:]}"}
        with open(out_path) as f:
            return json.load(f)


def run_check(prop: str, tier: str, seed: int, jobs: int) -> int:
    mod = load_prop(prop)
    t0 = time.time()
    specs = mod.plan(tier, seed)
    for i, s in enumerate(specs):
        s.setdefault("name", f"s{i}")
        s["tier"] = tier
        s["seed"] = seed
    # The interpreter's configuration is part of "every configuration": a sample of the planned shards (one per kind of
    # shard) is run a second time under `python -O` (PYTHONOPTIMIZE=1), where `assert` statements and `if __debug__:`
    # blocks of the code under test are compiled out.  (The harness itself uses no assert statements.)
    kinds_seen: t.Set[str] = set()
    extra = []
    for s in specs:
        k = str(s.get("kind", s["name"].rsplit("-", 1)[0]))
        if k in kinds_seen or s.get("env", {}).get("PYTHONOPTIMIZE") or len(extra) >= (8 if tier == "quick" else 16):
            continue
        kinds_seen.add(k)
        o = dict(s)
        o["interp"] = "O"
        o["env"] = dict(s.get("env") or {}, PYTHONOPTIMIZE="1")
        extra.append(o)
    if not getattr(mod, "NO_OPTIMIZED_SHARDS", False):
        specs = specs + extra
    agg = Aggregate()
    timeout = float(os.environ.get("VF_SHARD_TIMEOUT", getattr(mod, "SHARD_TIMEOUT", {}).get(tier, 900 if tier == "quick" else 7200)))
    with concurrent.futures.ThreadPoolExecutor(max_workers=jobs) as ex:
        futs = {ex.submit(_child, prop, s, timeout): s for s in specs}
        for fut in concurrent.futures.as_completed(futs):
            d = fut.result()
            if "_failed" in d:
                agg.inconclusive.append(d["_failed"])
                continue
            agg.merge(d)
    reasons = list(agg.inconclusive)
    try:
        reasons += [r for r in (mod.finalize(agg, tier) or []) if r not in reasons]
    except Exception as e:
        reasons.append(f"finalize failed: {type(e).__name__}: {e}")
    return conclude(mod, agg, tier, seed, reasons, time.time() - t0)


def conclude(mod, agg: Aggregate, tier: str, seed: int, reasons: t.List[str], wall: float) -> int:
    prop = mod.ID
    open_findings, _fixed = load_known_findings()
    known_mech = {}
    for e in open_findings:
        if e["property"] == prop:
            for m in e["mechanisms"]:
                known_mech[m] = e
    new_violations = [v for v in agg.violations if v["mechanism"] not in known_mech]
    known_hits: t.Dict[str, dict] = {}
    for v in agg.violations:
        if v["mechanism"] in known_mech:
            known_hits.setdefault(v["mechanism"], v)

    replay_paths = []
    replay_dir = os.environ.get("VF_REPLAY_DIR") or os.path.join(VERIF_ROOT, "replays")
    os.makedirs(replay_dir, exist_ok=True)
    seen_mech: t.Dict[str, int] = {}
    for v in new_violations:
        seen_mech[v["mechanism"]] = seen_mech.get(v["mechanism"], 0) + 1
        if seen_mech[v["mechanism"]] > 3:
            continue
        body = {"property": prop, "tier": tier, "seed": seed, **v}
        name = f"{prop}-{digest(json.dumps(body, sort_keys=True))}.json"
        path = os.path.join("replays", name) if not os.environ.get("VF_REPLAY_DIR") else os.path.join(replay_dir, name)
        with open(os.path.join(VERIF_ROOT, path), "w") as f:
            json.dump(body, f, indent=1, sort_keys=True)
        replay_paths.append((v, path))

    observed = {
        "counters": dict(sorted(agg.counters.items())),
        "distinct": {k: {"n": len(v), "values": sorted(v)[:40]} for k, v in sorted(agg.sets.items())},
        "ranges": agg.minmax,
        "shards": agg.shards_run,
        "notes": agg.notes,
    }
    try:
        env = repo_state()
    except Exception as e:  # pragma: no cover
        env = {"error": repr(e)}
    samples = agg.samples or [{"note": "no sample recorded"}]
    verdict = "violation" if new_violations else ("inconclusive" if reasons else "held")
    evidence = {
        "property_id": prop,
        "tier": tier,
        "seed": seed,
        "level": mod.LEVEL,
        "coverage": {
            "evaluations": agg.evaluations,
            "distinct_nontrivial": agg.distinct_nontrivial,
            "rule": mod.RULE,
            "samples": samples,
            # the run as a whole always mixes enumerated sub-spaces with sampled ones: never claimed exhaustive overall
            "exhaustive": False,
            "exhaustive_subspaces": agg.exhaustive,
            "observed": observed,
            "verdict": verdict,
            "inconclusive_reasons": reasons,
            "known_findings_hit": sorted(known_hits),
            "environment": env,
        },
        "assumptions": list(mod.ASSUMPTIONS),
        "wall_s": round(wall, 3),
        "violations": agg.violation_count if new_violations else 0,
    }
    ev_dir = os.environ.get("VF_EVIDENCE_DIR") or os.path.join(VERIF_ROOT, "evidence")
    os.makedirs(ev_dir, exist_ok=True)
    with open(os.path.join(ev_dir, f"{prop}.json"), "w") as f:
        json.dump(evidence, f, indent=1, sort_keys=True)

    print(f"[{prop}] tier={tier} seed={seed} evaluations={agg.evaluations} distinct_nontrivial={agg.distinct_nontrivial} wall={wall:.1f}s shards={agg.shards_run}")
    for k, v in sorted(agg.counters.items()):
        print(f"  observed {k} = {v}")
    for k, v in sorted(agg.sets.items()):
        print(f"  distinct {k}: {len(v)}")
    for m, v in sorted(known_hits.items()):
        print(f"KNOWN-FINDING: property={prop} mechanism={m} {known_mech[m]['text']}")
    if new_violations:
        for v, path in replay_paths:
            print(f"  violation mechanism={v['mechanism']}: {v['message'][:300]}")
            print(f"VIOLATION property={prop} replay={path}")
        return 1
    if reasons:
        for r in reasons:
            print(f"INCONCLUSIVE property={prop} reason={r[:600]}")
        return 2
    print(f"HELD property={prop} on everything explored")
    return 0


def run_replay(prop: str, path: str) -> int:
    mod = load_prop(prop)
    with open(path if os.path.isabs(path) else os.path.join(VERIF_ROOT, path)) as f:
        body = json.load(f)
    if body.get("interp") == "O" and not sys.flags.optimize:
        # the violation was observed under `python -O`: replay it there
        env = dict(os.environ, PYTHONOPTIMIZE="1")
        return subprocess.run([sys.executable, "-X", "faulthandler", "-m", "vf.core.main", prop, "--replay", path], env=env, cwd=VERIF_ROOT).returncode
    rec = Recorder(prop, "replay")
    bad = check_import_root()
    if bad:
        print(f"INCONCLUSIVE property={prop} reason={bad}")
        return 2
    wkind = str((body.get("witness") or {}).get("kind", "")) if isinstance(body.get("witness"), dict) else ""
    if wkind.startswith(("threads", "session", "concurrent", "moving", "interleaved", "two-clients")):
        # schedule- or history-dependent observations are replayed by re-running the shard they came from
        spec = next((s for s in mod.plan(body["tier"], body["seed"]) if s.get("name") == body.get("shard")), None)
        if spec is None:
            print(f"INCONCLUSIVE property={prop} reason=shard {body.get('shard')} is not in the plan any more")
            return 2
        mod.run_shard(dict(spec, seed=body["seed"], tier=body["tier"]), rec)
        rec.violations[:] = [v for v in rec.violations if v["mechanism"] == body["mechanism"]][:3]
    else:
        mod.replay(body, rec)
    if rec.violations:
        for v in rec.violations:
            print(f"  reproduced mechanism={v['mechanism']}: {v['message'][:400]}")
        print(f"VIOLATION property={prop} replay={path}")
        return 1
    print(f"replay of {path}: no violation reproduced ({rec.evaluations} evaluation(s))")
    return 0
