"""Two front ends for the reference DC core:

* MemoryDC - in-memory FakeSocket / FakeStream transports + ScriptedContext (sub-millisecond),
             installed by patching socket.create_connection / asyncio.open_connection / spnego.client.
* TcpDC    - loopback TCP listeners (threads, blocking sockets) with the real pyspnego acceptor, on the REAL logical ports
             (135 and the ISD port) of a loopback address private to this process (127.a.b.c).  The only thing replaced in
             the client's world is name resolution (socket.getaddrinfo / gethostbyname map any host name to that address);
             whatever socket / asyncio API the client uses to connect reaches the listeners through the kernel.  Connections
             are logged from the interpreter's `socket.connect` audit event.  (If the process may not bind port 135 the old
             mode is used: random ports on 127.0.0.1 behind wrappers of socket.create_connection / asyncio.open_connection.)
"""
from __future__ import annotations

import asyncio
import contextlib
import os
import socket
import tempfile
import threading
import typing as t

from vf.instruments import transport as tr
from vf.refdc.core import CloseConnection, DCConfig, DCCore


class MemoryDC:
    def __init__(self, core: DCCore, client_tokens: t.Sequence[bytes] = (b"CLI1", b"CLI2"), client_complete_after: t.Optional[int] = None, chunker: t.Optional[t.Callable[[bytes], t.List[bytes]]] = None):
        self.core = core
        self.client_tokens = tuple(client_tokens)
        self.client_complete_after = client_complete_after
        self.chunker = chunker
        self.contexts: t.List[tr.ScriptedContext] = []
        self.sockets: t.List[t.Any] = []
        self.connect_log: t.List[tuple] = []
        self.spnego_calls: t.List[dict] = []

    def _handler(self, port: int):
        conn = self.core.new_connection(port)

        def h(data: bytes):
            try:
                out = conn.handle(data)
            except CloseConnection:
                return []
            if out is None:
                return []
            return self.chunker(out) if self.chunker else [out]

        h.conn = conn
        h.last = False
        return h

    def sync_factory(self, host, port):
        s = tr.FakeSocket(self._handler(port))
        self.sockets.append(s)
        return s

    def async_factory(self, host, port):
        st = tr.FakeStream(self._handler(port), eof_after_each_reply=False)
        self.sockets.append(st)
        return tr.StallDetectingReader(st), st.writer

    def ctx_factory(self, *a, **k):
        c = tr.ScriptedContext(self.client_tokens, self.client_complete_after, self.core.config.sig_size)
        self.contexts.append(c)
        return c

    @contextlib.contextmanager
    def installed(self, scripted_auth: bool = True):
        """scripted_auth=False keeps the real pyspnego client (use with core.config.security = ntlm|negotiate)."""
        if not scripted_auth:
            ensure_ntlm_credentials()
            with tr.patched_connections(self.sync_factory, self.async_factory) as log:
                self.connect_log = log
                yield self
            return
        with tr.patched_connections(self.sync_factory, self.async_factory) as log, tr.patched_spnego_client(self.ctx_factory) as calls:
            self.connect_log = log
            self.spnego_calls = calls
            yield self


# ---------------------------------------------------------------------------
_ntlm_file: t.Optional[str] = None
NTLM_USER = "VERIF\\dcuser"
NTLM_PASS = "Pass-w0rd!"


def ensure_ntlm_credentials() -> None:
    """pyspnego's NTLM acceptor reads DOMAIN:user:password from NTLM_USER_FILE."""
    global _ntlm_file
    if _ntlm_file is None:
        import atexit
        import shutil

        d = tempfile.mkdtemp(prefix="vf-ntlm-", dir=os.environ.get("VF_TMP"))
        atexit.register(shutil.rmtree, d, True)
        _ntlm_file = os.path.join(d, "users")
        with open(_ntlm_file, "w") as f:
            f.write("VERIF:dcuser:Pass-w0rd!\n")
    os.environ["NTLM_USER_FILE"] = _ntlm_file


def _recv_pdu(s: socket.socket) -> t.Optional[bytes]:
    buf = b""
    while len(buf) < 16:
        c = s.recv(16 - len(buf))
        if not c:
            return None
        buf += c
    n = int.from_bytes(buf[8:10], "little")
    while len(buf) < n:
        c = s.recv(n - len(buf))
        if not c:
            return None
        buf += c
    return buf


_addr_counter = [0]
_active_tcp: t.Dict[str, "TcpDC"] = {}
_audit_installed = [False]


def _connect_audit(event, args):
    # socket.connect(sock, address): log client connections to an active reference DC (never raises)
    if event == "socket.connect" and _active_tcp:
        try:
            addr = args[1]
            dc = _active_tcp.get(addr[0]) if isinstance(addr, tuple) and len(addr) >= 2 else None
            if dc is not None and threading.get_ident() not in dc.server_threads:
                dc.connect_log.append(("tcp", dc.last_host or addr[0], addr[1]))
        except Exception:
            pass


class TcpDC:
    def __init__(self, core: DCCore) -> None:
        ensure_ntlm_credentials()
        self.core = core
        self.errors: t.List[str] = []
        self.listeners = {}
        self.stop = False
        self.server_threads: t.Set[int] = set()
        self.last_host: t.Optional[str] = None
        self.resolved: t.List[tuple] = []
        self.addr = "127.0.0.1"
        self.real_ports = False
        pid = os.getpid()
        for attempt in range(20):
            _addr_counter[0] += 1
            addr = f"127.{1 + pid % 250}.{(pid // 250) % 250}.{1 + _addr_counter[0] % 250}"
            made = {}
            try:
                for logical in (135, core.config.isd_port):
                    srv = socket.socket()
                    srv.setsockopt(socket.SOL_SOCKET, socket.SO_REUSEADDR, 1)
                    srv.bind((addr, logical))
                    srv.listen(64)
                    made[logical] = srv
            except OSError:
                for x in made.values():
                    x.close()
                continue
            self.listeners, self.addr, self.real_ports = made, addr, True
            break
        if not self.real_ports:
            for logical in (135, core.config.isd_port):
                srv = socket.socket()
                srv.setsockopt(socket.SOL_SOCKET, socket.SO_REUSEADDR, 1)
                srv.bind(("127.0.0.1", 0))
                srv.listen(64)
                self.listeners[logical] = srv
        for logical, srv in self.listeners.items():
            threading.Thread(target=self._accept, args=(srv, logical), daemon=True).start()
        self.ports = {k: v.getsockname()[1] for k, v in self.listeners.items()}
        self.connect_log: t.List[tuple] = []

    def _accept(self, srv: socket.socket, logical: int) -> None:
        while not self.stop:
            try:
                c, _ = srv.accept()
            except OSError:
                return
            threading.Thread(target=self._serve, args=(c, logical), daemon=True).start()

    def _serve(self, c: socket.socket, logical: int) -> None:
        from vf.instruments.monitors import NET

        NET.exempt_threads.add(threading.get_ident())
        self.server_threads.add(threading.get_ident())
        conn = self.core.new_connection(logical)
        try:
            while True:
                raw = _recv_pdu(c)
                if raw is None:
                    return
                try:
                    out = conn.handle(raw)
                except CloseConnection:
                    return
                if out:
                    c.sendall(out)
        except Exception as e:  # pragma: no cover
            import traceback

            self.errors.append(traceback.format_exc()[-800:])
        finally:
            conn.closed = True
            try:
                c.close()
            except OSError:
                pass
            # thread identifiers are reused once a thread has ended: the exemptions must end with it
            self.server_threads.discard(threading.get_ident())
            NET.exempt_threads.discard(threading.get_ident())

    def close(self) -> None:
        self.stop = True
        for s in self.listeners.values():
            try:
                s.close()
            except OSError:
                pass

    @contextlib.contextmanager
    def installed(self):
        if self.real_ports:
            # only name resolution is scripted: every host name is this DC
            import sys

            if not _audit_installed[0]:
                sys.addaudithook(_connect_audit)
                _audit_installed[0] = True
            real_gai, real_ghbn = socket.getaddrinfo, socket.gethostbyname
            dc = self

            def literal(h) -> bool:
                try:
                    socket.inet_pton(socket.AF_INET6 if ":" in h else socket.AF_INET, h)
                    return True
                except (OSError, ValueError):
                    return False

            def gai(host, port, family=0, type=0, proto=0, flags=0):
                h = host.decode() if isinstance(host, (bytes, bytearray)) else host
                if h is None or literal(h) or threading.get_ident() in dc.server_threads:
                    return real_gai(host, port, family, type, proto, flags)
                dc.last_host = h
                dc.resolved.append((h, port))
                if family not in (0, socket.AF_INET):
                    raise socket.gaierror(socket.EAI_NONAME, "Name or service not known")
                return [(socket.AF_INET, type or socket.SOCK_STREAM, proto or socket.IPPROTO_TCP, "", (dc.addr, int(port or 0)))]

            def ghbn(host):
                if literal(host) or threading.get_ident() in dc.server_threads:
                    return real_ghbn(host)
                dc.last_host = host
                dc.resolved.append((host, None))
                return dc.addr

            tr.BRIDGE.install()  # (its connect() override points host names handed straight to connect() at this DC)
            real_gai, real_ghbn = socket.getaddrinfo, socket.gethostbyname
            socket.getaddrinfo, socket.gethostbyname = gai, ghbn
            _active_tcp[self.addr] = self
            tr.BRIDGE.tcp_dcs.append(self)
            try:
                yield self
            finally:
                socket.getaddrinfo, socket.gethostbyname = real_gai, real_ghbn
                _active_tcp.pop(self.addr, None)
                tr.BRIDGE.tcp_dcs.remove(self)
            return
        real_cc, real_oc = socket.create_connection, asyncio.open_connection
        log = self.connect_log

        def cc(address, *a, **k):
            log.append(("sync", address[0], address[1]))
            return real_cc(("127.0.0.1", self.ports[address[1]]), *a, **k)

        def oc(host=None, port=None, **k):
            log.append(("async", host, port))
            return real_oc("127.0.0.1", self.ports[port], **k)

        socket.create_connection = cc
        asyncio.open_connection = oc
        try:
            yield self
        finally:
            socket.create_connection, asyncio.open_connection = real_cc, real_oc
