"""Reference MS-GKDI / DCE-RPC domain controller core (transport independent).

Everything on the server side is decoded and encoded with the independent references
(ref.rpc, ref.epm, ref.gkdi, ref.crypto); nothing here imports dpapi_ng.

    dc = DCCore(config)
    conn = dc.new_connection(port)        # port 135 -> endpoint mapper, config.isd_port -> ISD_KEY
    reply = conn.handle(pdu_bytes)        # -> bytes | None (no reply) ; raises CloseConnection

Every decoded event is appended to conn.events (and dc.transcripts).  Harness controls:
config.tamper(conn, reply_bytes, info) -> bytes, config.fault scripts, config.policy, config.now.
"""
from __future__ import annotations

import dataclasses
import struct
import threading
import typing as t
import uuid

from vf.ref import crypto, epm, gkdi, rpc, sd as rsd
from vf.ref.cms import RootKey

FL = rpc.PFC_FIRST | rpc.PFC_LAST
RESULT_ACCEPT, RESULT_USER_REJ, RESULT_PROV_REJ, RESULT_NEG_ACK = 0, 1, 2, 3


class CloseConnection(Exception):
    pass


@dataclasses.dataclass
class DCConfig:
    root_keys: t.Dict[uuid.UUID, RootKey]
    default_root_key: uuid.UUID
    now: t.Tuple[int, int, int] = (361, 12, 20)
    policy: str = "seed"  # "seed" (authorised: seed keys) | "public" (group public key only)
    domain: str = "verif.test"
    forest: str = "verif.test"
    isd_port: int = 49668
    header_sign: bool = True
    security: str = "scripted"  # "scripted" | "ntlm" | "negotiate" | "none"
    sig_size: int = 16
    server_tokens: t.Sequence[bytes] = (b"SRV1", b"")
    reply_align: int = 16
    reply_pad_fill: int = 0xBB
    rogue_isd_on_135: bool = False  # NOT conforming: port 135 also answers ISD_KEY binds, with no security context at all (attacker role in C16)
    rogue_ignore_auth_failure: bool = False  # NOT conforming: pretend a failed authentication leg succeeded (attacker role in C16)
    reply_delay: float = 0.0  # seconds a (slow but conforming) DC takes before it answers a GetKey request
    other_op_reply: t.Optional[bytes] = None  # if set: a request whose stub is not a GetKey request is answered with this (sealed) stub instead of a fault
    reply_fragment_cuts: t.Optional[t.Sequence[int]] = None  # stub offsets at which the GetKey reply is split into individually sealed fragments
    reply_pad_exact: t.Optional[int] = None  # force an auth pad length 0..255 regardless of alignment
    l2_key_absent_at_31: bool = False
    envelope_future: bool = False  # return the key for "now" even when an older one was requested (never done: conforming DC)
    tamper: t.Optional[t.Callable[..., bytes]] = None
    tamper_bind: t.Optional[t.Callable[..., bytes]] = None  # (conn, ack_bytes, info) -> bytes, applied to bind_ack / alter_context_resp
    epm_towers: t.Optional[t.Callable[[int], t.List[t.List[tuple]]]] = None
    epm_status: int = 0
    hresult: int = 0
    gate: t.Optional[t.Callable[[dict], None]] = None  # called before a GetKey reply is produced (ordering control)
    assoc_group: int = 0x1234
    accept_contexts: bool = True
    sec_addr_isd: t.Optional[str] = None


class ScriptedServerSecurity:
    """Mirror of instruments.transport.ScriptedContext for the server side (same key)."""

    def __init__(self, tokens: t.Sequence[bytes], sig_size: int, key: bytes = b"scripted-session-key") -> None:
        from vf.instruments.transport import ScriptedContext

        self.ctx = ScriptedContext((), 0, sig_size, key)
        self.tokens = list(tokens)
        self.n = 0
        self.sig_size = sig_size
        self.inputs: t.List[bytes] = []

    @property
    def complete(self) -> bool:
        return self.n >= len(self.tokens)

    def step(self, token: bytes) -> t.Optional[bytes]:
        self.inputs.append(token)
        out = self.tokens[self.n] if self.n < len(self.tokens) else b""
        self.n += 1
        return out or None

    def unwrap(self, header: bytes, body: bytes, trailer: bytes, sig: bytes, sign_header: bool) -> bytes:
        import spnego.iov as iov

        st = iov.BufferType.sign_only if sign_header else iov.BufferType.data_readonly
        res = self.ctx.unwrap_iov([(st, header), body, (st, trailer), (iov.BufferType.header, sig)])
        return res.buffers[1].data

    def wrap(self, header: bytes, body: bytes, trailer: bytes, sign_header: bool) -> t.Tuple[bytes, bytes]:
        import spnego.iov as iov

        st = iov.BufferType.sign_only if sign_header else iov.BufferType.data_readonly
        res = self.ctx.wrap_iov([(st, header), body, (st, trailer), iov.BufferType.header], encrypt=True, qop=None)
        return res.buffers[1].data, res.buffers[3].data


class SpnegoServerSecurity:
    """Real pyspnego acceptor (NTLM or SPNEGO-wrapped NTLM) - the genuine peer security context."""

    def __init__(self, protocol: str) -> None:
        import spnego

        self.ctx = spnego.server(protocol=protocol, context_req=spnego.ContextReq.default | spnego.ContextReq.dce_style)
        self.sig_size = 16
        self.inputs: t.List[bytes] = []

    @property
    def complete(self) -> bool:
        return self.ctx.complete

    def step(self, token: bytes) -> t.Optional[bytes]:
        self.inputs.append(token)
        return self.ctx.step(token)

    def unwrap(self, header, body, trailer, sig, sign_header):
        import spnego.iov as iov

        st = iov.BufferType.sign_only if sign_header else iov.BufferType.data_readonly
        res = self.ctx.unwrap_iov([(st, header), body, (st, trailer), (iov.BufferType.header, sig)])
        return res.buffers[1].data

    def wrap(self, header, body, trailer, sign_header):
        import spnego.iov as iov

        st = iov.BufferType.sign_only if sign_header else iov.BufferType.data_readonly
        res = self.ctx.wrap_iov([(st, header), body, (st, trailer), iov.BufferType.header], encrypt=True, qop=None)
        return res.buffers[1].data, res.buffers[3].data


class DCCore:
    def __init__(self, config: DCConfig) -> None:
        self.config = config
        self.lock = threading.Lock()
        self.transcripts: t.List["Conn"] = []
        self.getkey_count = 0
        self.getkeys: t.List[dict] = []
        self._chains: t.Dict[tuple, crypto.Chain] = {}

    def new_connection(self, port: int) -> "Conn":
        kind = "epm" if port == 135 else "isd"
        c = Conn(self, kind, port)
        with self.lock:
            self.transcripts.append(c)
        return c

    # --- key material ------------------------------------------------------
    def chain(self, rkid: uuid.UUID, sd: bytes, l0: int) -> crypto.Chain:
        key = (rkid, sd, l0)
        with self.lock:
            ch = self._chains.get(key)
        if ch is None:
            rk = self.config.root_keys[rkid]
            ch = crypto.Chain(rk.hash_name, rk.key, rkid, sd, l0)
            with self.lock:
                self._chains[key] = ch
        return ch

    def public_key_blob(self, rk: RootKey, l2_seed: bytes) -> bytes:
        priv = int.from_bytes(crypto.private_from_seed(rk.hash_name, l2_seed, rk.secret_algorithm, rk.private_key_length), "big")
        if rk.secret_algorithm == "DH":
            kl, p, g = gkdi.dec_ffc_dh_parameters(rk.secret_parameters)
            return gkdi.enc_ffc_dh_key(kl, p, g, pow(g, priv, p))
        cname = {"ECDH_P256": "P256", "ECDH_P384": "P384"}[rk.secret_algorithm]
        c = crypto.CURVES[cname]
        x, y = c.mul(priv, c.gx, c.gy)
        return gkdi.enc_ecdh_key(cname, c.size, x, y)

    def envelope(self, req: dict) -> t.Tuple[bytes, dict]:
        cfg = self.config
        rkid = req["root_key_id"] or cfg.default_root_key
        if rkid not in cfg.root_keys:
            raise KeyError("unknown root key")
        rk = cfg.root_keys[rkid]
        if (req["l0"], req["l1"], req["l2"]) == (-1, -1, -1):
            l0, l1, l2 = cfg.now
        else:
            l0, l1, l2 = req["l0"], req["l1"], req["l2"]
            if not (0 <= l1 <= 31 and 0 <= l2 <= 31 and l0 >= 0):
                raise ValueError("bad key id")
            if (l0, l1, l2) > tuple(cfg.now):
                raise ValueError("requested key is in the future")
        ch = self.chain(rkid, req["target_sd"], l0)
        env = dict(
            version=1,
            l0=l0,
            l1=l1,
            l2=l2,
            root_key_identifier=rkid,
            kdf_algorithm="SP800_108_CTR_HMAC",
            kdf_parameters=gkdi.enc_kdf_parameters(rk.hash_name),
            secret_algorithm=rk.secret_algorithm,
            secret_parameters=rk.secret_parameters,
            private_key_length=rk.private_key_length,
            public_key_length=rk.public_key_length,
            domain_name=cfg.domain,
            forest_name=cfg.forest,
        )
        if cfg.policy == "seed":
            env["flags"] = 2
            if l2 == 31:
                env["l1_key"] = ch.l1[l1]
            else:
                env["l1_key"] = ch.l1[l1 - 1] if l1 > 0 else b""
            env["l2_key"] = b"" if (l2 == 31 and cfg.l2_key_absent_at_31) else ch.l2[l1][l2]
        else:
            env["flags"] = 3
            env["l1_key"] = b""
            env["l2_key"] = self.public_key_blob(rk, ch.l2[l1][l2])
        return gkdi.enc_envelope(env), env


class Conn:
    def __init__(self, dc: DCCore, kind: str, port: int) -> None:
        self.dc = dc
        self.kind = kind
        self.port = port
        self.events: t.List[dict] = []
        self.sec: t.Any = None
        self.sign_header = False
        self.client_offered_sign = False
        self.bound_contexts: t.Dict[int, tuple] = {}
        self.auth_type = None
        self.auth_level = None
        self.auth_ctx_id = 0
        self.requests = 0
        self.closed = False
        self.raw_in: t.List[bytes] = []
        self.raw_out: t.List[bytes] = []
        self.ev_headers: t.List[tuple] = []

    def ev(self, **k) -> dict:
        self.events.append(k)
        return k

    # -----------------------------------------------------------------------
    def handle(self, raw: bytes) -> t.Optional[bytes]:
        self.raw_in.append(bytes(raw))
        try:
            m = rpc.decode(raw)
        except rpc.RpcDecodeError as e:
            self.ev(event="undecodable", error=str(e), raw=bytes(raw))
            raise CloseConnection()
        pt = m["ptype"]
        self.ev_headers.append((pt, m["flags"], bytes(m["drep"]), m["call_id"], bytes(raw[:2])))
        if pt == rpc.BIND:
            out = self.on_bind(m, rpc.BIND_ACK)
        elif pt == rpc.ALTER_CONTEXT:
            out = self.on_bind(m, rpc.ALTER_CONTEXT_RESP)
        elif pt == rpc.REQUEST:
            out = self.on_request(m, raw)
        else:
            self.ev(event="unexpected_pdu", ptype=pt)
            raise CloseConnection()
        if out is not None:
            self.raw_out.append(out)
        return out

    def on_bind(self, m: dict, reply_type: int) -> bytes:
        cfg = self.dc.config
        name = "bind" if reply_type == rpc.BIND_ACK else "alter_context"
        offered_sign = bool(m["flags"] & rpc.PFC_SUPPORT_HEADER_SIGN)
        e = self.ev(event=name, flags=m["flags"], call_id=m["call_id"], contexts=m["contexts"], auth=None if not m["auth"] else {k: m["auth"][k] for k in ("type", "level", "pad", "ctx")}, token=m["auth"]["token"] if m["auth"] else None, offered_header_sign=offered_sign)
        if self.kind == "epm" and cfg.rogue_isd_on_135 and any(abstract == rpc.ISD_KEY for _cid, abstract, _tr in m["contexts"]):
            # a ROGUE endpoint on port 135 that also speaks ISD_KEY - without any security context (attacker role in C16)
            self.kind = "isd"
            self.rogue_plain = True
            e["rogue_isd_on_135"] = True
        results = []
        want_abstract = rpc.EPM if self.kind == "epm" else rpc.ISD_KEY
        for cid, abstract, transfers in m["contexts"]:
            tr0 = transfers[0] if transfers else None
            if tr0 is not None and tr0[0].bytes_le[:8] == rpc.BTFN_PREFIX:
                results.append((RESULT_NEG_ACK, 3 if name == "bind" else 0, uuid.UUID(int=0), 0))
            elif cfg.accept_contexts and abstract == want_abstract and rpc.NDR64 in transfers:
                results.append((RESULT_ACCEPT, 0, rpc.NDR64[0], rpc.NDR64[1] | (rpc.NDR64[2] << 16)))
                self.bound_contexts[cid] = (abstract, rpc.NDR64)
            else:
                results.append((RESULT_PROV_REJ, 2, uuid.UUID(int=0), 0))
        token_out = None
        auth_out = None
        if m["auth"] is not None and not (getattr(self, "rogue_plain", False) and self.sec is None):
            if self.sec is None:
                self.auth_type, self.auth_level, self.auth_ctx_id = m["auth"]["type"], m["auth"]["level"], m["auth"]["ctx"]
                if cfg.security == "scripted":
                    self.sec = ScriptedServerSecurity(cfg.server_tokens, cfg.sig_size)
                elif cfg.security in ("ntlm", "negotiate"):
                    self.sec = SpnegoServerSecurity(cfg.security)
                else:
                    raise CloseConnection()
                self.client_offered_sign = offered_sign
                self.sign_header = offered_sign and cfg.header_sign
            try:
                token_out = self.sec.step(m["auth"]["token"])
            except Exception as ex:
                if not cfg.rogue_ignore_auth_failure:
                    raise
                # a ROGUE server (it does not hold the account's secret, cannot verify anything and does not care): it
                # answers as if the leg had succeeded and from now on speaks without a security context
                e["rogue_ignored_auth_failure"] = f"{type(ex).__name__}"
                token_out = None
                self.rogue_plain = True
            e["server_token_len"] = None if token_out is None else len(token_out)
            e["server_complete"] = self.sec.complete
            if token_out:
                auth_out = dict(type=m["auth"]["type"], level=m["auth"]["level"], pad=0, ctx=m["auth"]["ctx"], token=token_out)
        flags = FL | (rpc.PFC_SUPPORT_HEADER_SIGN if (cfg.header_sign and m["auth"] is not None) else 0)
        sec_addr = (cfg.sec_addr_isd if cfg.sec_addr_isd is not None else str(self.port)) if reply_type == rpc.BIND_ACK else ""
        out = rpc.encode(dict(ptype=reply_type, flags=flags, call_id=m["call_id"], auth=auth_out, max_xmit=5840, max_recv=5840, assoc=cfg.assoc_group, sec_addr=sec_addr, results=results))
        if cfg.tamper_bind and self.kind == "isd":
            out = cfg.tamper_bind(self, out, dict(reply_type=reply_type, request=m))
        return out

    # -----------------------------------------------------------------------
    def on_request(self, m: dict, raw: bytes) -> t.Optional[bytes]:
        self.requests += 1
        if self.kind == "epm":
            return self.on_ept_map(m)
        return self.on_getkey(m, raw)

    def fault(self, m: dict, status: int) -> bytes:
        return rpc.encode(dict(ptype=rpc.FAULT, flags=FL, call_id=m["call_id"], auth=None, alloc_hint=0, ctx_id=m.get("ctx_id", 0), cancel_count=0, fault_flags=0, status=status, stub=b""))

    def on_ept_map(self, m: dict) -> bytes:
        cfg = self.dc.config
        e = self.ev(event="ept_map", ctx_id=m["ctx_id"], opnum=m["opnum"], auth=m["auth"] is not None, stub=m["stub"], bound=m["ctx_id"] in self.bound_contexts)
        try:
            req = epm.dec_request(m["stub"])
            e["decoded"] = req
        except Exception as ex:
            e["decode_error"] = f"{type(ex).__name__}: {ex}"
            return self.fault(m, 0x1C000002)
        towers = cfg.epm_towers(cfg.isd_port) if cfg.epm_towers else [epm.tcpip_tower(rpc.ISD_KEY, rpc.NDR, cfg.isd_port, 0)]
        stub = epm.enc_response(towers, cfg.epm_status)
        return rpc.encode(dict(ptype=rpc.RESPONSE, flags=FL, call_id=m["call_id"], auth=None, alloc_hint=len(stub), ctx_id=m["ctx_id"], cancel_count=0, stub=stub))

    def on_getkey(self, m: dict, raw: bytes) -> t.Optional[bytes]:
        cfg = self.dc.config
        e = self.ev(event="request", ctx_id=m["ctx_id"], opnum=m["opnum"], call_id=m["call_id"], flags=m["flags"], alloc_hint=m["alloc_hint"], obj=m["obj"], wire_len=len(raw), auth=None if not m["auth"] else {k: m["auth"][k] for k in ("type", "level", "pad", "ctx")}, auth_len=m["auth_len"])
        e["bound"] = m["ctx_id"] in self.bound_contexts
        if self.sec is None or m["auth"] is None or getattr(self, "rogue_plain", False):
            e["sealed"] = False
            e["unsealed_on_auth_connection"] = self.sec is not None
            e["plain_stub"] = m["stub"]
            plain = m["stub"]
            pad = 0
        else:
            off = m["auth_offset"]
            so = m["stub_offset"]
            header, body, trailer, sig = raw[:so], raw[so:off], raw[off : off + 8], raw[off + 8 :]
            e["stub_region_offset_mod16"] = (off - so) % 16
            try:
                plain = self.sec.unwrap(header, body, trailer, sig, self.sign_header)
            except Exception as ex:
                e["unwrap_error"] = f"{type(ex).__name__}: {ex}"
                return self.fault(m, 0x00000005)
            e["sealed"] = plain != body or len(body) == 0
            e["wire_stub_equals_plain"] = plain == body
            pad = m["auth"]["pad"]
        e["plain_region"] = plain
        parts = rpc.split_request_stub(plain, pad)
        e["vt"] = parts["vt"]
        e["vt_offset"] = parts["vt_offset"]
        try:
            req = gkdi.dec_getkey_request(parts["stub_and_pad"])
        except Exception as ex:
            e["decode_error"] = f"{type(ex).__name__}: {ex}"
            if cfg.other_op_reply is not None:
                # (stands for any other operation of the interface: the reply is sealed like every reply on this connection)
                e["reply_stub_len"] = len(cfg.other_op_reply)
                return self.seal_response(m, cfg.other_op_reply, e)
            return self.fault(m, 0x000006F7)
        e["getkey"] = {k: req[k] for k in ("target_sd", "root_key_id", "l0", "l1", "l2")}
        e["getkey_consumed"] = req["consumed"]
        e["stub_len_before_vt"] = len(parts["stub_and_pad"])
        with self.dc.lock:
            self.dc.getkey_count += 1
            rec = dict(e["getkey"], conn=id(self), seq=self.dc.getkey_count)
            self.dc.getkeys.append(rec)
        if cfg.gate:
            cfg.gate(rec)
        if cfg.reply_delay:
            import time as _time

            _time.sleep(cfg.reply_delay)
        hresult = cfg.hresult
        try:
            env_bytes, env = self.dc.envelope(req)
            e["envelope"] = env
        except Exception as ex:
            e["envelope_error"] = f"{type(ex).__name__}: {ex}"
            env_bytes, hresult = b"", hresult or 0x80070057
        stub = gkdi.enc_getkey_response(env_bytes, hresult, null_ptr=not env_bytes)
        e["reply_stub_len"] = len(stub)
        return self.seal_response(m, stub, e)

    def seal_fragment(self, m: dict, piece: bytes, flags: int, e: t.Optional[dict] = None) -> bytes:
        """One Response fragment carrying `piece`, sealed by this connection's security context (consumes a sequence number)."""
        cfg = self.dc.config
        if self.sec is None or getattr(self, "rogue_plain", False):
            return rpc.encode(dict(ptype=rpc.RESPONSE, flags=flags, call_id=m["call_id"], auth=None, alloc_hint=len(piece), ctx_id=m["ctx_id"], cancel_count=0, stub=piece))
        padn = -len(piece) % cfg.reply_align if cfg.reply_pad_exact is None else cfg.reply_pad_exact
        body = piece + bytes([cfg.reply_pad_fill]) * padn
        sig_size = self.sec.sig_size
        frag = 24 + len(body) + 8 + sig_size
        header = rpc.header(rpc.RESPONSE, flags, frag, sig_size, m["call_id"]) + struct.pack("<IHBB", len(body), m["ctx_id"], 0, 0)
        trailer = struct.pack("<BBBBI", self.auth_type, self.auth_level, padn, 0, self.auth_ctx_id)
        enc, sig = self.sec.wrap(header, body, trailer, self.sign_header)
        if len(sig) != sig_size:
            frag = 24 + len(body) + 8 + len(sig)
            header = rpc.header(rpc.RESPONSE, flags, frag, len(sig), m["call_id"]) + struct.pack("<IHBB", len(body), m["ctx_id"], 0, 0)
        if e is not None:
            e["reply_pad"] = padn
        return header + enc + trailer + sig

    def seal_response(self, m: dict, stub: bytes, e: t.Optional[dict] = None) -> bytes:
        cfg = self.dc.config
        cuts = [c for c in (cfg.reply_fragment_cuts or ()) if 0 < c < len(stub)]
        if cuts:
            # a server that fragments its reply (as it must when the client's max_recv_frag is small): every fragment is
            # sealed on its own, FIRST on the first and LAST on the last one
            pts = [0] + sorted(set(cuts)) + [len(stub)]
            frags = []
            for i in range(len(pts) - 1):
                fl = (rpc.PFC_FIRST if i == 0 else 0) | (rpc.PFC_LAST if i == len(pts) - 2 else 0) | (FL & ~(rpc.PFC_FIRST | rpc.PFC_LAST))
                frags.append(self.seal_fragment(m, stub[pts[i] : pts[i + 1]], fl, e))
            out = b"".join(frags)
            if cfg.tamper:
                out = cfg.tamper(self, out, dict(stub=stub, request=m, fragments=frags, cuts=pts))
            return out
        out = self.seal_fragment(m, stub, FL, e)
        if cfg.tamper:
            out = cfg.tamper(self, out, dict(stub=stub, request=m))
        return out
