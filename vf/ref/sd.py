"""Independent MS-DTYP SID / ACE / ACL / self-relative security descriptor builder and
strict parser (MS-DTYP 2.4.2.2, 2.4.4.2, 2.4.5, 2.4.6). No dpapi_ng import."""
from __future__ import annotations

import struct
import typing as t


class Sid(t.NamedTuple):
    revision: int
    authority: int
    subs: t.Tuple[int, ...]

    def __str__(self) -> str:
        return "S-%d-%d-%s" % (self.revision, self.authority, "-".join(str(s) for s in self.subs))


def sid_bytes(sid: Sid) -> bytes:
    if not (0 <= sid.revision <= 255 and 0 <= sid.authority < 2**48 and 1 <= len(sid.subs) <= 15):
        raise ValueError("sid out of range")
    return struct.pack(">BB", sid.revision, len(sid.subs)) + sid.authority.to_bytes(6, "big") + b"".join(struct.pack("<I", s) for s in sid.subs)


def parse_sid(b: bytes, off: int = 0) -> t.Tuple[Sid, int]:
    rev, n = b[off], b[off + 1]
    auth = int.from_bytes(b[off + 2 : off + 8], "big")
    if len(b) < off + 8 + 4 * n:
        raise ValueError("sid truncated")
    subs = struct.unpack_from("<%dI" % n, b, off + 8)
    return Sid(rev, auth, tuple(subs)), 8 + 4 * n


def canonical_sid_from_string(s: str) -> t.Optional[Sid]:
    """The canonical string form: ASCII 'S-' R '-' A ('-' sub){1,15}; decimal without
    sign/whitespace; R one digit; A < 2^48; sub < 2^32.  Returns None if not of that form.
    (Leading zeros are tolerated: they denote the same numbers.)"""
    parts = s.split("-")
    if len(parts) < 4 or len(parts) > 18 or parts[0] != "S":
        return None
    nums = []
    for p in parts[1:]:
        if not p or any(c not in "0123456789" for c in p):
            return None
        if len(p) > 40:
            return None
        nums.append(int(p))
    if len(parts[1]) != 1:
        return None
    if nums[1] >= 2**48 or any(v >= 2**32 for v in nums[2:]):
        return None
    return Sid(nums[0], nums[1], tuple(nums[2:]))


SYSTEM = Sid(1, 5, (18,))
EVERYONE = Sid(1, 1, (0,))


def ace_allowed(sid: Sid, mask: int) -> bytes:
    sb = sid_bytes(sid)
    return struct.pack("<BBHI", 0, 0, 8 + len(sb), mask) + sb


def acl(aces: t.Sequence[bytes]) -> bytes:
    body = b"".join(aces)
    return struct.pack("<BBHHH", 2, 0, 8 + len(body), len(aces), 0) + body


def target_sd(sid: Sid) -> bytes:
    """The SD MS-GKDI clients send for a SID protection descriptor: SYSTEM owner/group, DACL
    [(sid, 3), (Everyone, 2)], self-relative, order Sacl, Dacl, Owner, Group."""
    dacl = acl([ace_allowed(sid, 3), ace_allowed(EVERYONE, 2)])
    owner = sid_bytes(SYSTEM)
    group = sid_bytes(SYSTEM)
    off_dacl = 20
    off_owner = off_dacl + len(dacl)
    off_group = off_owner + len(owner)
    return struct.pack("<BBHIIII", 1, 0, 0x8004, off_owner, off_group, 0, off_dacl) + dacl + owner + group


def parse_sd(b: bytes) -> dict:
    """Strict parse of a self-relative SD; checks every offset/size/count for consistency."""
    if len(b) < 20:
        raise ValueError("sd too short")
    rev, sbz1, control, off_owner, off_group, off_sacl, off_dacl = struct.unpack_from("<BBHIIII", b, 0)
    if rev != 1:
        raise ValueError("sd revision")
    out = dict(control=control, sbz1=sbz1, owner=None, group=None, dacl=None, sacl=None, regions=[])
    regions = [(0, 20, "header")]

    def do_acl(off, name):
        arev, asbz, asize, acount, asbz2 = struct.unpack_from("<BBHHH", b, off)
        if off + asize > len(b):
            raise ValueError(f"{name} AclSize beyond SD")
        p = off + 8
        aces = []
        for _ in range(acount):
            atype, aflags, acesize, mask = struct.unpack_from("<BBHI", b, p)
            sid, slen = parse_sid(b, p + 8)
            if acesize != 8 + slen:
                raise ValueError(f"{name} AceSize {acesize} != 8+{slen}")
            aces.append((atype, aflags, mask, sid))
            p += acesize
        if p != off + asize:
            raise ValueError(f"{name} AclSize {asize} inconsistent with ACEs ({p - off})")
        regions.append((off, off + asize, name))
        return dict(revision=arev, sbz1=asbz, sbz2=asbz2, aces=aces)

    if off_dacl:
        if not control & 0x0004:
            raise ValueError("dacl offset without DACL_PRESENT")
        out["dacl"] = do_acl(off_dacl, "dacl")
    elif control & 0x0004:
        pass
    if off_sacl:
        if not control & 0x0010:
            raise ValueError("sacl offset without SACL_PRESENT")
        out["sacl"] = do_acl(off_sacl, "sacl")
    for name, off in (("owner", off_owner), ("group", off_group)):
        if off:
            sid, slen = parse_sid(b, off)
            out[name] = sid
            regions.append((off, off + slen, name))
    regions.sort()
    pos = 0
    for s, e, n in regions:
        if s != pos:
            raise ValueError(f"gap or overlap before {n}: at {pos} expected {s}")
        pos = e
    if pos != len(b):
        raise ValueError("trailing bytes in SD")
    out["regions"] = [n for _, _, n in regions]
    return out


def calibrate(vec_dir: str) -> t.List[str]:
    import json, os

    bad = []
    d = json.load(open(os.path.join(vec_dir, "seed_key.json")))
    real = bytes.fromhex(d["SecurityDescriptor"])
    try:
        p = parse_sd(real)
        if p["control"] != 0x8004 or p["owner"] != SYSTEM or p["group"] != SYSTEM:
            bad.append("real SD owner/group/control")
        aces = p["dacl"]["aces"]
        if len(aces) != 2 or aces[0][2] != 3 or aces[1][2] != 2 or aces[1][3] != EVERYONE:
            bad.append("real SD dacl")
        if p["regions"] != ["header", "dacl", "owner", "group"]:
            bad.append("real SD order %r" % p["regions"])
        if target_sd(aces[0][3]) != real:
            bad.append("target_sd does not reproduce the real SD")
    except Exception as e:
        bad.append(f"real SD parse: {type(e).__name__}: {e}")
    want = bytes.fromhex("010500000000000515000000" "1D9377F7" "44357ACC" "8CD37BA9" "50040000")
    if sid_bytes(canonical_sid_from_string("S-1-5-21-4151808797-3430561092-2843464588-1104")) != want:
        bad.append("sid vector")
    for s in ("S-1-5", "S-1-51", "S-1-5-", "Z-1-5-1", "S-1-5-1-2-3-4-5-6-7-8-9-10-11-12-13-14-15-16", "S-1-5-18\n", "S-1-5-4294967296", "S-1-281474976710656-1", "s-1-5-18", "S-1-5-+1", "S-1-5- 1", "S-10-5-1"):
        if canonical_sid_from_string(s) is not None:
            bad.append(f"accepted {s!r}")
    return bad
