"""The DPAPI-NG CMS template (RFC 5652 EnvelopedData with one KEKRecipientInfo), a strict
parser for it built on ref.der, and a complete reference decryptor that goes from the
root key to the plaintext without touching dpapi_ng."""
from __future__ import annotations

import typing as t
import uuid

from . import crypto, der, gkdi, sd

OID_ENVELOPED = "1.2.840.113549.1.7.3"
OID_DATA = "1.2.840.113549.1.7.1"
OID_MS_SW = "1.3.6.1.4.1.311.74.1"
OID_SID = "1.3.6.1.4.1.311.74.1.1"
OID_AES256_WRAP = "2.16.840.1.101.3.4.1.45"
OID_AES256_GCM = "2.16.840.1.101.3.4.1.46"


class TemplateError(Exception):
    pass


def protection_descriptor(sid: str, type_oid: str = OID_SID, type_name: str = "SID") -> bytes:
    return der.enc_seq(
        der.enc_oid(type_oid),
        der.enc_seq(der.enc_seq(der.enc_seq(der.enc_utf8(type_name), der.enc_utf8(sid)))),
    )


def gcm_parameters(nonce: bytes, icv: int = 16) -> bytes:
    return der.enc_seq(der.enc_octets(nonce), der.enc_int(icv))


def build(
    key_identifier: bytes,
    descriptor: bytes,
    enc_cek: bytes,
    enc_content: bytes,
    content_params: t.Optional[bytes],
    in_envelope: bool = True,
    kw_alg: str = OID_AES256_WRAP,
    kw_params: t.Optional[bytes] = None,
    content_alg: str = OID_AES256_GCM,
) -> bytes:
    kekid = der.enc_seq(der.enc_octets(key_identifier), der.enc_seq(der.enc_oid(OID_MS_SW), descriptor))
    ri = der.tlv(
        der.CONTEXT,
        True,
        2,
        der.enc_int(4) + kekid + der.enc_seq(der.enc_oid(kw_alg), kw_params or b"") + der.enc_octets(enc_cek),
    )
    eci_children = [der.enc_oid(OID_DATA), der.enc_seq(der.enc_oid(content_alg), content_params or b"")]
    if in_envelope and enc_content:
        eci_children.append(der.tlv(der.CONTEXT, False, 0, enc_content))
    env = der.enc_seq(der.enc_int(2), der.enc_set(ri), der.enc_seq(*eci_children))
    ci = der.enc_seq(der.enc_oid(OID_ENVELOPED), der.tlv(der.CONTEXT, True, 0, env))
    return ci + (b"" if in_envelope else enc_content)


def _expect(cond: bool, what: str) -> None:
    if not cond:
        raise TemplateError(what)


def _is(n: der.Node, cls: int, constructed: bool, number: int) -> bool:
    return n.cls == cls and n.constructed == constructed and n.number == number


def parse(blob: bytes, require_gcm_template: bool = True) -> dict:
    """Strictly parse an emitted blob against the Windows template.  Raises DerError /
    TemplateError when it is not canonical DER or deviates from the template."""
    root, trailing = der.parse_prefix(blob)
    _expect(_is(root, 0, True, 16) and len(root.children) == 2, "ContentInfo shape")
    ct, content = root.children
    _expect(_is(ct, 0, False, 6) and der.oid_str(ct.content) == OID_ENVELOPED, "contentType envelopedData")
    _expect(_is(content, der.CONTEXT, True, 0) and len(content.children) == 1, "[0] EXPLICIT content")
    env = content.children[0]
    _expect(_is(env, 0, True, 16) and len(env.children) == 3, "EnvelopedData shape")
    ver, ris, eci = env.children
    _expect(_is(ver, 0, False, 2) and der.dec_int(ver.content) == 2, "EnvelopedData version 2")
    _expect(_is(ris, 0, True, 17) and len(ris.children) == 1, "RecipientInfos SET of one")
    ri = ris.children[0]
    _expect(_is(ri, der.CONTEXT, True, 2) and len(ri.children) == 4, "[2] KEKRecipientInfo")
    rver, kekid, kalg, ekey = ri.children
    _expect(_is(rver, 0, False, 2) and der.dec_int(rver.content) == 4, "KEKRecipientInfo version 4")
    _expect(_is(kekid, 0, True, 16) and len(kekid.children) == 2, "KEKIdentifier shape")
    kid, other = kekid.children
    _expect(_is(kid, 0, False, 4), "keyIdentifier OCTET STRING")
    _expect(_is(other, 0, True, 16) and len(other.children) == 2, "OtherKeyAttribute shape")
    attr_id, attr = other.children
    _expect(_is(attr_id, 0, False, 6) and der.oid_str(attr_id.content) == OID_MS_SW, "keyAttrId")
    _expect(_is(attr, 0, True, 16) and len(attr.children) == 2, "protection descriptor shape")
    pd_oid, pd_seq = attr.children
    _expect(_is(pd_oid, 0, False, 6), "descriptor type oid")
    n = pd_seq
    for lvl in range(3):
        _expect(_is(n, 0, True, 16) and len(n.children) == (1 if lvl < 2 else 2), f"descriptor nesting {lvl}")
        if lvl < 2:
            n = n.children[0]
    tname, tval = n.children
    _expect(_is(tname, 0, False, 12) and _is(tval, 0, False, 12), "descriptor UTF8 strings")
    _expect(_is(kalg, 0, True, 16) and len(kalg.children) >= 1 and _is(kalg.children[0], 0, False, 6), "keyEncryptionAlgorithm")
    _expect(_is(ekey, 0, False, 4), "encryptedKey OCTET STRING")
    _expect(_is(eci, 0, True, 16) and len(eci.children) in (2, 3), "EncryptedContentInfo shape")
    ectype, calg = eci.children[:2]
    _expect(_is(ectype, 0, False, 6) and der.oid_str(ectype.content) == OID_DATA, "EncryptedContentInfo contentType data")
    _expect(_is(calg, 0, True, 16) and len(calg.children) >= 1 and _is(calg.children[0], 0, False, 6), "contentEncryptionAlgorithm")
    in_env = None
    if len(eci.children) == 3:
        ec = eci.children[2]
        _expect(_is(ec, der.CONTEXT, False, 0), "[0] IMPLICIT encryptedContent")
        in_env = ec.content
    out = dict(
        key_identifier=kid.content,
        descriptor_oid=der.oid_str(pd_oid.content),
        descriptor_type=tname.content.decode("utf-8"),
        descriptor_value=tval.content.decode("utf-8"),
        descriptor_raw=attr.encode(),
        kw_alg=der.oid_str(kalg.children[0].content),
        kw_params=b"".join(c.encode() for c in kalg.children[1:]) or None,
        enc_cek=ekey.content,
        content_alg=der.oid_str(calg.children[0].content),
        content_params=b"".join(c.encode() for c in calg.children[1:]) or None,
        content_in_envelope=in_env,
        trailing=trailing,
        envelope_len=root.total,
    )
    if require_gcm_template:
        _expect(out["kw_alg"] == OID_AES256_WRAP and out["kw_params"] is None, "AES256-wrap without parameters")
        _expect(out["content_alg"] == OID_AES256_GCM and len(calg.children) == 2, "AES256-GCM with parameters")
        gp = calg.children[1]
        _expect(_is(gp, 0, True, 16) and len(gp.children) == 2, "GCMParameters shape")
        _expect(_is(gp.children[0], 0, False, 4) and len(gp.children[0].content) == 12, "GCM nonce 12 bytes")
        _expect(_is(gp.children[1], 0, False, 2) and der.dec_int(gp.children[1].content) == 16, "GCM ICV length 16")
        out["gcm_nonce"] = gp.children[0].content
        _expect(len(out["enc_cek"]) == 40, "wrapped CEK is 40 bytes")
        _expect(out["descriptor_oid"] == OID_SID and out["descriptor_type"] == "SID", "SID descriptor")
    out["enc_content"] = in_env if in_env is not None else trailing
    return out


class RootKey(t.NamedTuple):
    key: bytes
    hash_name: str
    secret_algorithm: str = "DH"
    secret_parameters: bytes = b""
    private_key_length: int = 512
    public_key_length: int = 2048


def kek_for_key_identifier(kid: dict, l2_key: bytes, rk: RootKey) -> t.Optional[bytes]:
    if not kid["flags"] & 1:
        return crypto.kek_nonce(rk.hash_name, l2_key, kid["key_info"])
    priv = crypto.private_from_seed(rk.hash_name, l2_key, rk.secret_algorithm, rk.private_key_length)
    x = int.from_bytes(priv, "big")
    if rk.secret_algorithm == "DH":
        kl, p, g, y = gkdi.dec_ffc_dh_key(kid["key_info"])
        z = crypto.shared_secret_dh(y, x, p, kl)
        return crypto.kek_from_secret(rk.hash_name, z, "sha256")
    if rk.secret_algorithm.startswith("ECDH_P"):
        curve, kl, px, py = gkdi.dec_ecdh_key(kid["key_info"])
        if curve not in crypto.CURVES:
            return None
        z = crypto.shared_secret_ecdh(curve, px, py, x)
        if z is None:
            return None
        return crypto.kek_from_secret(rk.hash_name, z, crypto.CURVE_HASH[curve])
    return None


def reference_decrypt_parts(p: dict, root_keys: t.Dict[uuid.UUID, RootKey]) -> dict:
    """From parsed blob + root keys to {kek, cek, plaintext}.  Values are None when a step fails."""
    kid = gkdi.dec_key_identifier(p["key_identifier"])
    rk = root_keys[kid["root_key_identifier"]]
    sid = sd.canonical_sid_from_string(p["descriptor_value"])
    if sid is None:
        raise TemplateError("descriptor value is not a canonical SID")
    tsd = sd.target_sd(sid)
    l2 = crypto.l2_key_single(rk.hash_name, rk.key, kid["root_key_identifier"], tsd, kid["l0"], kid["l1"], kid["l2"])
    kek = kek_for_key_identifier(kid, l2, rk)
    cek = crypto.aes_kw_unwrap(kek, p["enc_cek"]) if kek else None
    pt = crypto.gcm_decrypt(cek, p["gcm_nonce"], p["enc_content"]) if cek else None
    return dict(kid=kid, l2=l2, kek=kek, cek=cek, plaintext=pt, target_sd=tsd)


def reference_unprotect(blob: bytes, root_keys: t.Dict[uuid.UUID, RootKey]) -> t.Optional[bytes]:
    return reference_decrypt_parts(parse(blob), root_keys)["plaintext"]


def load_vector(path: str) -> t.Tuple[bytes, uuid.UUID, RootKey]:
    import json

    d = json.load(open(path))
    rk = RootKey(
        key=bytes.fromhex(d["RootKeyData"]),
        hash_name=gkdi.dec_kdf_parameters(bytes.fromhex(d["KdfParameters"])),
        secret_algorithm=d["SecretAgreementAlgorithm"],
        secret_parameters=bytes.fromhex(d["SecretAgreementParameters"]),
        private_key_length=d["PrivateKeyLength"],
        public_key_length=d["PublicKeyLength"],
    )
    return bytes.fromhex(d["Data"]), uuid.UUID(d["RootKeyId"]), rk


def calibrate(vec_dir: str) -> t.List[str]:
    """All 16 Windows blobs: strict template parse, byte-identical rebuild, and decryption to
    b'\\x00' from the root key alone."""
    import glob
    import os

    bad = []
    files = sorted(glob.glob(os.path.join(vec_dir, "kdf_*.json")))
    if len(files) != 16:
        bad.append(f"expected 16 Windows vectors, found {len(files)}")
    for f in files:
        name = os.path.basename(f)
        try:
            blob, rkid, rk = load_vector(f)
            p = parse(blob)
            rebuilt = build(
                p["key_identifier"], p["descriptor_raw"], p["enc_cek"], p["enc_content"], p["content_params"], in_envelope=p["content_in_envelope"] is not None
            )
            if rebuilt != blob:
                bad.append(f"{name}: template rebuild differs")
            if protection_descriptor(p["descriptor_value"]) != p["descriptor_raw"]:
                bad.append(f"{name}: descriptor rebuild differs")
            kid = gkdi.dec_key_identifier(p["key_identifier"])
            if gkdi.enc_key_identifier(kid) != p["key_identifier"]:
                bad.append(f"{name}: key identifier re-encode differs")
            pt = reference_unprotect(blob, {rkid: rk})
            if pt != b"\x00":
                bad.append(f"{name}: reference decrypt gave {pt!r}")
        except Exception as e:
            bad.append(f"{name}: {type(e).__name__}: {e}")
    return bad


def reference_protect(
    plaintext: bytes,
    sid: str,
    rkid: uuid.UUID,
    rk: RootKey,
    l0: int,
    l1: int,
    l2: int,
    *,
    nonce: bytes,
    cek: bytes,
    gcm_nonce: bytes,
    in_envelope: bool = True,
    domain: str = "",
    forest: str = "",
    flags: int = 2,
    public: t.Optional[dict] = None,
) -> bytes:
    """Build a DPAPI-NG blob with reference crypto only (what a Windows peer would emit).
    public = {'key_info': bytes, 'kek': bytes} switches to public-key mode (caller computed)."""
    s = sd.canonical_sid_from_string(sid)
    l2k = crypto.l2_key_single(rk.hash_name, rk.key, rkid, sd.target_sd(s), l0, l1, l2)
    if public is None:
        key_info = nonce
        kek = crypto.kek_nonce(rk.hash_name, l2k, nonce)
    else:
        key_info, kek, flags = public["key_info"], public["kek"], flags | 1
    kid = gkdi.enc_key_identifier(
        dict(version=1, flags=flags, l0=l0, l1=l1, l2=l2, root_key_identifier=rkid, key_info=key_info, domain_name=domain, forest_name=forest)
    )
    enc_cek = crypto.aes_kw_wrap(kek, cek)
    enc_content = crypto.gcm_encrypt(cek, gcm_nonce, plaintext)
    return build(kid, protection_descriptor(sid), enc_cek, enc_content, gcm_parameters(gcm_nonce), in_envelope=in_envelope)
