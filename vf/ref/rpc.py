"""Independent DCE/RPC connection-oriented PDU codec (C706 ch.12 + MS-RPCE extensions) used as
receiver/encoder oracle.  Messages are plain dicts.  No dpapi_ng import.

dict keys: ptype, flags, call_id, drep (4 bytes), frag_len, auth_len, auth = dict(type, level,
pad, reserved, ctx, token) | None, plus per type:
  bind / alter_context : max_xmit, max_recv, assoc, contexts=[(ctx_id, (uuid, ver, minor), [(uuid, ver, minor)...])]
  bind_ack / alter_context_resp: max_xmit, max_recv, assoc, sec_addr (str), results=[(result, reason, uuid, version32)]
  bind_nak: reason, versions=[(major, minor)]
  request: alloc_hint, ctx_id, opnum, obj (uuid|None), stub
  response: alloc_hint, ctx_id, cancel_count, stub
  fault: alloc_hint, ctx_id, cancel_count, fault_flags, status, stub
"""
from __future__ import annotations

import struct
import typing as t
import uuid

REQUEST, RESPONSE, FAULT, BIND, BIND_ACK, BIND_NAK, ALTER_CONTEXT, ALTER_CONTEXT_RESP = 0, 2, 3, 11, 12, 13, 14, 15
PFC_FIRST, PFC_LAST, PFC_SUPPORT_HEADER_SIGN, PFC_OBJECT_UUID = 0x01, 0x02, 0x04, 0x80
DREP_LE = b"\x10\x00\x00\x00"
VT_SIGNATURE = bytes.fromhex("8ae3137102f43671")

NDR = (uuid.UUID("8a885d04-1ceb-11c9-9fe8-08002b104860"), 2, 0)
NDR64 = (uuid.UUID("71710533-beba-4937-8319-b5dbef9ccc36"), 1, 0)
ISD_KEY = (uuid.UUID("b9785960-524f-11df-8b6d-83dcded72085"), 1, 0)
EPM = (uuid.UUID("e1af8308-5d1f-11c9-91a4-08002b14a0fa"), 3, 0)
BTFN_PREFIX = bytes.fromhex("2c1cb76c12984045")  # bind time feature negotiation uuid prefix (bytes_le)


class RpcDecodeError(Exception):
    pass


def enc_syntax(s) -> bytes:
    u, ver, minor = s
    return u.bytes_le + struct.pack("<HH", ver, minor)


def dec_syntax(b: bytes, off: int):
    return (uuid.UUID(bytes_le=bytes(b[off : off + 16])),) + struct.unpack_from("<HH", b, off + 16)


def enc_auth(a: t.Optional[dict]) -> bytes:
    if a is None:
        return b""
    return struct.pack("<BBBBI", a["type"], a["level"], a["pad"], a.get("reserved", 0), a["ctx"]) + a["token"]


def header(ptype: int, flags: int, frag_len: int, auth_len: int, call_id: int, drep: bytes = DREP_LE) -> bytes:
    return struct.pack("<BBBB4sHHI", 5, 0, ptype, flags, drep, frag_len, auth_len, call_id)


def encode(m: dict) -> bytes:
    pt = m["ptype"]
    if pt in (BIND, ALTER_CONTEXT):
        body = struct.pack("<HHI", m["max_xmit"], m["max_recv"], m["assoc"])
        body += struct.pack("<BBH", len(m["contexts"]), 0, 0)
        for ctx_id, abstract, transfers in m["contexts"]:
            body += struct.pack("<HBB", ctx_id, len(transfers), 0) + enc_syntax(abstract) + b"".join(enc_syntax(x) for x in transfers)
    elif pt in (BIND_ACK, ALTER_CONTEXT_RESP):
        body = struct.pack("<HHI", m["max_xmit"], m["max_recv"], m["assoc"])
        sa = (m["sec_addr"].encode("utf-8") + b"\x00") if m["sec_addr"] else b""
        body += struct.pack("<H", len(sa)) + sa
        body += b"\x00" * (-len(body) % 4)
        body += struct.pack("<BBH", len(m["results"]), 0, 0)
        for result, reason, u, ver in m["results"]:
            body += struct.pack("<HH", result, reason) + u.bytes_le + struct.pack("<I", ver)
    elif pt == BIND_NAK:
        body = struct.pack("<HB", m["reason"], len(m["versions"])) + b"".join(struct.pack("<BB", a, b) for a, b in m["versions"])
        body += b"\x00" * (-len(body) % 4)
    elif pt == REQUEST:
        body = struct.pack("<IHH", m["alloc_hint"], m["ctx_id"], m["opnum"])
        if m.get("obj") is not None:
            body += m["obj"].bytes_le
        body += m["stub"]
    elif pt == RESPONSE:
        body = struct.pack("<IHBB", m["alloc_hint"], m["ctx_id"], m["cancel_count"], 0) + m["stub"]
    elif pt == FAULT:
        body = struct.pack("<IHBBI4x", m["alloc_hint"], m["ctx_id"], m["cancel_count"], m.get("fault_flags", 0), m["status"]) + m["stub"]
    else:
        raise ValueError(f"ptype {pt}")
    auth = enc_auth(m.get("auth"))
    auth_len = len(m["auth"]["token"]) if m.get("auth") else 0
    total = 16 + len(body) + len(auth)
    return header(pt, m["flags"], total, auth_len, m["call_id"], m.get("drep", DREP_LE)) + body + auth


def decode(b: bytes, strict: bool = True) -> dict:
    b = bytes(b)
    if len(b) < 16:
        raise RpcDecodeError("short header")
    ver, minor, pt, flags, drep, frag_len, auth_len, call_id = struct.unpack_from("<BBBB4sHHI", b, 0)
    if ver != 5 or minor not in (0, 1):
        raise RpcDecodeError(f"rpc version {ver}.{minor}")
    if strict and frag_len != len(b):
        raise RpcDecodeError(f"frag_len {frag_len} != {len(b)} bytes on the wire")
    m: t.Dict[str, t.Any] = dict(ptype=pt, flags=flags, drep=drep, frag_len=frag_len, auth_len=auth_len, call_id=call_id, auth=None)
    end = frag_len
    if auth_len:
        off = frag_len - auth_len - 8
        if off < 16:
            raise RpcDecodeError("auth trailer overlaps header")
        at, al, ap, ar, ac = struct.unpack_from("<BBBBI", b, off)
        m["auth"] = dict(type=at, level=al, pad=ap, reserved=ar, ctx=ac, token=b[off + 8 : frag_len])
        m["auth_offset"] = off
        end = off
    body = b[16:end]
    try:
        if pt in (BIND, ALTER_CONTEXT):
            m["max_xmit"], m["max_recv"], m["assoc"], n, r1, r2 = struct.unpack_from("<HHIBBH", body, 0)
            p = 12
            ctxs = []
            for _ in range(n):
                cid, nt, res = struct.unpack_from("<HBB", body, p)
                abstract = dec_syntax(body, p + 4)
                p += 24
                trs = []
                for _ in range(nt):
                    trs.append(dec_syntax(body, p))
                    p += 20
                ctxs.append((cid, abstract, trs))
            m["contexts"] = ctxs
            if strict and p != len(body):
                raise RpcDecodeError(f"bind body has {len(body) - p} unexplained bytes")
        elif pt in (BIND_ACK, ALTER_CONTEXT_RESP):
            m["max_xmit"], m["max_recv"], m["assoc"], sl = struct.unpack_from("<HHIH", body, 0)
            sa = body[10 : 10 + sl]
            if len(sa) != sl:
                raise RpcDecodeError("sec_addr truncated")
            m["sec_addr"] = sa[:-1].decode("utf-8") if sl else ""
            if sl and sa[-1:] != b"\x00":
                raise RpcDecodeError("sec_addr not NUL terminated")
            p = 10 + sl
            p += -p % 4
            n, r1, r2 = struct.unpack_from("<BBH", body, p)
            p += 4
            res = []
            for _ in range(n):
                result, reason = struct.unpack_from("<HH", body, p)
                u = uuid.UUID(bytes_le=body[p + 4 : p + 20])
                (v,) = struct.unpack_from("<I", body, p + 20)
                res.append((result, reason, u, v))
                p += 24
            m["results"] = res
            if strict and p != len(body):
                raise RpcDecodeError(f"bind_ack body has {len(body) - p} unexplained bytes")
        elif pt == BIND_NAK:
            m["reason"], n = struct.unpack_from("<HB", body, 0)
            m["versions"] = [struct.unpack_from("<BB", body, 3 + 2 * i) for i in range(n)]
        elif pt == REQUEST:
            m["alloc_hint"], m["ctx_id"], m["opnum"] = struct.unpack_from("<IHH", body, 0)
            p = 8
            m["obj"] = None
            if flags & PFC_OBJECT_UUID:
                m["obj"] = uuid.UUID(bytes_le=body[8:24])
                p = 24
            m["stub"] = body[p:]
            m["stub_offset"] = 16 + p
        elif pt == RESPONSE:
            m["alloc_hint"], m["ctx_id"], m["cancel_count"], _ = struct.unpack_from("<IHBB", body, 0)
            m["stub"] = body[8:]
        elif pt == FAULT:
            m["alloc_hint"], m["ctx_id"], m["cancel_count"], m["fault_flags"], m["status"] = struct.unpack_from("<IHBBI", body, 0)
            m["stub"] = body[16:]
        else:
            raise RpcDecodeError(f"unsupported ptype {pt}")
    except struct.error as e:
        raise RpcDecodeError(f"truncated body: {e}")
    return m


# --- verification trailer (MS-RPCE 2.2.2.13) ------------------------------------
def enc_vt(commands: t.Sequence[t.Tuple[int, bytes]]) -> bytes:
    """commands: (command word incl. flags, value bytes)"""
    return VT_SIGNATURE + b"".join(struct.pack("<HH", c, len(v)) + v for c, v in commands)


def enc_vt_pcontext(interface, transfer, end: bool = True) -> t.Tuple[int, bytes]:
    return (0x0002 | (0x4000 if end else 0), enc_syntax(interface) + enc_syntax(transfer))


def dec_vt(b: bytes) -> t.Tuple[t.List[t.Tuple[int, bytes]], int]:
    if b[:8] != VT_SIGNATURE:
        raise RpcDecodeError("verification trailer signature")
    p = 8
    cmds = []
    while True:
        if p + 4 > len(b):
            raise RpcDecodeError("verification trailer without END")
        c, ln = struct.unpack_from("<HH", b, p)
        v = b[p + 4 : p + 4 + ln]
        if len(v) != ln:
            raise RpcDecodeError("verification trailer command truncated")
        cmds.append((c, bytes(v)))
        p += 4 + ln
        if c & 0x4000:
            break
    return cmds, p


def split_request_stub(plain: bytes, pad_length: int, stub_len: t.Optional[int] = None) -> dict:
    """Given the decrypted stub region of a request (stub || pad4 || vt || pad16) and the auth pad
    length, locate the verification trailer (searching for its signature on a 4-byte boundary)."""
    data = plain[: len(plain) - pad_length] if pad_length else plain
    out = dict(data=data, vt=None, vt_offset=None)
    idx = len(data)
    # the VT is the last thing before the auth padding: scan 4-aligned offsets from the end
    for off in range((len(data) - 12) & ~3, -1, -4):
        if data[off : off + 8] == VT_SIGNATURE:
            try:
                cmds, used = dec_vt(data[off:])
            except RpcDecodeError:
                continue
            if off + used == len(data):
                out.update(vt=cmds, vt_offset=off)
                idx = off
                break
    out["stub_and_pad"] = data[:idx]
    return out


def calibrate() -> t.List[str]:
    import json
    import os

    bad = []
    vec = json.load(open(os.path.join(os.path.dirname(os.path.abspath(__file__)), "vectors", "captured_rpc.json")))
    n = 0
    for name, hx in vec.items():
        mod = name.split("::")[0]
        if mod not in ("test_bind", "test_request") and "fault" not in name:
            continue
        raw = bytes.fromhex(hx)
        if int.from_bytes(raw[8:10], "little") != len(raw):
            continue  # two synthetic vectors of the suite carry a frag_len that is not their size
        try:
            m = decode(raw, strict=False)
            enc = bytearray(encode(m))
            if m["frag_len"] != len(raw):  # two synthetic vectors of the suite carry a frag_len that is not their size
                enc[8:10] = raw[8:10]
            if bytes(enc) != raw:
                # captured Windows PDUs may carry non-zero alignment padding: compare semantically
                m2 = decode(bytes(enc), strict=False)
                m2["frag_len"] = m["frag_len"]
                if len(enc) != len(raw) or m2 != m:
                    bad.append(f"{name}: re-encode differs")
            n += 1
        except Exception as e:
            bad.append(f"{name}: {type(e).__name__}: {e}")
    if n < 20:
        bad.append(f"only {n} captured PDUs calibrated")
    raw = bytes.fromhex(vec["test_verification::test_verification_trailer_pack::expected"])
    try:
        cmds, used = dec_vt(raw)
        if enc_vt(cmds) != raw or used != len(raw):
            bad.append("verification trailer re-encode")
    except Exception as e:
        bad.append(f"verification trailer: {e}")
    return bad
