"""Independent reference crypto for MS-GKDI / DPAPI-NG, from the specifications.

Trusted base: hashlib/hmac, Python integers, OpenSSL's raw AES block cipher and
GCM mode through cryptography's *low-level* Cipher API (the code under test uses
the AEAD/keywrap/KBKDF/ConcatKDF high-level classes instead).  No dpapi_ng import.
"""
from __future__ import annotations

import hashlib
import hmac
import typing as t
import uuid

from cryptography.hazmat.primitives.ciphers import Cipher, algorithms, modes

HASHES = {"SHA1": "sha1", "SHA256": "sha256", "SHA384": "sha384", "SHA512": "sha512"}
KDS_LABEL = "KDS service\0".encode("utf-16-le")
KDS_PUBKEY = "KDS public key\0".encode("utf-16-le")


def sp800_108_ctr(hash_name: str, ki: bytes, label: bytes, context: bytes, length: int) -> bytes:
    """SP800-108 KDF in counter mode, HMAC PRF, 32-bit counter before fixed data, 32-bit L (bits)."""
    h = HASHES[hash_name]
    fixed = label + b"\x00" + context + (length * 8).to_bytes(4, "big")
    out = b""
    i = 1
    while len(out) < length:
        out += hmac.new(ki, i.to_bytes(4, "big") + fixed, h).digest()
        i += 1
    return out[:length]


def concat_kdf(hash_name: str, z: bytes, otherinfo: bytes, length: int) -> bytes:
    """SP800-56A single-step KDF (hash variant)."""
    out = b""
    i = 1
    while len(out) < length:
        out += hashlib.new(hash_name, i.to_bytes(4, "big") + z + otherinfo).digest()
        i += 1
    return out[:length]


def s32(v: int) -> bytes:
    return v.to_bytes(4, "little", signed=True)


def kdf_ctx(rkid: uuid.UUID, l0: int, l1: int, l2: int) -> bytes:
    return rkid.bytes_le + s32(l0) + s32(l1) + s32(l2)


class Chain:
    """All L1 and L2 seed keys of one (root key, SD, L0, hash)."""

    def __init__(self, hash_name: str, root_key: bytes, rkid: uuid.UUID, sd: bytes, l0: int) -> None:
        self.hash_name = hash_name
        self.rkid = rkid
        self.l0 = l0
        k = lambda ki, ctx: sp800_108_ctr(hash_name, ki, KDS_LABEL, ctx, 64)  # noqa: E731
        self.l0_key = k(root_key, kdf_ctx(rkid, l0, -1, -1))
        self.l1: t.List[bytes] = [b""] * 32
        self.l1[31] = k(self.l0_key, kdf_ctx(rkid, l0, 31, -1) + sd)
        for a in range(30, -1, -1):
            self.l1[a] = k(self.l1[a + 1], kdf_ctx(rkid, l0, a, -1))
        self.l2: t.List[t.List[bytes]] = [[b""] * 32 for _ in range(32)]
        for a in range(32):
            self.l2[a][31] = k(self.l1[a], kdf_ctx(rkid, l0, a, 31))
            for b in range(30, -1, -1):
                self.l2[a][b] = k(self.l2[a][b + 1], kdf_ctx(rkid, l0, a, b))


def l2_key_single(hash_name: str, root_key: bytes, rkid: uuid.UUID, sd: bytes, l0: int, l1: int, l2: int) -> bytes:
    """Only the keys on the path to (l1, l2) - cheaper than Chain for single lookups."""
    k = lambda ki, ctx: sp800_108_ctr(hash_name, ki, KDS_LABEL, ctx, 64)  # noqa: E731
    key = k(root_key, kdf_ctx(rkid, l0, -1, -1))
    key = k(key, kdf_ctx(rkid, l0, 31, -1) + sd)
    for a in range(30, l1 - 1, -1):
        key = k(key, kdf_ctx(rkid, l0, a, -1))
    key = k(key, kdf_ctx(rkid, l0, l1, 31))
    for b in range(30, l2 - 1, -1):
        key = k(key, kdf_ctx(rkid, l0, l1, b))
    return key


# ---------------------------------------------------------------------------
# AES key wrap (RFC 3394) and GCM via the raw block cipher / low level mode


def _aes_ecb(key: bytes):
    return Cipher(algorithms.AES(key), modes.ECB())


def aes_kw_wrap(kek: bytes, plaintext: bytes) -> bytes:
    n = len(plaintext) // 8
    enc = _aes_ecb(kek).encryptor()
    a = b"\xa6" * 8
    r = [plaintext[i * 8 : i * 8 + 8] for i in range(n)]
    for j in range(6):
        for i in range(n):
            b = enc.update(a + r[i])
            tt = (n * j) + i + 1
            a = (int.from_bytes(b[:8], "big") ^ tt).to_bytes(8, "big")
            r[i] = b[8:]
    return a + b"".join(r)


def aes_kw_unwrap(kek: bytes, wrapped: bytes) -> t.Optional[bytes]:
    """Returns None when the integrity check fails."""
    if len(wrapped) % 8 or len(wrapped) < 24:
        return None
    n = len(wrapped) // 8 - 1
    dec = _aes_ecb(kek).decryptor()
    a = wrapped[:8]
    r = [wrapped[8 + i * 8 : 16 + i * 8] for i in range(n)]
    for j in range(5, -1, -1):
        for i in range(n - 1, -1, -1):
            tt = (n * j) + i + 1
            b = dec.update((int.from_bytes(a, "big") ^ tt).to_bytes(8, "big") + r[i])
            a = b[:8]
            r[i] = b[8:]
    if a != b"\xa6" * 8:
        return None
    return b"".join(r)


def gcm_decrypt(key: bytes, nonce: bytes, ct_and_tag: bytes, tag_len: int = 16) -> t.Optional[bytes]:
    if len(ct_and_tag) < tag_len:
        return None
    ct, tag = ct_and_tag[:-tag_len], ct_and_tag[-tag_len:]
    d = Cipher(algorithms.AES(key), modes.GCM(nonce, tag)).decryptor()
    try:
        return d.update(ct) + d.finalize()
    except Exception:
        return None


def gcm_encrypt(key: bytes, nonce: bytes, pt: bytes) -> bytes:
    e = Cipher(algorithms.AES(key), modes.GCM(nonce)).encryptor()
    ct = e.update(pt) + e.finalize()
    return ct + e.tag


# ---------------------------------------------------------------------------
# elliptic curves (short Weierstrass, a = -3), pure Python


class Curve:
    def __init__(self, name, p, b, gx, gy, n, size):
        self.name, self.p, self.a, self.b, self.gx, self.gy, self.n, self.size = name, p, p - 3, b, gx, gy, n, size

    def on_curve(self, x: int, y: int) -> bool:
        return 0 <= x < self.p and 0 <= y < self.p and (y * y - (x * x * x + self.a * x + self.b)) % self.p == 0

    def _dbl(self, P):
        X, Y, Z = P
        if not Y or not Z:
            return (0, 1, 0)
        p = self.p
        ysq = Y * Y % p
        S = 4 * X * ysq % p
        zz = Z * Z % p
        M = 3 * (X - zz) * (X + zz) % p  # a = -3
        nx = (M * M - 2 * S) % p
        ny = (M * (S - nx) - 8 * ysq * ysq) % p
        nz = 2 * Y * Z % p
        return (nx, ny, nz)

    def _add(self, P, Q):
        if not P[2]:
            return Q
        if not Q[2]:
            return P
        p = self.p
        X1, Y1, Z1 = P
        X2, Y2, Z2 = Q
        z1z1 = Z1 * Z1 % p
        z2z2 = Z2 * Z2 % p
        U1 = X1 * z2z2 % p
        U2 = X2 * z1z1 % p
        S1 = Y1 * Z2 * z2z2 % p
        S2 = Y2 * Z1 * z1z1 % p
        if U1 == U2:
            if S1 != S2:
                return (0, 1, 0)
            return self._dbl(P)
        H = (U2 - U1) % p
        R = (S2 - S1) % p
        hh = H * H % p
        hhh = H * hh % p
        v = U1 * hh % p
        nx = (R * R - hhh - 2 * v) % p
        ny = (R * (v - nx) - S1 * hhh) % p
        nz = H * Z1 * Z2 % p
        return (nx, ny, nz)

    def mul(self, k: int, x: int, y: int) -> t.Optional[t.Tuple[int, int]]:
        """k * (x, y); None for the point at infinity."""
        acc = (0, 1, 0)
        base = (x, y, 1)
        while k:
            if k & 1:
                acc = self._add(acc, base)
            base = self._dbl(base)
            k >>= 1
        if not acc[2]:
            return None
        zi = pow(acc[2], -1, self.p)
        zi2 = zi * zi % self.p
        return (acc[0] * zi2 % self.p, acc[1] * zi2 * zi % self.p)


P256 = Curve(
    "P256",
    0xFFFFFFFF00000001000000000000000000000000FFFFFFFFFFFFFFFFFFFFFFFF,
    0x5AC635D8AA3A93E7B3EBBD55769886BC651D06B0CC53B0F63BCE3C3E27D2604B,
    0x6B17D1F2E12C4247F8BCE6E563A440F277037D812DEB33A0F4A13945D898C296,
    0x4FE342E2FE1A7F9B8EE7EB4A7C0F9E162BCE33576B315ECECBB6406837BF51F5,
    0xFFFFFFFF00000000FFFFFFFFFFFFFFFFBCE6FAADA7179E84F3B9CAC2FC632551,
    32,
)
P384 = Curve(
    "P384",
    0xFFFFFFFFFFFFFFFFFFFFFFFFFFFFFFFFFFFFFFFFFFFFFFFFFFFFFFFFFFFFFFFEFFFFFFFF0000000000000000FFFFFFFF,
    0xB3312FA7E23EE7E4988E056BE3F82D19181D9C6EFE8141120314088F5013875AC656398D8A2ED19D2A85C8EDD3EC2AEF,
    0xAA87CA22BE8B05378EB1C71EF320AD746E1D3B628BA79B9859F741E082542A385502F25DBF55296C3A545E3872760AB7,
    0x3617DE4A96262C6F5D9E98BF9292DC29F8F41DBD289A147CE9DA3113B5F0B8C00A60B1CE1D7E819D7A431D7C90EA0E5F,
    0xFFFFFFFFFFFFFFFFFFFFFFFFFFFFFFFFFFFFFFFFFFFFFFFFC7634D81F4372DDF581A0DB248B0A77AECEC196ACCC52973,
    48,
)
CURVES = {"P256": P256, "P384": P384}  # P521 is outside the properties' scope
CURVE_HASH = {"P256": "sha256", "P384": "sha384", "P521": "sha512"}


# ---------------------------------------------------------------------------
# KEK


def kek_nonce(hash_name: str, l2_key: bytes, nonce: bytes) -> bytes:
    return sp800_108_ctr(hash_name, l2_key, KDS_LABEL, nonce, 32)


def shared_secret_dh(peer_public: int, private: int, p: int, key_length: int) -> bytes:
    return pow(peer_public, private, p).to_bytes(key_length, "big")


def shared_secret_ecdh(curve_name: str, px: int, py: int, private: int) -> t.Optional[bytes]:
    c = CURVES[curve_name]
    if not c.on_curve(px, py) or not (1 <= private < c.n):
        return None
    r = c.mul(private, px, py)
    if r is None:
        return None
    return r[0].to_bytes(c.size, "big")


def kek_from_secret(hash_name: str, z: bytes, concat_hash: str) -> bytes:
    otherinfo = "SHA512\0".encode("utf-16-le") + KDS_PUBKEY + KDS_LABEL
    secret = concat_kdf(concat_hash, z, otherinfo, hashlib.new(concat_hash).digest_size)
    return sp800_108_ctr(hash_name, secret, KDS_LABEL, KDS_PUBKEY, 32)


def private_from_seed(hash_name: str, l2_key: bytes, secret_algorithm: str, private_key_length_bits: int) -> bytes:
    n = -(-private_key_length_bits // 8)
    return sp800_108_ctr(hash_name, l2_key, KDS_LABEL, (secret_algorithm + "\0").encode("utf-16-le"), n)


def calibrate() -> t.List[str]:
    bad = []
    # RFC 3394 4.6: 256-bit KEK, 256-bit key data
    kek = bytes.fromhex("000102030405060708090A0B0C0D0E0F101112131415161718191A1B1C1D1E1F")
    pt = bytes.fromhex("00112233445566778899AABBCCDDEEFF000102030405060708090A0B0C0D0E0F")
    ct = bytes.fromhex("28C9F404C4B810F4CBCCB35CFB87F8263F5786E2D80ED326CBC7F0E71A99F43BFB988B9B7A02DD21")
    if aes_kw_wrap(kek, pt) != ct:
        bad.append("RFC3394 wrap")
    if aes_kw_unwrap(kek, ct) != pt:
        bad.append("RFC3394 unwrap")
    if aes_kw_unwrap(kek, ct[:-1] + bytes([ct[-1] ^ 1])) is not None:
        bad.append("RFC3394 unwrap integrity")
    # GCM: NIST test case 14 (AES-256, zero key/iv, 16 zero bytes)
    k = bytes(32)
    n = bytes(12)
    want = bytes.fromhex("cea7403d4d606b6e074ec5d3baf39d18" "d0d1c8a799996bf0265b98b5d48ab919")
    if gcm_encrypt(k, n, bytes(16)) != want:
        bad.append("GCM tc14 encrypt")
    if gcm_decrypt(k, n, want) != bytes(16):
        bad.append("GCM tc14 decrypt")
    if gcm_decrypt(k, n, want[:-1] + b"\x00") is not None:
        bad.append("GCM tag check")
    # EC: n*G = infinity, (n-1)*G = -G, known 2G for P-256
    for c in (P256, P384):
        if not c.on_curve(c.gx, c.gy):
            bad.append(f"{c.name} generator not on curve")
        if c.mul(c.n, c.gx, c.gy) is not None:
            bad.append(f"{c.name} n*G != inf")
        r = c.mul(c.n - 1, c.gx, c.gy)
        if r != (c.gx, (-c.gy) % c.p):
            bad.append(f"{c.name} (n-1)G != -G")
    two_g = P256.mul(2, P256.gx, P256.gy)
    if two_g != (
        0x7CF27B188D034F7E8A52380304B51AC3C08969E277F21B35A60B48FC47669978,
        0x07775510DB8ED040293D9AC69F7430DBBA7DADE63CE982299E04B79D227873D1,
    ):
        bad.append("P256 2G")
    # SP800-108 against HMAC by hand for a one-block output
    ki = b"k" * 20
    exp = hmac.new(ki, (1).to_bytes(4, "big") + b"L" + b"\0" + b"C" + (160).to_bytes(4, "big"), "sha1").digest()
    if sp800_108_ctr("SHA1", ki, b"L", b"C", 20) != exp:
        bad.append("sp800-108 single block")
    return bad
