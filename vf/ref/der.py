"""Independent strict DER encoder / decoder (X.690), written from the standard.

Nothing here imports dpapi_ng.  Used as the oracle for C04-C07.
"""
from __future__ import annotations

import typing as t

UNIVERSAL, APPLICATION, CONTEXT, PRIVATE = 0, 1, 2, 3


class DerError(Exception):
    pass


# ---------------------------------------------------------------------------
# encoding


def enc_base128(n: int) -> bytes:
    if n < 0:
        raise ValueError("negative")
    out = [n & 0x7F]
    n >>= 7
    while n:
        out.append(0x80 | (n & 0x7F))
        n >>= 7
    return bytes(reversed(out))


def enc_tag(cls: int, constructed: bool, number: int) -> bytes:
    first = (cls << 6) | (0x20 if constructed else 0)
    if number < 31:
        return bytes([first | number])
    return bytes([first | 0x1F]) + enc_base128(number)


def enc_len(n: int) -> bytes:
    if n < 0x80:
        return bytes([n])
    body = n.to_bytes((n.bit_length() + 7) // 8, "big")
    return bytes([0x80 | len(body)]) + body


def tlv(cls: int, constructed: bool, number: int, content: bytes) -> bytes:
    return enc_tag(cls, constructed, number) + enc_len(len(content)) + bytes(content)


def int_content(v: int) -> bytes:
    # minimal two's complement: smallest n with -2^(8n-1) <= v < 2^(8n-1)
    n = 1
    while not (-(1 << (8 * n - 1)) <= v < (1 << (8 * n - 1))):
        n += 1
    return v.to_bytes(n, "big", signed=True)


def enc_int(v: int, tag: t.Tuple[int, bool, int] = (UNIVERSAL, False, 2)) -> bytes:
    return tlv(*tag, int_content(v))


def enc_enum(v: int) -> bytes:
    return tlv(UNIVERSAL, False, 10, int_content(v))


def enc_bool(v: bool) -> bytes:
    return tlv(UNIVERSAL, False, 1, b"\xff" if v else b"\x00")


def oid_content(arcs: t.Sequence[int]) -> bytes:
    if len(arcs) < 2 or arcs[0] > 2 or (arcs[0] < 2 and arcs[1] > 39):
        raise ValueError("not an OID")
    out = enc_base128(40 * arcs[0] + arcs[1])
    for a in arcs[2:]:
        out += enc_base128(a)
    return out


def enc_oid(oid: t.Union[str, t.Sequence[int]]) -> bytes:
    arcs = [int(x) for x in oid.split(".")] if isinstance(oid, str) else list(oid)
    return tlv(UNIVERSAL, False, 6, oid_content(arcs))


def enc_octets(b: bytes) -> bytes:
    return tlv(UNIVERSAL, False, 4, b)


def enc_utf8(s: str) -> bytes:
    return tlv(UNIVERSAL, False, 12, s.encode("utf-8"))


def enc_gentime(s: str) -> bytes:
    return tlv(UNIVERSAL, False, 24, s.encode("utf-8"))


def enc_seq(*children: bytes) -> bytes:
    return tlv(UNIVERSAL, True, 16, b"".join(children))


def enc_set(*children: bytes) -> bytes:
    return tlv(UNIVERSAL, True, 17, b"".join(children))


# ---------------------------------------------------------------------------
# decoding (strict)


class Node:
    __slots__ = ("cls", "constructed", "number", "content", "children", "offset", "hdr_len", "length")

    def __init__(self, cls, constructed, number, content, children, offset, hdr_len, length):
        self.cls = cls
        self.constructed = constructed
        self.number = number
        self.content = content
        self.children = children
        self.offset = offset  # absolute offset of the identifier octet
        self.hdr_len = hdr_len
        self.length = length

    @property
    def total(self) -> int:
        return self.hdr_len + self.length

    @property
    def tag(self) -> t.Tuple[int, bool, int]:
        return (self.cls, self.constructed, self.number)

    def encode(self) -> bytes:
        if self.children is not None:
            return tlv(self.cls, self.constructed, self.number, b"".join(c.encode() for c in self.children))
        return tlv(self.cls, self.constructed, self.number, self.content)

    def shape(self) -> t.Any:
        if self.children is not None:
            return (self.cls, self.number, [c.shape() for c in self.children])
        return (self.cls, self.number, len(self.content))

    def walk(self) -> t.Iterator["Node"]:
        yield self
        for c in self.children or []:
            yield from c.walk()

    def __repr__(self) -> str:  # pragma: no cover
        return f"Node({self.cls},{self.constructed},{self.number},len={self.length})"


def read_header(data: bytes, pos: int, end: int) -> t.Tuple[int, bool, int, int, int]:
    """-> cls, constructed, number, header_len, content_len  (strict DER)"""
    start = pos
    if pos >= end:
        raise DerError("no data")
    first = data[pos]
    pos += 1
    cls = first >> 6
    constructed = bool(first & 0x20)
    number = first & 0x1F
    if number == 0x1F:
        number = 0
        n = 0
        while True:
            if pos >= end:
                raise DerError("truncated tag")
            b = data[pos]
            pos += 1
            if n == 0 and b == 0x80:
                raise DerError("non-minimal high tag number")
            number = (number << 7) | (b & 0x7F)
            n += 1
            if not b & 0x80:
                break
        if number < 31:
            raise DerError("high tag form used for a low tag number")
    if pos >= end:
        raise DerError("truncated length")
    lb = data[pos]
    pos += 1
    if lb < 0x80:
        length = lb
    elif lb == 0x80:
        raise DerError("indefinite length")
    elif lb == 0xFF:
        raise DerError("reserved length octet")
    else:
        k = lb & 0x7F
        if pos + k > end:
            raise DerError("truncated long length")
        raw = data[pos : pos + k]
        pos += k
        if raw[0] == 0:
            raise DerError("non-minimal length (leading zero)")
        length = int.from_bytes(raw, "big")
        if length < 0x80:
            raise DerError("non-minimal length (long form for short value)")
    if pos + length > end:
        raise DerError("content exceeds data")
    return cls, constructed, number, pos - start, length


def parse_at(data: bytes, pos: int, end: int, depth: int = 0, opaque_constructed: bool = False) -> Node:
    cls, constructed, number, hl, ln = read_header(data, pos, end)
    content = bytes(data[pos + hl : pos + hl + ln])
    children = None
    if constructed and depth < 64:
        children = []
        p = pos + hl
        e = p + ln
        while p < e:
            c = parse_at(data, p, e, depth + 1)
            children.append(c)
            p += c.total
    return Node(cls, constructed, number, content, children, pos, hl, ln)


def parse(data: bytes) -> Node:
    """Parse exactly one TLV occupying all of data."""
    data = bytes(data)
    n = parse_at(data, 0, len(data))
    if n.total != len(data):
        raise DerError(f"trailing bytes: {len(data) - n.total}")
    return n


def parse_prefix(data: bytes) -> t.Tuple[Node, bytes]:
    data = bytes(data)
    n = parse_at(data, 0, len(data))
    return n, data[n.total :]


def parse_all(data: bytes) -> t.List[Node]:
    data = bytes(data)
    out = []
    p = 0
    while p < len(data):
        n = parse_at(data, p, len(data))
        out.append(n)
        p += n.total
    return out


def dec_int(content: bytes) -> int:
    if not content:
        raise DerError("empty INTEGER")
    if len(content) > 1 and ((content[0] == 0 and not content[1] & 0x80) or (content[0] == 0xFF and content[1] & 0x80)):
        raise DerError("non-minimal INTEGER")
    return int.from_bytes(content, "big", signed=True)


def dec_base128_seq(content: bytes) -> t.List[int]:
    out = []
    cur = 0
    started = False
    for b in content:
        if not started and b == 0x80:
            raise DerError("non-minimal sub-identifier")
        started = True
        cur = (cur << 7) | (b & 0x7F)
        if not b & 0x80:
            out.append(cur)
            cur = 0
            started = False
    if started:
        raise DerError("truncated sub-identifier")
    return out


def dec_oid(content: bytes) -> t.List[int]:
    if not content:
        raise DerError("empty OID")
    subs = dec_base128_seq(content)
    first = subs[0]
    x = min(first // 40, 2)
    return [x, first - 40 * x] + subs[1:]


def oid_str(content: bytes) -> str:
    return ".".join(str(a) for a in dec_oid(content))


def calibrate() -> t.List[str]:
    """X.690 / well-known vectors. Returns list of failures (empty = calibrated)."""
    bad = []

    def eq(name, got, want_hex):
        if bytes(got).hex() != want_hex.replace(" ", ""):
            bad.append(f"{name}: got {bytes(got).hex()} want {want_hex}")

    eq("int0", enc_int(0), "020100")
    eq("int127", enc_int(127), "02017f")
    eq("int128", enc_int(128), "02020080")
    eq("int256", enc_int(256), "02020100")
    eq("int-128", enc_int(-128), "020180")
    eq("int-129", enc_int(-129), "0202ff7f")
    eq("int-65536", enc_int(-65536), "0203ff0000")
    eq("bool", enc_bool(True), "0101ff")
    eq("oid rsadsi", enc_oid("1.2.840.113549"), "06062a864886f70d")
    eq("oid 2.100.3", enc_oid("2.100.3"), "0603813403")  # X.690 8.19.5 example
    eq("oid 2.999.3", enc_oid("2.999.3"), "0603883703")
    eq("len 127", enc_len(127), "7f")
    eq("len 128", enc_len(128), "8180")
    eq("len 256", enc_len(256), "820100")
    eq("len 65536", enc_len(65536), "83010000")
    eq("tag 30", enc_tag(CONTEXT, False, 30), "9e")
    eq("tag 31", enc_tag(CONTEXT, False, 31), "9f1f")
    eq("tag 128", enc_tag(CONTEXT, True, 128), "bf8100")
    eq("seq", enc_seq(enc_int(1), enc_utf8("a")), "3006 020101 0c0161")
    for v in (0, 1, -1, 127, 128, -128, -129, 255, 256, -256, -257, 32767, 32768, -32768, -32769, -65536, 2**64, -(2**64)):
        if dec_int(int_content(v)) != v:
            bad.append(f"int roundtrip {v}")
    for badenc in ("0200", "02020001", "0202ff80", "068080", "3080", "308100", "1f01", "020101ff"):
        try:
            parse(bytes.fromhex(badenc))
            n = parse(bytes.fromhex(badenc))
            if n.number == 2 and n.cls == 0:
                dec_int(n.content)
            elif n.number == 6 and n.cls == 0:
                dec_oid(n.content)
            else:
                raise AssertionError
            bad.append(f"accepted non-DER {badenc}")
        except DerError:
            pass
        except AssertionError:
            bad.append(f"accepted non-DER {badenc}")
    if dec_oid(bytes.fromhex("883703")) != [2, 999, 3]:
        bad.append("dec oid 2.999.3")
    return bad
