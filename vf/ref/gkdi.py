"""Independent encoders / decoders for the MS-GKDI structures and the NDR64 GetKey
stubs, written from MS-GKDI 2.2.x / 3.1.4.1 and C706 ch.14 (NDR) / MS-RPCE 2.2.5 (NDR64).
No dpapi_ng import.  Values are plain dicts / tuples.
"""
from __future__ import annotations

import struct
import typing as t
import uuid


def u32(v: int) -> bytes:
    return struct.pack("<I", v)


def utf16z(s: str) -> bytes:
    return s.encode("utf-16-le") + b"\x00\x00"


def be_fixed(v: int, n: int) -> bytes:
    return v.to_bytes(n, "big")


# --- 2.2.1 KDF parameters ---------------------------------------------------
def enc_kdf_parameters(hash_name: str) -> bytes:
    name = utf16z(hash_name)
    return b"\x00\x00\x00\x00\x01\x00\x00\x00" + u32(len(name)) + b"\x00\x00\x00\x00" + name


def dec_kdf_parameters(b: bytes) -> str:
    if b[:8] != b"\x00\x00\x00\x00\x01\x00\x00\x00" or b[12:16] != b"\x00" * 4:
        raise ValueError("kdf parameters magic")
    (n,) = struct.unpack_from("<I", b, 8)
    raw = b[16 : 16 + n]
    if len(raw) != n or raw[-2:] != b"\x00\x00":
        raise ValueError("kdf parameters name")
    return raw[:-2].decode("utf-16-le")


# --- 2.2.2 FFC DH parameters --------------------------------------------------
def enc_ffc_dh_parameters(key_length: int, p: int, g: int) -> bytes:
    return u32(12 + 2 * key_length) + b"DHPM" + u32(key_length) + be_fixed(p, key_length) + be_fixed(g, key_length)


def dec_ffc_dh_parameters(b: bytes) -> t.Tuple[int, int, int]:
    length, magic, kl = struct.unpack_from("<I4sI", b, 0)
    if magic != b"DHPM" or length != 12 + 2 * kl or len(b) < length:
        raise ValueError("ffc dh parameters")
    return kl, int.from_bytes(b[12 : 12 + kl], "big"), int.from_bytes(b[12 + kl : 12 + 2 * kl], "big")


# --- 2.2.3.1 FFC DH key -----------------------------------------------------
def enc_ffc_dh_key(key_length: int, p: int, g: int, y: int) -> bytes:
    return b"DHPB" + u32(key_length) + be_fixed(p, key_length) + be_fixed(g, key_length) + be_fixed(y, key_length)


def dec_ffc_dh_key(b: bytes) -> t.Tuple[int, int, int, int]:
    magic, kl = struct.unpack_from("<4sI", b, 0)
    if magic != b"DHPB" or len(b) < 8 + 3 * kl:
        raise ValueError("ffc dh key")
    f = lambda i: int.from_bytes(b[8 + i * kl : 8 + (i + 1) * kl], "big")  # noqa: E731
    return kl, f(0), f(1), f(2)


# --- 2.2.3.2 ECDH key ---------------------------------------------------------
EC_MAGIC = {"P256": b"ECK1", "P384": b"ECK3", "P521": b"ECK5"}


def enc_ecdh_key(curve: str, key_length: int, x: int, y: int) -> bytes:
    return EC_MAGIC[curve] + u32(key_length) + be_fixed(x, key_length) + be_fixed(y, key_length)


def dec_ecdh_key(b: bytes) -> t.Tuple[str, int, int, int]:
    magic, kl = struct.unpack_from("<4sI", b, 0)
    curve = {v: k for k, v in EC_MAGIC.items()}.get(magic)
    if curve is None or len(b) < 8 + 2 * kl:
        raise ValueError("ecdh key")
    return curve, kl, int.from_bytes(b[8 : 8 + kl], "big"), int.from_bytes(b[8 + kl : 8 + 2 * kl], "big")


# --- 2.2.4 Group key envelope -------------------------------------------------
ENVELOPE_FIELDS = (
    "version flags l0 l1 l2 root_key_identifier kdf_algorithm kdf_parameters secret_algorithm "
    "secret_parameters private_key_length public_key_length domain_name forest_name l1_key l2_key"
).split()


def enc_envelope(e: dict) -> bytes:
    kdf_alg = utf16z(e["kdf_algorithm"])
    sec_alg = utf16z(e["secret_algorithm"])
    dom = utf16z(e["domain_name"])
    forest = utf16z(e["forest_name"])
    return b"".join(
        [
            u32(e["version"]),
            b"KDSK",
            u32(e["flags"]),
            u32(e["l0"]),
            u32(e["l1"]),
            u32(e["l2"]),
            e["root_key_identifier"].bytes_le,
            u32(len(kdf_alg)),
            u32(len(e["kdf_parameters"])),
            u32(len(sec_alg)),
            u32(len(e["secret_parameters"])),
            u32(e["private_key_length"]),
            u32(e["public_key_length"]),
            u32(len(e["l1_key"])),
            u32(len(e["l2_key"])),
            u32(len(dom)),
            u32(len(forest)),
            kdf_alg,
            e["kdf_parameters"],
            sec_alg,
            e["secret_parameters"],
            dom,
            forest,
            e["l1_key"],
            e["l2_key"],
        ]
    )


def dec_envelope(b: bytes) -> dict:
    if len(b) < 80 or b[4:8] != b"KDSK":
        raise ValueError("envelope magic")
    ver, _, flags, l0, l1, l2 = struct.unpack_from("<I4sIIII", b, 0)
    rk = uuid.UUID(bytes_le=bytes(b[24:40]))
    lens = struct.unpack_from("<10I", b, 40)
    kal, kpl, sal, spl, priv, pub, l1l, l2l, dl, fl = lens
    p = 80

    def take(n):
        nonlocal p
        out = b[p : p + n]
        if len(out) != n:
            raise ValueError("envelope truncated")
        p += n
        return bytes(out)

    def name(n):
        raw = take(n)
        if raw[-2:] != b"\x00\x00":
            raise ValueError("name terminator")
        return raw[:-2].decode("utf-16-le")

    kdf_alg = name(kal)
    kdf_par = take(kpl)
    sec_alg = name(sal)
    sec_par = take(spl)
    dom = name(dl)
    forest = name(fl)
    l1k = take(l1l)
    l2k = take(l2l)
    return dict(
        version=ver,
        flags=flags,
        l0=l0,
        l1=l1,
        l2=l2,
        root_key_identifier=rk,
        kdf_algorithm=kdf_alg,
        kdf_parameters=kdf_par,
        secret_algorithm=sec_alg,
        secret_parameters=sec_par,
        private_key_length=priv,
        public_key_length=pub,
        domain_name=dom,
        forest_name=forest,
        l1_key=l1k,
        l2_key=l2k,
        _consumed=p,
    )


# --- key identifier (the KEKIdentifier.keyIdentifier octets of a DPAPI-NG blob) -----
KEYID_FIELDS = "version flags l0 l1 l2 root_key_identifier key_info domain_name forest_name".split()


def enc_key_identifier(k: dict) -> bytes:
    dom = utf16z(k["domain_name"])
    forest = utf16z(k["forest_name"])
    return b"".join(
        [
            u32(k["version"]),
            b"KDSK",
            u32(k["flags"]),
            u32(k["l0"]),
            u32(k["l1"]),
            u32(k["l2"]),
            k["root_key_identifier"].bytes_le,
            u32(len(k["key_info"])),
            u32(len(dom)),
            u32(len(forest)),
            k["key_info"],
            dom,
            forest,
        ]
    )


def dec_key_identifier(b: bytes) -> dict:
    if len(b) < 52 or b[4:8] != b"KDSK":
        raise ValueError("key identifier magic")
    ver, _, flags, l0, l1, l2 = struct.unpack_from("<I4sIIII", b, 0)
    rk = uuid.UUID(bytes_le=bytes(b[24:40]))
    kil, dl, fl = struct.unpack_from("<3I", b, 40)
    p = 52
    ki = bytes(b[p : p + kil])
    p += kil
    dom = bytes(b[p : p + dl])
    p += dl
    forest = bytes(b[p : p + fl])
    p += fl
    if len(ki) != kil or len(dom) != dl or len(forest) != fl or p != len(b):
        raise ValueError("key identifier lengths")
    if dom[-2:] != b"\0\0" or forest[-2:] != b"\0\0":
        raise ValueError("key identifier names")
    return dict(
        version=ver,
        flags=flags,
        l0=l0,
        l1=l1,
        l2=l2,
        root_key_identifier=rk,
        key_info=ki,
        domain_name=dom[:-2].decode("utf-16-le"),
        forest_name=forest[:-2].decode("utf-16-le"),
    )


# --- GetKey (opnum 0), NDR64 ----------------------------------------------------
def pad(n: int, align: int) -> bytes:
    return b"\x00" * (-n % align)


def enc_getkey_request(target_sd: bytes, root_key_id: t.Optional[uuid.UUID], l0: int, l1: int, l2: int) -> bytes:
    out = bytearray()
    out += struct.pack("<I", len(target_sd))  # cbTargetSD (ULONG)
    out += pad(len(out), 8)  # conformant array max count is 8-aligned in NDR64
    out += struct.pack("<Q", len(target_sd))  # max count
    out += target_sd
    out += pad(len(out), 8)  # unique pointer (8 bytes) alignment
    if root_key_id is None:
        out += struct.pack("<Q", 0)
    else:
        out += struct.pack("<Q", 0x20000)
        out += root_key_id.bytes_le  # GUID alignment 4 - already aligned
    out += struct.pack("<iii", l0, l1, l2)
    return bytes(out)


def dec_getkey_request(b: bytes) -> dict:
    """Strict decoder. The referent id of the unique pointer may be any non-zero value."""
    p = 0
    (cb,) = struct.unpack_from("<I", b, p)
    p = 8
    (mx,) = struct.unpack_from("<Q", b, p)
    p += 8
    if mx != cb:
        raise ValueError(f"max count {mx} != cbTargetSD {cb}")
    sd = bytes(b[p : p + cb])
    if len(sd) != cb:
        raise ValueError("sd truncated")
    p += cb
    padlen = -p % 8
    if any(b[p : p + padlen]):
        pass  # padding content is unspecified
    p += padlen
    (ref,) = struct.unpack_from("<Q", b, p)
    p += 8
    rk = None
    if ref:
        rk = uuid.UUID(bytes_le=bytes(b[p : p + 16]))
        p += 16
    l0, l1, l2 = struct.unpack_from("<iii", b, p)
    p += 12
    return dict(target_sd=sd, root_key_id=rk, l0=l0, l1=l1, l2=l2, consumed=p, referent=ref)


def enc_getkey_response(envelope: bytes, hresult: int = 0, referent: int = 0x20000, null_ptr: bool = False) -> bytes:
    out = bytearray()
    out += struct.pack("<I", len(envelope))  # pcbOut
    out += pad(len(out), 8)
    if null_ptr:
        out += struct.pack("<Q", 0)
    else:
        out += struct.pack("<Q", referent)  # ppbOut referent
        out += struct.pack("<Q", len(envelope))  # max count
        out += envelope
    out += pad(len(out), 4)
    out += struct.pack("<I", hresult)
    return bytes(out)


def calibrate(vec_dir: str) -> t.List[str]:
    import os

    bad = []

    def rd(n):
        return open(os.path.join(vec_dir, n), "rb").read()

    try:
        e = rd("group_key_envelope")
        d = dec_envelope(e)
        if enc_envelope(d) != e[: d["_consumed"]] or d["_consumed"] != len(e):
            bad.append("group_key_envelope re-encode")
        if (d["l0"], d["l1"], d["l2"]) != (361, 17, 8) or len(d["l1_key"]) != 64 or len(d["l2_key"]) != 64:
            bad.append("group_key_envelope fields")
        if dec_kdf_parameters(d["kdf_parameters"]) != "SHA512" or enc_kdf_parameters("SHA512") != d["kdf_parameters"]:
            bad.append("kdf parameters in envelope")
        b = rd("ffc_dh_parameters")
        kl, p, g = dec_ffc_dh_parameters(b)
        if enc_ffc_dh_parameters(kl, p, g) != b:
            bad.append("ffc_dh_parameters")
        b = rd("ffc_dh_key")
        t4 = dec_ffc_dh_key(b)
        if enc_ffc_dh_key(*t4) != b:
            bad.append("ffc_dh_key")
        b = rd("ecdh_key")
        t4 = dec_ecdh_key(b)
        if enc_ecdh_key(*t4) != b:
            bad.append("ecdh_key")
    except Exception as ex:  # pragma: no cover
        bad.append(f"gkdi calibration raised {type(ex).__name__}: {ex}")
    # GetKey bytes captured in tests/test_gkdi.py
    want = (
        b"\x04\x00\x00\x00\x00\x00\x00\x00\x04\x00\x00\x00\x00\x00\x00\x00\x01\x02\x03\x04\x00\x00\x00\x00"
        b"\x00\x00\x02\x00\x00\x00\x00\x00\x20\x44\x29\x73\x7f\x91\x6a\x41\x9e\xc3\x86\x08\x2a\xfa\xfb\x9e"
        b"\xff\xff\xff\xff\x01\x00\x00\x00\x1f\x00\x00\x00"
    )
    got = enc_getkey_request(b"\x01\x02\x03\x04", uuid.UUID("73294420-917f-416a-9ec3-86082afafb9e"), -1, 1, 31)
    if got != want:
        bad.append("GetKey request with root key id")
    want2 = (
        b"\x04\x00\x00\x00\x00\x00\x00\x00\x04\x00\x00\x00\x00\x00\x00\x00\x01\x02\x03\x04\x00\x00\x00\x00"
        b"\x00\x00\x00\x00\x00\x00\x00\x00\xff\xff\xff\xff\x01\x00\x00\x00\x1f\x00\x00\x00"
    )
    if enc_getkey_request(b"\x01\x02\x03\x04", None, -1, 1, 31) != want2:
        bad.append("GetKey request without root key id")
    d = dec_getkey_request(want)
    if (d["target_sd"], d["l0"], d["l1"], d["l2"], d["consumed"]) != (b"\x01\x02\x03\x04", -1, 1, 31, len(want)):
        bad.append("GetKey request decode")
    return bad
