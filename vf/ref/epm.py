"""Independent ept_map (opnum 3) NDR64 request / response codec and tower codec, from C706
appendices I/L/O and MS-RPCE 2.2.1.2.5.  No dpapi_ng import.

A floor is (protocol:int, lhs:bytes, rhs:bytes) where lhs excludes the protocol octet.
"""
from __future__ import annotations

import struct
import typing as t
import uuid

PROTO_TCP, PROTO_IP, PROTO_RPC_CO, PROTO_UUID = 0x07, 0x09, 0x0B, 0x0D


class EpmDecodeError(Exception):
    pass


def floor_uuid(u: uuid.UUID, ver: int, minor: int):
    return (PROTO_UUID, u.bytes_le + struct.pack("<H", ver), struct.pack("<H", minor))


def floor_rpc_co(minor: int = 0):
    return (PROTO_RPC_CO, b"", struct.pack("<H", minor))


def floor_tcp(port: int):
    return (PROTO_TCP, b"", struct.pack(">H", port))


def floor_ip(addr: int):
    return (PROTO_IP, b"", struct.pack(">I", addr))


def tcpip_tower(service, data_rep, port: int, addr: int = 0):
    return [floor_uuid(*service), floor_uuid(*data_rep), floor_rpc_co(0), floor_tcp(port), floor_ip(addr)]


def enc_floor(f) -> bytes:
    proto, lhs, rhs = f
    return struct.pack("<HB", len(lhs) + 1, proto) + lhs + struct.pack("<H", len(rhs)) + rhs


def enc_tower(floors) -> bytes:
    return struct.pack("<H", len(floors)) + b"".join(enc_floor(f) for f in floors)


def dec_tower(b: bytes) -> t.List[tuple]:
    (n,) = struct.unpack_from("<H", b, 0)
    p = 2
    out = []
    for _ in range(n):
        (ll,) = struct.unpack_from("<H", b, p)
        if ll < 1 or p + 2 + ll > len(b):
            raise EpmDecodeError("floor lhs")
        proto = b[p + 2]
        lhs = bytes(b[p + 3 : p + 2 + ll])
        p += 2 + ll
        (rl,) = struct.unpack_from("<H", b, p)
        rhs = bytes(b[p + 2 : p + 2 + rl])
        if len(rhs) != rl:
            raise EpmDecodeError("floor rhs")
        p += 2 + rl
        out.append((proto, lhs, rhs))
    if p != len(b):
        raise EpmDecodeError(f"tower has {len(b) - p} trailing bytes")
    return out


def first_tcp_port(towers) -> t.Optional[int]:
    for tw in towers:
        for proto, lhs, rhs in tw:
            if proto == PROTO_TCP:
                return int.from_bytes(rhs, "big")
    return None


def pad(n: int, a: int) -> bytes:
    return b"\x00" * (-n % a)


def enc_twr_p(floors) -> bytes:
    """twr_t: [unsigned32 tower_length][size_is(tower_length) byte tower_octet_string[]] as NDR64
    conformant struct: max count (8) ; tower_length (4) ; octets."""
    t_ = enc_tower(floors)
    return struct.pack("<QI", len(t_), len(t_)) + t_


def enc_request(obj: t.Optional[uuid.UUID], floors, entry_handle: t.Optional[t.Tuple[int, uuid.UUID]], max_towers: int) -> bytes:
    out = bytearray()
    out += struct.pack("<Q", 1)  # obj full pointer referent
    out += obj.bytes_le if obj else b"\x00" * 16
    out += struct.pack("<Q", 2)  # map_tower referent
    out += enc_twr_p(floors)
    out += pad(len(out), 4)  # entry_handle: context handle (attributes u32 + uuid), 4-aligned
    # NDR64: the tower is followed by padding to the next 8-byte boundary in the captured request
    out += pad(len(out), 8)
    if entry_handle:
        out += struct.pack("<I", entry_handle[0]) + entry_handle[1].bytes_le
    else:
        out += b"\x00" * 20
    out += struct.pack("<I", max_towers)
    return bytes(out)


def enc_response(
    towers: t.Sequence[t.Sequence[tuple]],
    status: int = 0,
    entry_handle: t.Optional[t.Tuple[int, uuid.UUID]] = None,
    max_count: t.Optional[int] = None,
    referents: t.Optional[t.Sequence[int]] = None,
    num_towers: t.Optional[int] = None,
) -> bytes:
    out = bytearray()
    if entry_handle:
        out += struct.pack("<I", entry_handle[0]) + entry_handle[1].bytes_le
    else:
        out += b"\x00" * 20
    n = len(towers)
    out += struct.pack("<I", n if num_towers is None else num_towers)
    out += pad(len(out), 8)
    out += struct.pack("<QQQ", n if max_count is None else max_count, 0, n)  # max count, offset, actual count
    refs = list(referents) if referents is not None else [3 + i for i in range(n)]
    for r in refs:
        out += struct.pack("<Q", r)
    for tw in towers:
        out += pad(len(out), 8)
        out += enc_twr_p(tw)
    out += pad(len(out), 4)
    out += struct.pack("<I", status)
    return bytes(out)


def dec_response(b: bytes) -> dict:
    if len(b) < 52:
        raise EpmDecodeError("short reply")
    attrs = struct.unpack_from("<I", b, 0)[0]
    hu = uuid.UUID(bytes_le=bytes(b[4:20]))
    (num,) = struct.unpack_from("<I", b, 20)
    mx, off, actual = struct.unpack_from("<QQQ", b, 24)
    p = 48
    refs = []
    for _ in range(actual):
        if p + 8 > len(b):
            raise EpmDecodeError("referents truncated")
        refs.append(struct.unpack_from("<Q", b, p)[0])
        p += 8
    towers = []
    for r in refs:
        if r == 0:
            towers.append(None)
            continue
        p += -p % 8
        if p + 12 > len(b):
            raise EpmDecodeError("tower header truncated")
        mc, ln = struct.unpack_from("<QI", b, p)
        if mc != ln or p + 12 + ln > len(b):
            raise EpmDecodeError("tower length")
        towers.append(dec_tower(b[p + 12 : p + 12 + ln]))
        p += 12 + ln
    p += -p % 4
    (status,) = struct.unpack_from("<I", b, p)
    p += 4
    if p != len(b):
        raise EpmDecodeError(f"{len(b) - p} trailing bytes")
    return dict(entry_handle=None if (attrs == 0 and hu.int == 0) else (attrs, hu), num_towers=num, max_count=mx, towers=towers, status=status)


def dec_request(b: bytes) -> dict:
    (ref1,) = struct.unpack_from("<Q", b, 0)
    obj = uuid.UUID(bytes_le=bytes(b[8:24]))
    (ref2,) = struct.unpack_from("<Q", b, 24)
    mc, ln = struct.unpack_from("<QI", b, 32)
    tower = dec_tower(b[44 : 44 + ln])
    p = 44 + ln
    p += -p % 8
    attrs = struct.unpack_from("<I", b, p)[0]
    hu = uuid.UUID(bytes_le=bytes(b[p + 4 : p + 20]))
    (mt,) = struct.unpack_from("<I", b, p + 20)
    if p + 24 != len(b):
        raise EpmDecodeError("request trailing bytes")
    return dict(obj=None if obj.int == 0 else obj, tower=tower, entry_handle=None if (attrs == 0 and hu.int == 0) else (attrs, hu), max_towers=mt)


def calibrate() -> t.List[str]:
    import json
    import os

    bad = []
    vec = json.load(open(os.path.join(os.path.dirname(os.path.abspath(__file__)), "vectors", "captured_rpc.json")))
    raw = bytes.fromhex(vec["test_epm::test_ept_map_result_unpack::data"])  # real reply: 3 towers of length 75, max_count 4
    try:
        d = dec_response(raw)
        if len(d["towers"]) != 3 or [first_tcp_port([t_]) for t_ in d["towers"]] != [49672, 49670, 49667] or d["status"] != 0 or d["max_count"] != 4:
            bad.append(f"captured ept_map reply decoded to {d}")
        if enc_response(d["towers"], 0, None, max_count=4) != raw:
            bad.append("captured ept_map reply re-encode differs")
    except Exception as e:
        bad.append(f"ept_map reply: {type(e).__name__}: {e}")
    raw = bytes.fromhex(vec["test_epm::test_ept_map_pack::expected"])
    try:
        d = dec_request(raw)
        if enc_request(d["obj"], d["tower"], d["entry_handle"], d["max_towers"]) != raw:
            bad.append("captured ept_map request re-encode differs")
        if d["tower"][3][0] != PROTO_TCP:
            bad.append("captured request tower floors")
    except Exception as e:
        bad.append(f"ept_map request: {type(e).__name__}: {e}")
    raw = bytes.fromhex(vec["test_epm::test_ept_map_pack_obj_and_entry_handle::expected"])
    try:
        d = dec_request(raw)
        if enc_request(d["obj"], d["tower"], d["entry_handle"], d["max_towers"]) != raw:
            bad.append("captured ept_map request (obj+handle) re-encode differs")
    except Exception as e:
        bad.append(f"ept_map request 2: {type(e).__name__}: {e}")
    raw = bytes.fromhex(vec["test_epm::test_ept_map_result_pack_handle::expected"])
    try:
        d = dec_response(raw)
        if enc_response([], d["status"], d["entry_handle"]) != raw:
            bad.append("ept_map reply with handle re-encode differs")
    except Exception as e:
        bad.append(f"ept_map reply with handle: {type(e).__name__}: {e}")
    return bad
