"""Monitors attached from outside the code under test: interpreter step meter, KDF meter,
scripted clock, entropy recorder, network guard."""
from __future__ import annotations

import contextlib
import os
import sys
import time
import typing as t

from vf.instruments.clock import CLOCK, EPOCH_FILETIME, Clock, filetime_to_ns  # noqa: F401  (installed before the code under test is imported)

import dpapi_ng

DPAPI_ROOT = os.path.dirname(os.path.abspath(dpapi_ng.__file__))


class BudgetExceeded(BaseException):
    """Raised from inside a monitor to cut a runaway computation. BaseException so that
    `except Exception` in the code under test cannot swallow it."""


class StepBudgetExceeded(BudgetExceeded):
    pass


class KdfBudgetExceeded(BudgetExceeded):
    pass


class NetworkAttempt(BaseException):
    pass


# ---------------------------------------------------------------------------
class StepMeter:
    """Counts LINE events inside dpapi_ng source files (sys.monitoring) and raises
    StepBudgetExceeded at the exact line where the budget is exhausted."""

    TOOL = 4

    def __init__(self) -> None:
        self.n = 0
        self.limit = 1 << 62
        self.deepest: t.Set[str] = set()
        self.track_files = False
        self.files: t.Set[str] = set()
        self._installed = False
        self.where = ""

    def install(self) -> None:
        if self._installed:
            return
        mon = sys.monitoring
        mon.use_tool_id(self.TOOL, "vf-stepmeter")
        mon.register_callback(self.TOOL, mon.events.LINE, self._on_line)
        self._installed = True

    def _on_line(self, code, line):
        fn = code.co_filename
        if not fn.startswith(DPAPI_ROOT):
            return sys.monitoring.DISABLE
        self.n += 1
        if self.track_files:
            self.files.add(fn[len(DPAPI_ROOT) + 1 :] + ":" + code.co_name)
        if self.n > self.limit:
            self.where = f"{fn[len(DPAPI_ROOT) + 1:]}:{line} in {code.co_name}"
            self.limit = 1 << 62  # raise once
            raise StepBudgetExceeded(self.where)

    @contextlib.contextmanager
    def measure(self, limit: int, track_files: bool = False):
        self.install()
        mon = sys.monitoring
        self.n = 0
        self.limit = limit
        self.where = ""
        self.track_files = track_files
        if track_files:
            self.files = set()
        mon.set_events(self.TOOL, mon.events.LINE)
        try:
            yield self
        finally:
            mon.set_events(self.TOOL, 0)
            self.limit = 1 << 62


STEPS = StepMeter()


class YieldInjector:
    """sys.monitoring LINE callback that yields the GIL (sleep(0)) on a seeded fraction of the lines
    executed inside dpapi_ng - schedule perturbation for the thread workloads (oracle unchanged)."""

    TOOL = 5

    def __init__(self) -> None:
        self.yields = 0
        self.lines = 0
        self._installed = False
        self._rng = None
        self.every = 5

    def install(self) -> None:
        if self._installed:
            return
        mon = sys.monitoring
        mon.use_tool_id(self.TOOL, "vf-yield")
        mon.register_callback(self.TOOL, mon.events.LINE, self._on_line)
        self._installed = True

    def _on_line(self, code, line):
        if not code.co_filename.startswith(DPAPI_ROOT):
            return sys.monitoring.DISABLE
        self.lines += 1
        if self._rng.randrange(self.every) == 0:
            self.yields += 1
            time.sleep(0)

    @contextlib.contextmanager
    def active(self, seed: int, every: int = 5):
        import random

        self.install()
        self._rng = random.Random(seed)
        self.every = every
        self.yields = self.lines = 0
        sys.monitoring.set_events(self.TOOL, sys.monitoring.events.LINE)
        try:
            yield self
        finally:
            sys.monitoring.set_events(self.TOOL, 0)


YIELDS = YieldInjector()


# ---------------------------------------------------------------------------
class KdfMeter:
    """Class-level wrap of cryptography's KBKDFHMAC.derive / ConcatKDFHash.derive: counts (and
    optionally logs) every SP800-108 / SP800-56A invocation; raises KdfBudgetExceeded."""

    def __init__(self) -> None:
        self.n = 0
        self.concat = 0
        self.unmetered_backend_calls = 0
        self.limit = 1 << 62
        self.log: t.Optional[list] = None
        self._installed = False

    def install(self) -> None:
        if self._installed:
            return
        from cryptography.hazmat.primitives.kdf import concatkdf, kbkdf

        meter = self
        orig = kbkdf.KBKDFHMAC.derive

        def derive(self_, key_material):
            meter.n += 1
            if meter.n > meter.limit:
                meter.limit = 1 << 62
                raise KdfBudgetExceeded(f"more than the budgeted KDF invocations")
            out = orig(self_, key_material)
            if meter.log is not None:
                meter.log.append((bytes(key_material), out))
            return out

        kbkdf.KBKDFHMAC.derive = derive
        orig_c = concatkdf.ConcatKDFHash.derive

        def derive_c(self_, key_material):
            meter.concat += 1
            return orig_c(self_, key_material)

        concatkdf.ConcatKDFHash.derive = derive_c

        # second layer: the package's own kdf() helper, in every namespace that imported it.  When it is implemented on
        # something else than KBKDFHMAC (hmac module, another backend) the class-level wrap above sees nothing; the call is
        # then counted (and budgeted, and logged) here so that the termination bound keeps its teeth.
        import dpapi_ng._crypto as _c

        fn = getattr(_c, "kdf", None)
        if callable(fn):

            def kdf(algorithm, secret, *a, **k):
                before = meter.n
                out = fn(algorithm, secret, *a, **k)
                if meter.n == before:
                    meter.n += 1
                    meter.unmetered_backend_calls += 1
                    if meter.log is not None:
                        meter.log.append((bytes(secret), out))
                    if meter.n > meter.limit:
                        meter.limit = 1 << 62
                        raise KdfBudgetExceeded("more than the budgeted KDF invocations")
                return out

            kdf.__wrapped__ = fn
            for name, mod in list(sys.modules.items()):
                if name.startswith("dpapi_ng") and mod is not None:
                    for attr, val in list(vars(mod).items()):
                        if val is fn:
                            setattr(mod, attr, kdf)
        self._installed = True

    @contextlib.contextmanager
    def measure(self, limit: int, log: bool = False):
        self.install()
        self.n = 0
        self.concat = 0
        self.limit = limit
        self.log = [] if log else None
        try:
            yield self
        finally:
            self.limit = 1 << 62


KDFS = KdfMeter()


# ---------------------------------------------------------------------------
# ---------------------------------------------------------------------------
class Entropy:
    """Wraps os.urandom: logs every draw; optionally serves forced values (by size) first."""

    def __init__(self) -> None:
        self.log: t.List[t.Tuple[int, bytes]] = []
        self.forced: t.Dict[int, t.List[bytes]] = {}
        self.draws = 0
        self._installed = False
        self.recording = False

    def install(self) -> None:
        if self._installed:
            return
        ent = self
        orig = os.urandom

        def urandom(n):
            if not ent.recording:
                return orig(n)
            ent.draws += 1
            q = ent.forced.get(n)
            if q:
                v = q.pop(0)
            else:
                v = orig(n)
            ent.log.append((n, v))
            return v

        os.urandom = urandom
        self._installed = True

    @contextlib.contextmanager
    def record(self, forced: t.Optional[t.Dict[int, t.List[bytes]]] = None):
        self.install()
        self.log = []
        self.draws = 0
        self.forced = {k: list(v) for k, v in (forced or {}).items()}
        self.recording = True
        try:
            yield self
        finally:
            self.recording = False
            self.forced = {}


ENTROPY = Entropy()


# ---------------------------------------------------------------------------
_LOOPBACK = __import__("re").compile(r"'127\.\d{1,3}\.\d{1,3}\.\d{1,3}'")


class NetGuard:
    """Audit hook: when armed, any attempt to resolve / connect / send raises NetworkAttempt in
    the calling thread unless the target is allow-listed (loopback ports of the reference DC)."""

    EVENTS = ("socket.connect", "socket.getaddrinfo", "socket.gethostbyname", "socket.sendto", "socket.gethostbyaddr", "socket.sendmsg")

    def __init__(self) -> None:
        self.armed = False
        self.attempts: t.List[str] = []
        self.allow_loopback = False
        self._installed = False
        self.exempt_threads: t.Set[int] = set()  # threads of the reference DC (server side), never the client's
        self.bridge_active = 0  # > 0 while a scripted transport is installed: its loopback bridge is not "the network"
        self.bridge_addr: t.Optional[str] = None  # set by transport.Bridge when its listener exists

    def install(self) -> None:
        if self._installed:
            return
        sys.addaudithook(self._hook)
        self._installed = True

    def _hook(self, event, args):
        if not self.armed or event not in self.EVENTS:
            return
        if self.exempt_threads:
            import threading

            if threading.get_ident() in self.exempt_threads:
                return
        if self.bridge_active and self.bridge_addr and f"'{self.bridge_addr}'" in repr(args):
            return
        if self.allow_loopback:
            s = repr(args)
            if "localhost" in s or _LOOPBACK.search(s):  # the whole 127/8 block is loopback
                return
        self.attempts.append(event)
        raise NetworkAttempt(event)

    @contextlib.contextmanager
    def guard(self, allow_loopback: bool = False):
        self.install()
        prev = (self.armed, self.allow_loopback)
        self.armed = True
        self.allow_loopback = allow_loopback
        try:
            yield self
        finally:
            self.armed, self.allow_loopback = prev


NET = NetGuard()


def exc_site(e: BaseException) -> str:
    """module:function of the innermost dpapi_ng frame of an exception (for mechanism tags)."""
    tb = e.__traceback__
    site = ""
    while tb is not None:
        fn = tb.tb_frame.f_code.co_filename
        if fn.startswith(DPAPI_ROOT):
            site = f"{fn[len(DPAPI_ROOT) + 1:].replace('/', '.').removesuffix('.py')}.{tb.tb_frame.f_code.co_name}"
        tb = tb.tb_next
    return site or "outside-dpapi_ng"
