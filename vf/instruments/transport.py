"""Scripted transports and a scripted security context, attached at library boundaries:

* FakeSocket     - object handed to SyncRpcClient (or returned from a patched socket.create_connection)
* FakeStream     - asyncio.StreamReader fed by the harness + recording writer for AsyncRpcClient
* ScriptedContext- stands in for spnego.client(): transparent seal (XOR keystream) + HMAC over exactly
                   the buffers marked signed; logs every step/wrap/unwrap call with its IOV buffer types
"""
from __future__ import annotations

import asyncio
import collections
import contextlib
import hashlib
import hmac
import typing as t

import spnego
import spnego.exceptions
import spnego.iov
from spnego._context import IOVUnwrapResult, IOVWrapResult


class ReadAfterEOF(BaseException):
    """The client kept reading after EOF (monitor exception)."""


def call_id_of(data: bytes, default: int = 1) -> int:
    """call id of the (last) PDU the client just wrote: a conforming server echoes it in its reply."""
    data = bytes(data)
    off, cid = 0, default
    while off + 16 <= len(data):
        cid = int.from_bytes(data[off + 12 : off + 16], "little")
        fl = int.from_bytes(data[off + 8 : off + 10], "little")
        if fl < 16:
            break
        off += fl
    return cid


class FakeSocket:
    """handler(data_sent) -> list of chunks to deliver (None/[] = nothing); after the scripted
    chunks are exhausted every read returns EOF and is counted."""

    def __init__(self, handler: t.Callable[[bytes], t.Optional[t.Sequence[bytes]]], max_reads_after_eof: int = 50):
        self.handler = handler
        self.sent: t.List[bytes] = []
        self.chunks: t.Deque[bytes] = collections.deque()
        self.reads = 0
        self.reads_after_eof = 0
        self.read_sizes: t.List[int] = []
        self.max_reads_after_eof = max_reads_after_eof
        self.closed = False
        self.timeouts: t.List[t.Any] = []
        self._out = bytearray()
        self.send_calls = 0

    # --- socket API (the client may use any of it) ---
    # What the client writes is handed to the peer when the client starts reading (a request/reply protocol): however
    # many send()/sendall() calls a PDU was written with, the peer sees the same bytes.
    def sendall(self, data, *flags) -> None:
        self._out += bytes(data)
        self.send_calls += 1

    def send(self, data, *flags) -> int:
        self.sendall(data)
        return len(bytes(data))

    def sendmsg(self, buffers, *a) -> int:
        d = b"".join(bytes(b) for b in buffers)
        self.sendall(d)
        return len(d)

    def _flush(self) -> None:
        if self._out:
            data, self._out = bytes(self._out), bytearray()
            self.sent.append(data)
            for c in self.handler(data) or []:
                if c:
                    self.chunks.append(bytes(c))

    def makefile(self, mode="r", buffering=None, **kw):
        import io

        sock = self

        class _Raw(io.RawIOBase):
            def readable(self):
                return "r" in mode

            def writable(self):
                return "w" in mode

            def readinto(self, b):
                return sock.recv_into(b)

            def write(self, b):
                return sock.send(b)

        raw = _Raw()
        if buffering == 0:
            return raw
        if "r" in mode and "w" in mode:
            return io.BufferedRWPair(raw, raw)
        return io.BufferedReader(raw) if "r" in mode else io.BufferedWriter(raw)

    def setsockopt(self, *a) -> None:
        pass

    def gettimeout(self):
        return self.timeouts[-1] if self.timeouts else None

    def setblocking(self, flag) -> None:
        self.timeouts.append(None if flag else 0.0)

    def getpeername(self):
        return ("192.0.2.1", 135)

    def getsockname(self):
        return ("192.0.2.2", 50000)

    def __enter__(self):
        return self

    def __exit__(self, *a) -> None:
        self.close()

    def _next(self, n: int) -> bytes:
        self._flush()
        self.reads += 1
        self.read_sizes.append(n)
        if n == 0:
            return b""
        if not self.chunks:
            self.reads_after_eof += 1
            if self.reads_after_eof > self.max_reads_after_eof:
                raise ReadAfterEOF(f"{self.reads_after_eof} reads after EOF")
            return b""
        c = self.chunks[0]
        out, rest = c[:n], c[n:]
        if rest:
            self.chunks[0] = rest
        else:
            self.chunks.popleft()
        return out

    def recv(self, n: int, *flags) -> bytes:
        return self._next(n)

    def recv_into(self, view, nbytes: int = 0, *flags) -> int:
        n = nbytes or len(view)
        d = self._next(n)
        view[: len(d)] = d
        return len(d)

    def settimeout(self, v) -> None:
        self.timeouts.append(v)

    def shutdown(self, how) -> None:
        self._flush()

    def close(self) -> None:
        self._flush()
        self.closed = True


class FakeWriter:
    def __init__(self, stream: "FakeStream") -> None:
        self.stream = stream
        self.closed = False

    def write(self, data) -> None:
        self.stream._out += bytes(data)

    def writelines(self, lines) -> None:
        for d in lines:
            self.write(d)

    async def drain(self) -> None:
        await asyncio.sleep(0)

    def can_write_eof(self) -> bool:
        return False

    def is_closing(self) -> bool:
        return self.closed

    def close(self) -> None:
        self.stream._flush()
        self.closed = True

    @property
    def transport(self):
        return self

    async def wait_closed(self) -> None:
        return None

    def get_extra_info(self, *a, **k):
        return None


class StallDetectingReader:
    """Proxy for the StreamReader handed to the client: when the client waits for more bytes than
    the peer has sent or will send before the client's next write (nothing pending), the wait can
    never be satisfied - equivalent to the peer closing the connection, so EOF is fed (deterministic;
    no wall clock).  Read calls after EOF are counted."""

    def __init__(self, stream: "FakeStream") -> None:
        self._s = stream
        self._r = stream.reader
        self.reads = 0
        self.reads_after_eof = 0

    def _before(self, need: int) -> None:
        self._s._flush()
        self.reads += 1
        if self._r.at_eof():
            self.reads_after_eof += 1
            if self.reads_after_eof > 50:
                raise ReadAfterEOF(f"{self.reads_after_eof} reads after EOF")
        if len(self._r._buffer) < need and not self._s._pending and not self._s._scheduled and not self._r._eof:
            self._r.feed_eof()

    async def readexactly(self, n):
        self._before(n)
        return await self._r.readexactly(n)

    async def read(self, n=-1):
        self._before(1)
        return await self._r.read(n)

    def at_eof(self):
        return self._r.at_eof()

    def __getattr__(self, name):
        return getattr(self._r, name)


class FakeStream:
    """reader/writer pair.  handler(data) -> chunks; each chunk is fed to the StreamReader in its own
    loop iteration; `eof_after` = True feeds EOF after the last chunk of a reply."""

    def __init__(self, handler, eof_after_each_reply: bool = True) -> None:
        self.loop = asyncio.get_event_loop()
        self._out = bytearray()
        stream = self

        class _Reader(asyncio.StreamReader):
            # what the client wrote reaches the peer when the client blocks on reading (request/reply protocol)
            async def _wait_for_data(self, func_name):
                stream._flush()  # (replies are fed from later loop iterations, never synchronously: waiting is always right)
                await super()._wait_for_data(func_name)

        self.reader = _Reader(limit=2**20)
        self.writer = FakeWriter(self)
        self.handler = handler
        self.sent: t.List[bytes] = []
        self.eof_after_each_reply = eof_after_each_reply
        self._pending: t.Deque[t.Optional[bytes]] = collections.deque()
        self._scheduled = False

    def _flush(self) -> None:
        if self._out:
            data, self._out = bytes(self._out), bytearray()
            self._on_write(data)

    def _on_write(self, data: bytes) -> None:
        self.sent.append(data)
        chunks = [bytes(c) for c in (self.handler(data) or []) if c]
        self._pending.extend(chunks)
        if self.eof_after_each_reply == "always" or (self.eof_after_each_reply and getattr(self.handler, "last", False)):
            self._pending.append(None)
        self._kick()

    def feed_eof_when_idle(self) -> None:
        self._pending.append(None)
        self._kick()

    def _kick(self) -> None:
        if not self._scheduled and self._pending:
            self._scheduled = True
            self.loop.call_soon(self._feed_one)

    def _feed_one(self) -> None:
        self._scheduled = False
        if not self._pending:
            return
        c = self._pending.popleft()
        if c is None:
            self.reader.feed_eof()
            self._pending.clear()
            return
        self.reader.feed_data(c)
        self._kick()


# ---------------------------------------------------------------------------
Sizes = collections.namedtuple("Sizes", "header")
BT = spnego.iov.BufferType


class ScriptedContext:
    """Security context stand-in.

    tokens: the client's output tokens, one per step() call (b"" allowed = empty token).
    complete_after: number of step() calls after which `complete` is True.
    The seal is transparent: body XOR 0x5A-keystream; signature = HMAC-SHA256(key, signed buffers)
    stretched/truncated to `sig_size`.  unwrap verifies and raises BadMICError on mismatch.
    """

    def __init__(self, tokens: t.Sequence[bytes] = (b"TOK1", b"TOK2"), complete_after: t.Optional[int] = None, sig_size: int = 16, key: bytes = b"scripted-session-key") -> None:
        self.tokens = list(tokens)
        self.complete_after = len(self.tokens) if complete_after is None else complete_after
        self.sig_size = sig_size
        self.key = key
        self.steps = 0
        self.log: t.List[tuple] = []
        self.seq_out = 0
        self.seq_in = 0

    # -- pyspnego context API (the part dpapi_ng uses, plus the read-only attributes a client may consult) --
    negotiated_protocol = "ntlm"
    usage = "initiate"
    protocol = "ntlm"
    client_principal = None
    requires_mech_list_mic = False

    @property
    def context_attr(self):
        import spnego

        return spnego.ContextReq.integrity | spnego.ContextReq.confidentiality | spnego.ContextReq.sequence_detect | spnego.ContextReq.replay_detect | spnego.ContextReq.dce_style

    @property
    def context_req(self):
        return self.context_attr

    @property
    def session_key(self) -> bytes:
        return self.key

    @property
    def complete(self) -> bool:
        return self.steps >= self.complete_after

    def step(self, in_token: t.Optional[bytes] = None) -> t.Optional[bytes]:
        self.log.append(("step", None if in_token is None else bytes(in_token), self.complete))
        idx = self.steps
        self.steps += 1
        if idx < len(self.tokens):
            tok = self.tokens[idx]
            return tok if tok else None
        return None

    def query_message_sizes(self):
        self.log.append(("sizes",))
        return Sizes(self.sig_size)

    @staticmethod
    def keystream_xor(data: bytes, seq: int) -> bytes:
        k = (0x5A + seq) & 0xFF
        return bytes(b ^ ((k + i) & 0xFF) for i, b in enumerate(data))

    def mac(self, seq: int, parts: t.Sequence[bytes], size: t.Optional[int] = None) -> bytes:
        size = self.sig_size if size is None else size
        h = hmac.new(self.key, seq.to_bytes(4, "big"), hashlib.sha256)
        for p in parts:
            h.update(len(p).to_bytes(4, "big") + p)
        d = h.digest()
        while len(d) < size:
            d += hashlib.sha256(d).digest()
        return d[:size]

    @staticmethod
    def _norm(iov) -> t.List[t.Tuple[t.Any, t.Optional[bytes]]]:
        out = []
        for b in iov:
            if isinstance(b, tuple):
                out.append((b[0], None if b[1] is None else bytes(b[1])))
            elif isinstance(b, (bytes, bytearray, memoryview)):
                out.append((BT.data, bytes(b)))
            else:
                out.append((b, None))
        return out

    def wrap_iov(self, iov, encrypt: bool = True, qop=None):
        bufs = self._norm(iov)
        self.log.append(("wrap", [(bt, data) for bt, data in bufs], encrypt))
        seq = self.seq_out
        self.seq_out += 1
        signed = [d or b"" for bt, d in bufs if bt in (BT.sign_only, BT.data)]
        res = []
        for bt, d in bufs:
            if bt == BT.data:
                res.append(spnego.iov.IOVResBuffer(bt, self.keystream_xor(d or b"", seq) if encrypt else d))
            elif bt == BT.header:
                res.append(spnego.iov.IOVResBuffer(bt, self.mac(seq, signed)))
            else:
                res.append(spnego.iov.IOVResBuffer(bt, d))
        return IOVWrapResult(tuple(res), encrypt)

    def unwrap_iov(self, iov):
        bufs = self._norm(iov)
        self.log.append(("unwrap", [(bt, data) for bt, data in bufs]))
        seq = self.seq_in
        plain = [(bt, self.keystream_xor(d or b"", seq) if bt == BT.data else d) for bt, d in bufs]
        signed = [d or b"" for bt, d in plain if bt in (BT.sign_only, BT.data)]
        sig = next((d for bt, d in bufs if bt == BT.header), None)
        # (the peer's signature may have another size than ours: it is verified at the size it came with, at least 8 bytes)
        if sig is None or len(sig) < 8 or not hmac.compare_digest(sig, self.mac(seq, signed, len(sig))):
            raise spnego.exceptions.BadMICError(context_msg="scripted context: signature mismatch")
        self.seq_in += 1
        return IOVUnwrapResult(tuple(spnego.iov.IOVResBuffer(bt, d) for bt, d in plain), True, 0)

    # -- server side helpers for the harness (same key, mirrored sequence numbers) --
    def peer(self) -> "ScriptedContext":
        p = ScriptedContext((), 0, self.sig_size, self.key)
        return p

    def step_inputs(self) -> t.List[t.Optional[bytes]]:
        return [e[1] for e in self.log if e[0] == "step"]


@contextlib.contextmanager
def patched_spnego_client(factory: t.Callable[..., ScriptedContext]):
    """Every *initiating* pyspnego context becomes factory(username, password, hostname=, protocol=, ...).  Patched where
    spnego.client() itself looks its worker up (spnego.auth._new_context, resolved at call time), so a client that bound
    `spnego.client` by name at import time is covered too; accepting contexts (the reference DC's) are left alone."""
    import spnego.auth

    orig = spnego.auth._new_context
    calls: t.List[dict] = []

    def _new_context(username, password, hostname, service, channel_bindings, context_req, protocol, options, usage, **kwargs):
        if usage != "initiate":
            return orig(username, password, hostname, service, channel_bindings, context_req, protocol, options, usage, **kwargs)
        k = dict(hostname=hostname, service=service, channel_bindings=channel_bindings, context_req=context_req, protocol=protocol, options=options, **kwargs)
        calls.append({"args": (username, password), "kwargs": k})
        return factory(username, password, **k)

    spnego.auth._new_context = _new_context
    try:
        yield calls
    finally:
        spnego.auth._new_context = orig


class Bridge:
    """Last line of interception.  The harness scripts `socket.create_connection` and `asyncio.open_connection`; a client that
    reaches the network some other way (a socket object it connects itself, functions bound by name at import time,
    `loop.create_connection`, ...) still ends up at the Python-level `socket.socket.connect` / `socket.getaddrinfo`.  While a
    harness is installed those two map every destination to one loopback listener of this process, and the accepted
    connection is pumped to the same scripted peer (`sync_factory(host, port)` -> FakeSocket) the in-memory path would have
    used.  Whatever API the client uses it therefore talks to the same scripted peer; only timing is real."""

    IDLE_SECONDS = 5.0

    def __init__(self) -> None:
        self.installed = False
        self.stack: t.List[tuple] = []  # (sync_factory, log)
        self.tcp_dcs: t.List[t.Any] = []  # reference DCs on real loopback ports (refdc.frontends.TcpDC) currently installed
        self.listener = None
        self.addr: t.Optional[tuple] = None
        self.pending: t.Dict[int, t.Any] = {}
        self.last_host: t.Optional[str] = None
        self.uses = 0
        self.lock = None

    # -- installation (once per process; inert while no harness is installed) --
    def install(self) -> None:
        if self.installed:
            return
        import socket
        import threading

        self.lock = threading.Lock()
        bridge = self
        real_connect = socket.socket.connect  # inherited C implementation
        real_connect_ex = socket.socket.connect_ex
        real_gai, real_ghbn = socket.getaddrinfo, socket.gethostbyname
        self.real_gai = real_gai

        def literal(h) -> bool:
            try:
                socket.inet_pton(socket.AF_INET6 if ":" in h else socket.AF_INET, h)
                return True
            except (OSError, ValueError, TypeError):
                return False

        def loopback(h) -> bool:
            return isinstance(h, str) and (h.startswith("127.") or h == "::1")

        def divert(sock, address):
            """-> rewritten address or None (leave alone)."""
            if not bridge.stack or not isinstance(address, tuple) or len(address) < 2 or sock.type != socket.SOCK_STREAM:
                return None
            host, port = address[0], address[1]
            if isinstance(host, bytes):
                host = host.decode()
            if loopback(host) and host != (bridge.addr or ("", 0))[0]:
                return None  # somebody's own loopback business (reference DC over TCP, asyncio self-pipe, ...)
            if bridge.addr and host == bridge.addr[0]:
                host = bridge.last_host or host  # resolved through our getaddrinfo a moment ago
            factory, log = bridge.stack[-1]
            log.append(("bridged", host, port))
            fake = factory(host, port)  # may raise: same as on the in-memory path
            bridge.uses += 1
            bridge.ensure_listener()
            return fake

        def to_tcp_dc(address):
            """A reference DC listening on real loopback ports is installed: host NAMES given straight to connect() (which the C
            layer would resolve itself) are pointed at it; ports are left alone."""
            if bridge.tcp_dcs and isinstance(address, tuple) and len(address) >= 2:
                host = address[0].decode() if isinstance(address[0], bytes) else address[0]
                if isinstance(host, str) and not literal(host):
                    dc = bridge.tcp_dcs[-1]
                    dc.last_host = host
                    return (dc.addr,) + tuple(address[1:])
            return address

        def connect(self_, address):
            fake = divert(self_, address)
            if fake is None:
                return real_connect(self_, to_tcp_dc(address))
            try:
                self_.bind((bridge.addr[0], 0))
            except OSError:
                pass
            with bridge.lock:
                bridge.pending[self_.getsockname()[1]] = fake
            return real_connect(self_, bridge.addr)

        def connect_ex(self_, address):
            fake = divert(self_, address)
            if fake is None:
                return real_connect_ex(self_, to_tcp_dc(address))
            try:
                self_.bind((bridge.addr[0], 0))
            except OSError:
                pass
            with bridge.lock:
                bridge.pending[self_.getsockname()[1]] = fake
            return real_connect_ex(self_, bridge.addr)

        def gai(host, port, family=0, type=0, proto=0, flags=0):
            h = host.decode() if isinstance(host, (bytes, bytearray)) else host
            if not bridge.stack or h is None or literal(h):
                return real_gai(host, port, family, type, proto, flags)
            bridge.ensure_listener()
            bridge.last_host = h
            if family not in (0, socket.AF_INET):
                raise socket.gaierror(socket.EAI_NONAME, "Name or service not known")
            return [(socket.AF_INET, type or socket.SOCK_STREAM, proto or socket.IPPROTO_TCP, "", (bridge.addr[0], int(port or 0)))]

        def ghbn(host):
            if not bridge.stack or literal(host):
                return real_ghbn(host)
            bridge.ensure_listener()
            bridge.last_host = host
            return bridge.addr[0]

        socket.socket.connect = connect
        socket.socket.connect_ex = connect_ex
        socket.getaddrinfo = gai
        socket.gethostbyname = ghbn
        self.installed = True

    def ensure_listener(self) -> None:
        import os
        import socket
        import threading

        with self.lock:
            if self.listener is not None:
                return
            pid = os.getpid()
            from vf.instruments.monitors import NET

            srv = socket.socket()
            # an address of its own (so that "somebody's own loopback business" on 127.0.0.1 is told apart); plain 127.0.0.1 if
            # the host does not route the rest of 127/8
            for cand in (f"127.{1 + pid % 250}.{(pid // 250) % 250}.251", f"127.{1 + pid % 250}.{(pid // 250) % 250}.252", "127.0.0.1"):
                try:
                    srv.bind((cand, 0))
                    break
                except OSError:
                    continue
            srv.listen(128)
            self.listener = srv
            self.addr = srv.getsockname()
            NET.bridge_addr = self.addr[0]
            threading.Thread(target=self._accept, daemon=True, name="vf-bridge-accept").start()

    def _accept(self) -> None:
        import threading

        while True:
            try:
                c, peer = self.listener.accept()
            except OSError:
                return
            threading.Thread(target=self._pump, args=(c, peer), daemon=True, name="vf-bridge-pump").start()

    def _pump(self, c, peer) -> None:
        import socket
        import threading
        import time

        from vf.instruments.monitors import NET

        me = threading.get_ident()
        NET.exempt_threads.add(me)
        try:
            fake = None
            for _ in range(2000):  # the client registers its local port just before connect() is issued
                with self.lock:
                    fake = self.pending.pop(peer[1], None)
                if fake is not None:
                    break
                time.sleep(0.001)
            if fake is None:
                return
            c.setsockopt(socket.IPPROTO_TCP, socket.TCP_NODELAY, 1)
            c.settimeout(self.IDLE_SECONDS)
            buf = b""
            while True:
                # one PDU at a time, framed by frag_len as a server would
                while len(buf) < 16 or len(buf) < max(16, int.from_bytes(buf[8:10], "little")):
                    try:
                        d = c.recv(65536)
                    except socket.timeout:
                        return  # the client neither writes nor goes away: end the connection (it sees EOF)
                    if not d:
                        if buf:
                            fake.sendall(buf)
                            fake._flush()
                        return
                    buf += d
                n = max(16, int.from_bytes(buf[8:10], "little"))
                pdu, buf = buf[:n], buf[n:]
                fake.sendall(pdu)
                fake._flush()
                sent_any = False
                while fake.chunks:
                    c.sendall(fake.chunks.popleft())
                    sent_any = True
                if not sent_any:
                    # the scripted peer has nothing to say to this PDU (and has recorded it): the in-memory socket reports
                    # EOF at this point.  (After a reply that ends the script the EOF is held back until the client's next
                    # PDU has been handed to the peer, so that what the peer recorded is complete when the client sees it.)
                    try:
                        c.shutdown(socket.SHUT_WR)
                    except OSError:
                        pass
        except Exception:
            pass
        finally:
            NET.exempt_threads.discard(me)
            try:
                fake and fake.close()
            except Exception:
                pass
            try:
                c.close()
            except OSError:
                pass


BRIDGE = Bridge()


@contextlib.contextmanager
def patched_connections(sync_factory=None, async_factory=None):
    """socket.create_connection((host, port), ...) -> sync_factory(host, port) ;
    asyncio.open_connection(host, port=...) -> async_factory(host, port) returning (reader, writer).
    Connections the client opens through any other API are bridged to sync_factory (see Bridge)."""
    import socket

    from vf.instruments.monitors import NET

    real_cc, real_oc = socket.create_connection, asyncio.open_connection
    log: t.List[tuple] = []

    def cc(address, *a, **k):
        log.append(("sync", address[0], address[1]))
        return sync_factory(address[0], address[1])

    async def oc(host=None, port=None, **k):
        log.append(("async", host, port))
        return async_factory(host, port)

    if sync_factory:
        socket.create_connection = cc
        BRIDGE.install()
        BRIDGE.stack.append((sync_factory, log))
        NET.bridge_active += 1
    if async_factory:
        asyncio.open_connection = oc
    try:
        yield log
    finally:
        socket.create_connection, asyncio.open_connection = real_cc, real_oc
        if sync_factory:
            BRIDGE.stack.pop()
            NET.bridge_active -= 1
