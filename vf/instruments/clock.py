"""Scripted wall clock (time.time_ns, time.time, datetime.now/utcnow/today).  Imported - and installed - before the code
under test so that `from datetime import datetime` / `from time import time_ns` inside it bind the scripted objects."""
from __future__ import annotations

import contextlib
import sys
import time
import typing as t


class Clock:
    """Replaces time.time_ns / time.time with a scripted value and counts reads."""

    def __init__(self) -> None:
        self.reads = 0
        self.datetime_reads = 0
        self.sut_reads = 0  # reads whose calling frame is code of the dpapi_ng package (libraries read clocks for their own timeouts)
        self.float_reads = 0  # reads through time.time() (a float cannot represent a 100ns tick of this century exactly)
        self.value_ns: t.Optional[int] = None
        self.step_ns = 0  # a moving clock: every read advances the scripted instant by this much
        self.served: t.List[int] = []  # instants served since the last at_ns() entry (bounded)
        self._orig_ns = time.time_ns
        self._orig = time.time
        self._installed = False

    def install(self) -> None:
        if self._installed:
            return
        clock = self

        def from_sut() -> int:
            f = sys._getframe(1)
            while f is not None and f.f_globals.get("__name__") == __name__:
                f = f.f_back
            return 1 if f is not None and str(f.f_globals.get("__name__", "")).startswith("dpapi_ng") else 0

        self._from_sut = from_sut

        def time_ns():
            if clock.value_ns is None:
                return clock._orig_ns()
            clock.reads += 1
            clock.sut_reads += from_sut()
            return clock._serve()

        def time_():
            if clock.value_ns is None:
                return clock._orig()
            clock.reads += 1
            clock.float_reads += 1
            clock.sut_reads += from_sut()
            return clock._serve() / 1e9

        time.time_ns = time_ns
        time.time = time_
        self._install_datetime()
        self._installed = True

    def _install_datetime(self) -> None:
        """datetime.datetime.now()/utcnow()/today() read the C clock directly: replace the class the `datetime` module
        exports by a transparent subclass (isinstance/issubclass behave like the real class) whose three clock-reading
        constructors serve the scripted instant, truncated to datetime's microsecond resolution (interval boundaries are
        whole microseconds, so truncation never changes the interval)."""
        import datetime as _dt

        clock = self
        real = _dt.datetime
        epoch = real(1970, 1, 1, tzinfo=_dt.timezone.utc)

        class _Meta(type):
            def __instancecheck__(cls, obj):
                return isinstance(obj, real)

            def __subclasscheck__(cls, sub):
                return issubclass(sub, real)

        def scripted_utc():
            clock.reads += 1
            clock.datetime_reads += 1
            clock.sut_reads += clock._from_sut()
            return epoch + _dt.timedelta(microseconds=clock._serve() // 1000)

        class datetime(real, metaclass=_Meta):  # noqa: N801
            @classmethod
            def now(cls, tz=None):
                if clock.value_ns is None:
                    return real.now(tz)
                u = scripted_utc()
                if tz is not None:
                    return u.astimezone(tz)
                try:
                    return u.astimezone().replace(tzinfo=None)
                except (OverflowError, OSError, ValueError):
                    return u.replace(tzinfo=None)

            @classmethod
            def utcnow(cls):
                if clock.value_ns is None:
                    return real.utcnow()
                return scripted_utc().replace(tzinfo=None)

            @classmethod
            def today(cls):
                return cls.now()

        datetime.__name__ = datetime.__qualname__ = "datetime"
        datetime.__module__ = "datetime"
        self.real_datetime = real
        _dt.datetime = datetime

    def _serve(self) -> int:
        v = self.value_ns
        if len(self.served) < 64:
            self.served.append(v)
        if self.step_ns:
            self.value_ns = v + self.step_ns
        return v

    @contextlib.contextmanager
    def at_ns(self, ns: int, step_ns: int = 0):
        self.install()
        prev = (self.value_ns, self.step_ns, self.served)
        self.value_ns, self.step_ns, self.served = ns, step_ns, []
        try:
            yield self
        finally:
            self.value_ns, self.step_ns, self.served = prev


CLOCK = Clock()
CLOCK.install()  # at import (before the code under test is imported: `from datetime import datetime` then binds the scripted class); inert until at_ns()
EPOCH_FILETIME = 116444736000000000


def filetime_to_ns(ft: int, sub_ns: int = 0) -> int:
    """100ns ticks since 1601 -> ns since 1970 (+ sub-tick phase 0..99)."""
    return (ft - EPOCH_FILETIME) * 100 + sub_ns


