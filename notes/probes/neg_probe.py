import os, tempfile, spnego, spnego.iov
d = tempfile.mkdtemp(); cred = os.path.join(d, "ntlm")
open(cred, "w").write("DOM:user:Pass1!\n"); os.environ["NTLM_USER_FILE"] = cred
for proto in ("negotiate", "ntlm"):
    c = spnego.client("DOM\\user", "Pass1!", hostname="dc", service="host", protocol=proto,
                      context_req=spnego.ContextReq.default | spnego.ContextReq.dce_style)
    s = spnego.server(protocol=proto, context_req=spnego.ContextReq.default | spnego.ContextReq.dce_style)
    tok = None; legs = []
    while not c.complete or not s.complete:
        if not c.complete:
            tok = c.step(tok); legs.append(("c", len(tok) if tok else None))
        if tok is None and s.complete: break
        if not s.complete:
            tok = s.step(tok); legs.append(("s", len(tok) if tok else None))
        if tok is None: break
    print(proto, legs, c.complete, s.complete, c.query_message_sizes(), type(c).__name__, c.negotiated_protocol)
    sign = spnego.iov.BufferType.sign_only
    res = c.wrap_iov([(sign, b"H"*24), b"B"*32, (sign, b"T"*8), spnego.iov.BufferType.header], encrypt=True, qop=None)
    out = s.unwrap_iov([(sign, b"H"*24), res.buffers[1].data, (sign, b"T"*8), (spnego.iov.BufferType.header, res.buffers[3].data)])
    print("  ok", out.buffers[1].data == b"B"*32, len(res.buffers[3].data))
try:
    import gssapi; print("gssapi present")
except Exception as e: print("no gssapi:", e)
