import sys, time, uuid
import dpapi_ng
from dpapi_ng import _gkdi as gkdi, _blob as blob, _epm as epm
mon = sys.monitoring
TOOL = 3
class Budget(BaseException): pass
state = {"n":0, "limit":10**9}
ROOT = dpapi_ng.__file__.rsplit("/",1)[0]
def on_line(code, line):
    if not code.co_filename.startswith(ROOT):
        return mon.DISABLE
    state["n"] += 1
    if state["n"] > state["limit"]:
        raise Budget(f"{code.co_filename}:{line}")
mon.use_tool_id(TOOL, "probe")
mon.register_callback(TOOL, mon.events.LINE, on_line)
def run(f, limit):
    state["n"]=0; state["limit"]=limit
    mon.set_events(TOOL, mon.events.LINE)
    t=time.perf_counter()
    try:
        try: r=f(); return ("ok", state["n"], time.perf_counter()-t)
        except Budget as e: return ("BUDGET", str(e), state["n"], time.perf_counter()-t)
        except Exception as e: return (type(e).__name__, state["n"], time.perf_counter()-t)
    finally:
        mon.set_events(TOOL, 0)
        mon.restart_events()
c = dpapi_ng.KeyCache(); rk=uuid.UUID(int=5); c.load_key(b"\x01"*64, rk)
b = dpapi_ng.ncrypt_protect_secret(b"x"*100, "S-1-5-21-1-2-3-4", root_key_identifier=rk, cache=c)
print("unprotect", run(lambda: dpapi_ng.ncrypt_unprotect_secret(b, cache=c), 10**6))
t=time.perf_counter(); 
for _ in range(100): dpapi_ng.ncrypt_unprotect_secret(b, cache=c)
print("unmonitored per call", (time.perf_counter()-t)/100)
evil = b"\x00"*20 + (1).to_bytes(4,"little") + (1<<40).to_bytes(8,"little") + b"\x00"*8 + (1<<40).to_bytes(8,"little") + b"\x00"*4
print("evil epm", run(lambda: epm.EptMapResult.unpack(evil), 50000))
print("again unprotect", run(lambda: dpapi_ng.ncrypt_unprotect_secret(b, cache=c), 10**6))
