import uuid, hmac, hashlib, collections
import spnego, spnego.iov
from spnego._context import IOVWrapResult, IOVUnwrapResult
from unittest import mock
from dpapi_ng import _rpc as rpc
from dpapi_ng._rpc import _client as rc, _auth
from dpapi_ng._gkdi import ISD_KEY
from dpapi_ng import _client as cl

Sizes = collections.namedtuple("Sizes", "header")
class Ctx:
    def __init__(self, legs=2, sig=16):
        self.legs=legs; self.n=0; self.sig=sig; self.log=[]
    @property
    def complete(self): return self.n>=self.legs
    def step(self, in_token=None):
        self.log.append(("step", in_token)); self.n+=1
        return b"TOK%d" % self.n
    def query_message_sizes(self): return Sizes(self.sig)
    def wrap_iov(self, iov, encrypt=True, qop=None):
        self.log.append(("wrap", iov))
        bufs=[]
        for b in iov:
            if isinstance(b, tuple): bufs.append(spnego.iov.IOVResBuffer(b[0], b[1]))
            elif isinstance(b, bytes): bufs.append(spnego.iov.IOVResBuffer(spnego.iov.BufferType.data, bytes(x^0x55 for x in b)))
            else: bufs.append(spnego.iov.IOVResBuffer(b, b"S"*self.sig))
        return IOVWrapResult(tuple(bufs), True)
    def unwrap_iov(self, iov):
        self.log.append(("unwrap", iov))
        bufs=[]
        for b in iov:
            if isinstance(b, tuple): bufs.append(spnego.iov.IOVResBuffer(b[0], b[1]))
            else: bufs.append(spnego.iov.IOVResBuffer(spnego.iov.BufferType.data, bytes(x^0x55 for x in b)))
        return IOVUnwrapResult(tuple(bufs), True, 0)

def pdu(p):
    b=bytearray(p.pack()); b[8:10]=len(b).to_bytes(2,"little"); return bytes(b)
FL = rpc.PacketFlags.PFC_FIRST_FRAG|rpc.PacketFlags.PFC_LAST_FRAG
def ack(cls, ptype, sign, tok):
    st = rpc.SecTrailer(rpc.SecurityProvider.RPC_C_AUTHN_WINNT, rpc.AuthenticationLevel.RPC_C_AUTHN_LEVEL_PKT_PRIVACY, 0, 0, tok) if tok else None
    return pdu(cls(header=rpc.PDUHeader(5,0,ptype, FL|(rpc.PacketFlags.PFC_SUPPORT_HEADER_SIGN if sign else 0), rpc.DataRep(), 0, len(tok) if tok else 0, 1),
        sec_trailer=st, max_xmit_frag=5840, max_recv_frag=5840, assoc_group=1, sec_addr="49668",
        results=[rpc.ContextResult(rpc.ContextResultCode.ACCEPTANCE, 0, rpc.NDR64.uuid, 1), rpc.ContextResult(rpc.ContextResultCode.NEGOTIATE_ACK, 3, uuid.UUID(int=0), 0)]))
class Sock:
    def __init__(self, replies): self.replies=list(replies); self.sent=[]; self.buf=b""
    def sendall(self,d):
        self.sent.append(bytes(d)); self.buf += self.replies.pop(0)
    def recv(self,n):
        o,self.buf=self.buf[:n],self.buf[n:]; return o
    def recv_into(self,v):
        d=self.recv(len(v)); v[:len(d)]=d; return len(d)
ctxs = cl._ISD_KEY_CONTEXTS
for sig in (16, 28):
  for stublen in (0,1,5,16,33):
    for vt in (None, cl._VERIFICATION_TRAILER):
        c = Ctx(legs=2, sig=sig)
        with mock.patch.object(spnego, "client", return_value=c):
            auth = _auth.AuthenticationProvider("u","p","h","ntlm")
        # cleartext reply (auth_len=0) carrying attacker stub
        evil = pdu(rpc.Response(header=rpc.PDUHeader(5,0,rpc.PacketType.RESPONSE, FL, rpc.DataRep(),0,0,1), sec_trailer=None, alloc_hint=8, context_id=0, cancel_count=0, stub_data=b"ATTACKER"))
        s = Sock([ack(rpc.BindAck, rpc.PacketType.BIND_ACK, True, b"SRV1"), ack(rpc.AlterContextResponse, rpc.PacketType.ALTER_CONTEXT_RESP, True, b""), evil])
        client = rc.SyncRpcClient(s, auth)
        client.bind(ctxs)
        stub = bytes(range(stublen))
        try:
            resp = client.request(0, 0, stub, verification_trailer=vt)
            res = ("ACCEPTED CLEARTEXT", resp.stub_data)
        except Exception as e:
            import traceback; res = (type(e).__name__+":"+str(e)[:60], "")
        w = s.sent[-1]
        frag=int.from_bytes(w[8:10],"little"); al=int.from_bytes(w[10:12],"little")
        troff = len(w)-al-8
        wrap = [l for l in c.log if l[0]=="wrap"][-1][1]
        body_plain = wrap[1]
        print(f"sig={sig} stub={stublen} vt={'y' if vt else 'n'} frag_ok={frag==len(w)} auth_len={al} troff-24={(troff-24)} mod16={(troff-24)%16} pad_length={w[troff+2]} body_len={len(body_plain)} types={[t[0].name if isinstance(t,tuple) else (t.name if not isinstance(t,bytes) else 'data') for t in wrap]} hdr_clear={w[:24]==wrap[0][1]} res={res[0]}")
print([ (l[0], l[1]) for l in c.log if l[0]=="step"])
