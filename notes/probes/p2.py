import sys, uuid, time, json, base64, signal, os

import dpapi_ng
from dpapi_ng import _client as client, _gkdi as gkdi, _blob as blob
from unittest import mock

def attempt(name, f, budget=3):
    def h(*a): raise TimeoutError("budget")
    signal.signal(signal.SIGALRM, h); signal.alarm(budget)
    try:
        r = f(); print(f"{name}: OK -> {r!r}"[:400])
    except BaseException as e:
        print(f"{name}: {type(e).__name__}: {e}"[:300])
    finally:
        signal.alarm(0)

rkid = uuid.UUID(int=7)
def mkcache():
    c = dpapi_ng.KeyCache(); c.load_key(b"\x11"*64, rkid); return c
SID="S-1-5-21-1-2-3-1104"
BASE = 360000000000
EPOCH = 116444736000000000
def protect_at(ft, cache=None):
    ns = (ft - EPOCH) * 100
    with mock.patch.object(client.time, "time_ns", return_value=ns):
        b = dpapi_ng.ncrypt_protect_secret(b"hello", SID, root_key_identifier=rkid, cache=cache or mkcache())
    k = blob.DPAPINGBlob.unpack(b).key_identifier
    return b, (k.l0, k.l1, k.l2)
# C09: L0 boundary
bad = 0
for l0 in range(355, 500):
    bnd = l0 * 1024 * BASE
    for off in range(-64, 65):
        ft = bnd + off
        exp = (ft // (1024*BASE), (ft // (32*BASE)) % 32, (ft // BASE) % 32)
        cur = ft
        got = (int(cur / (32*32*BASE)), int((cur % (32*32*BASE)) / (32*BASE)), int((cur % (32*BASE)) / BASE))
        if got != exp:
            bad += 1
            if bad < 4: print("C09 mismatch ft", ft, "off", off, "exp", exp, "got", got)
print("C09 mismatches", bad)
# one through the API
l0 = 361
ft = (l0+1)*1024*BASE - 1
attempt("protect just before L0 boundary", lambda: protect_at(ft)[1])
print("expected", (ft // (1024*BASE), (ft // (32*BASE)) % 32, (ft // BASE) % 32))

# C10: RPC-obtained envelope then root key load -> non-covering
def scenario_c10():
    c = mkcache()
    ft = 361*1024*BASE + 5*32*BASE + 7*BASE + 5
    b1, pos = protect_at(ft, c)
    # now simulate a different cache that got an RPC envelope at an earlier position (3, 2) for same L0
    c2 = dpapi_ng.KeyCache()
    sd = blob.ProtectionDescriptor.parse(SID).get_target_sd()
    full = mkcache()._get_key(sd, rkid, 361, 31, 31)
    algo = gkdi.KDFParameters.unpack(full.kdf_parameters).hash_algorithm
    # envelope as DC would return for position (3,2): l1 key for 2, l2 key for (3,2)
    import dataclasses
    l2k = gkdi.compute_l2_key(algo, 3, 2, full)
    # l1 key for L1=2
    l1k = full.l1_key
    for l1 in range(30, 1, -1):
        l1k = gkdi.kdf(algo, l1k, gkdi.KDS_SERVICE_LABEL, gkdi.compute_kdf_context(rkid, 361, l1, -1), 64)
    env = dataclasses.replace(full, l1=3, l2=2, l1_key=l1k, l2_key=l2k, flags=0)
    c2._store_key(sd, env)
    c2.load_key(b"\x11"*64, rkid)
    return dpapi_ng.ncrypt_unprotect_secret(b1, cache=c2)
attempt("C10 rpc-envelope then root key load, unprotect later pos", scenario_c10, budget=5)

# C05: L1 > 31, L2 > 31, L0 >= 2^31 via blob mutation
c = mkcache()
b, pos = protect_at(361*1024*BASE + 5*32*BASE + 7*BASE + 5, c)
obj = blob.DPAPINGBlob.unpack(b)
import dataclasses
for fld, val in (("l1", 32), ("l2", 32), ("l0", 2**31), ("l1", 2**32-1), ("l0", 2**32-1)):
    k2 = dataclasses.replace(obj.key_identifier, **{fld: val})
    b2 = dataclasses.replace(obj, key_identifier=k2).pack()
    attempt(f"C05 {fld}={val}", lambda: dpapi_ng.ncrypt_unprotect_secret(b2, cache=mkcache()), budget=3)
