import os, uuid, random, math, dataclasses, traceback
from unittest import mock
from cryptography.hazmat.primitives.asymmetric import ec
from dpapi_ng import _gkdi as g
R = random.Random(7)
rk = uuid.UUID(int=9)
RFC = g.FFCDHParameters.unpack(open("/repo/tests/data/ffc_dh_parameters","rb").read())
def small_group(bits):
    # find safe prime p=2q+1 and generator of order q (g=4 works for safe primes)
    import sympy
    raise SystemExit
def is_prime(n):
    if n<2: return False
    for p in (2,3,5,7,11,13,17,19,23,29,31,37):
        if n%p==0: return n==p
    d=n-1;s=0
    while d%2==0: d//=2;s+=1
    for a in (2,3,5,7,11,13,17,19,23,29,31,37):
        x=pow(a,d,n)
        if x in (1,n-1): continue
        for _ in range(s-1):
            x=x*x%n
            if x==n-1: break
        else: return False
    return True
def safe_prime(bits):
    while True:
        q=R.getrandbits(bits-1)|1|(1<<(bits-2))
        if is_prime(q) and is_prime(2*q+1): return 2*q+1
groups=[(RFC.key_length, RFC.field_order, RFC.generator)]
for bits,kl in ((61,8),(61,16),(127,16),(17,3),(250,32)):
    p=safe_prime(bits); groups.append((kl,p,4))
stats={"cases":0,"lead0_shared":0,"lead0_pub":0,"mismatch":0,"errors":0}
for hname in ("SHA1","SHA256","SHA384","SHA512"):
    kdfp=g.KDFParameters(hname).pack(); algo=g.KDFParameters(hname).hash_algorithm
    for (kl,p,gen) in groups:
        for it in range(150 if kl>100 else 600):
            l2=R.randbytes(64); priv_bits=R.choice([256,512,64,130])
            seed_env=g.GroupKeyEnvelope(1,2,361,3,4,rk,"SP800_108_CTR_HMAC",kdfp,"DH",g.FFCDHParameters(kl,p,gen).pack(),priv_bits,kl*8,"d","f",b"",l2)
            priv=g.kdf(algo,l2,g.KDS_SERVICE_LABEL,("DH\0").encode("utf-16-le"),math.ceil(priv_bits/8))
            pub=pow(gen,int.from_bytes(priv,"big"),p)
            pub_env=dataclasses.replace(seed_env,flags=3,l2_key=g.FFCDHKey(kl,p,gen,pub).pack())
            try:
                kek,kid=pub_env.new_kek()
                kek2=seed_env.get_kek(kid)
            except Exception as e:
                stats["errors"]+=1
                if stats["errors"]<4: traceback.print_exc()
                continue
            stats["cases"]+=1
            eph=g.FFCDHKey.unpack(kid.key_info)
            shared=pow(eph.public_key,int.from_bytes(priv,"big"),p)
            if shared < 256**(kl-1): stats["lead0_shared"]+=1
            if eph.public_key < 256**(kl-1): stats["lead0_pub"]+=1
            if kek!=kek2: stats["mismatch"]+=1; print("MISMATCH DH", hname, kl, p)
    for alg,curve,cn,klen in (("ECDH_P256",ec.SECP256R1(),"P256",32),("ECDH_P384",ec.SECP384R1(),"P384",48)):
        for it in range(400):
            l2=R.randbytes(64)
            seed_env=g.GroupKeyEnvelope(1,2,361,3,4,rk,"SP800_108_CTR_HMAC",kdfp,alg,b"",klen*8,klen*8,"d","f",b"",l2)
            priv=g.kdf(algo,l2,g.KDS_SERVICE_LABEL,(alg+"\0").encode("utf-16-le"),klen)
            try:
                pn=ec.derive_private_key(int.from_bytes(priv,"big"),curve).public_key().public_numbers()
                pub_env=dataclasses.replace(seed_env,flags=3,l2_key=g.ECDHKey(cn,klen,pn.x,pn.y).pack())
                kek,kid=pub_env.new_kek(); kek2=seed_env.get_kek(kid)
            except Exception as e:
                stats["errors"]+=1
                if stats["errors"]<4: traceback.print_exc()
                continue
            stats["cases"]+=1
            e=g.ECDHKey.unpack(kid.key_info)
            if e.x < 256**(klen-1) or e.y < 256**(klen-1): stats["lead0_pub"]+=1
            if kek!=kek2: stats["mismatch"]+=1; print("MISMATCH", alg, hname)
print(stats)
