import sys, uuid, traceback
class NetworkAttempt(BaseException): pass
armed = [False]; seen = []
def hook(ev, args):
    if armed[0] and ev in ("socket.connect", "socket.getaddrinfo", "socket.gethostbyname", "socket.sendto", "socket.gethostbyaddr"):
        seen.append((ev, str(args)[:80])); raise NetworkAttempt(ev)
sys.addaudithook(hook)
import dpapi_ng
cache = dpapi_ng.KeyCache(); rk = uuid.UUID(int=1); cache.load_key(b"k"*64, rk)
blob = dpapi_ng.ncrypt_protect_secret(b"x", "S-1-5-18", root_key_identifier=rk, cache=cache)
armed[0] = True
for kw in ({}, {"server": "dc.example.test"}):
    try:
        dpapi_ng.ncrypt_unprotect_secret(blob, cache=dpapi_ng.KeyCache(), **kw); print("returned?!")
    except NetworkAttempt as e: print("NetworkAttempt via", e, seen[-1])
    except BaseException as e: print("other", type(e).__name__, e)
import asyncio
try:
    asyncio.run(dpapi_ng.async_ncrypt_unprotect_secret(blob, cache=dpapi_ng.KeyCache(), server="dc.example.test"))
except NetworkAttempt as e: print("async NetworkAttempt via", e)
except BaseException as e: print("async other", type(e).__name__, e)
try:
    asyncio.run(dpapi_ng.async_ncrypt_unprotect_secret(blob, cache=dpapi_ng.KeyCache()))
except NetworkAttempt as e: print("async(dns) NetworkAttempt via", e)
except BaseException as e: print("async(dns) other", type(e).__name__, e)
