import os, tempfile, spnego, spnego.iov
from spnego._ntlm_raw.crypto import lmowfv1, ntowfv1
d = tempfile.mkdtemp()
cred = os.path.join(d, "ntlm")
user, pw = "user", "Pass1!"
with open(cred, "w") as f:
    f.write(f"DOM:{user}:{pw}\n")
os.environ["NTLM_USER_FILE"] = cred
c = spnego.client(f"DOM\\{user}", pw, hostname="dc", service="host", protocol="ntlm",
                  context_req=spnego.ContextReq.default | spnego.ContextReq.dce_style)
s = spnego.server(protocol="ntlm", context_req=spnego.ContextReq.default | spnego.ContextReq.dce_style)
t1 = c.step()
t2 = s.step(t1)
t3 = c.step(t2)
t4 = s.step(t3)
print("client complete", c.complete, "server complete", s.complete, "t4", t4)
print("sizes", c.query_message_sizes())
for sign in (spnego.iov.BufferType.sign_only, spnego.iov.BufferType.data_readonly):
    hdr, body, tr = b"H"*24, b"B"*32, b"T"*8
    res = c.wrap_iov([(sign, hdr), body, (sign, tr), spnego.iov.BufferType.header], encrypt=True, qop=None)
    enc, sig = res.buffers[1].data, res.buffers[3].data
    print(sign, len(enc), len(sig), enc != body)
    out = s.unwrap_iov([(sign, hdr), enc, (sign, tr), (spnego.iov.BufferType.header, sig)])
    print("server dec ok", out.buffers[1].data == body)
    # server -> client
    res = s.wrap_iov([(sign, hdr), body, (sign, tr), spnego.iov.BufferType.header], encrypt=True, qop=None)
    out = c.unwrap_iov([(sign, hdr), res.buffers[1].data, (sign, tr), (spnego.iov.BufferType.header, res.buffers[3].data)])
    print("client dec ok", out.buffers[1].data == body)
    # tamper header
    res = s.wrap_iov([(sign, hdr), body, (sign, tr), spnego.iov.BufferType.header], encrypt=True, qop=None)
    try:
        out = c.unwrap_iov([(sign, b"X"+hdr[1:]), res.buffers[1].data, (sign, tr), (spnego.iov.BufferType.header, res.buffers[3].data)])
        print("tampered header accepted", sign)
    except Exception as e:
        print("tampered header rejected", type(e).__name__, e)
