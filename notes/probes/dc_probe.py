"""Throw-away feasibility probe (NOT framework code): real dpapi-ng client against a
mini DC over loopback TCP with real NTLM/SPNEGO from pyspnego.  The server side
reuses dpapi_ng's own PDU classes for brevity; the real reference DC will not."""
import asyncio
import os
import socket
import sys
import tempfile
import threading
import time
import traceback
import uuid

import spnego
import spnego.iov

import dpapi_ng
from dpapi_ng import _client as cl
from dpapi_ng import _epm as epm
from dpapi_ng import _gkdi as gkdi
from dpapi_ng import _rpc as rpc
from dpapi_ng._blob import DPAPINGBlob
from dpapi_ng._rpc._pdu import PDU

d = tempfile.mkdtemp()
cred = os.path.join(d, "ntlm")
open(cred, "w").write("DOM:user:Pass1!\n")
os.environ["NTLM_USER_FILE"] = cred

FL = rpc.PacketFlags.PFC_FIRST_FRAG | rpc.PacketFlags.PFC_LAST_FRAG
LOG = []


def fin(p):
    b = bytearray(p.pack())
    b[8:10] = len(b).to_bytes(2, "little")
    return bytes(b)


def recv_pdu(s):
    h = b""
    while len(h) < 16:
        c = s.recv(16 - len(h))
        if not c:
            return None
        h += c
    n = int.from_bytes(h[8:10], "little")
    b = h
    while len(b) < n:
        c = s.recv(n - len(b))
        if not c:
            return None
        b += c
    return b


class DC:
    def __init__(self, root_key, rkid, public_only=False, proto="ntlm", now=(361, 5, 7)):
        self.root_key, self.rkid, self.public_only, self.proto, self.now = root_key, rkid, public_only, proto, now
        self.getkeys = []
        self.epm = socket.socket()
        self.epm.bind(("127.0.0.1", 0))
        self.epm.listen(8)
        self.isd = socket.socket()
        self.isd.bind(("127.0.0.1", 0))
        self.isd.listen(8)
        self.epm_port = self.epm.getsockname()[1]
        self.isd_port = self.isd.getsockname()[1]
        for srv, h in ((self.epm, self.h_epm), (self.isd, self.h_isd)):
            threading.Thread(target=self.accept, args=(srv, h), daemon=True).start()

    def accept(self, srv, h):
        while True:
            c, _ = srv.accept()
            threading.Thread(target=self.guard, args=(h, c), daemon=True).start()

    def guard(self, h, c):
        try:
            h(c)
        except Exception:
            LOG.append(traceback.format_exc())
        finally:
            c.close()

    def ack(self, cls, ptype, req, token, sign=True):
        st = None
        if token:
            st = rpc.SecTrailer(req.sec_trailer.type, req.sec_trailer.level, 0, 0, token)
        results = []
        for c in req.contexts:
            if c.transfer_syntaxes[0] == rpc.NDR64:
                results.append(rpc.ContextResult(rpc.ContextResultCode.ACCEPTANCE, 0, rpc.NDR64.uuid, 1))
            else:
                results.append(rpc.ContextResult(rpc.ContextResultCode.NEGOTIATE_ACK, 3, uuid.UUID(int=0), 0))
        flags = FL | (rpc.PacketFlags.PFC_SUPPORT_HEADER_SIGN if sign else 0)
        return fin(
            cls(
                header=rpc.PDUHeader(5, 0, ptype, flags, rpc.DataRep(), 0, len(token) if token else 0, req.header.call_id),
                sec_trailer=st,
                max_xmit_frag=5840,
                max_recv_frag=5840,
                assoc_group=0x1234,
                sec_addr=str(self.isd_port),
                results=results,
            )
        )

    def h_epm(self, c):
        b = PDU.unpack(recv_pdu(c))
        c.sendall(self.ack(rpc.BindAck, rpc.PacketType.BIND_ACK, b, None, sign=False))
        r = PDU.unpack(recv_pdu(c))
        m = epm.EptMap.unpack(r.stub_data)
        LOG.append(("ept_map", r.opnum, [type(f).__name__ for f in m.tower], m.max_towers))
        res = epm.EptMapResult(None, [epm.build_tcpip_tower(gkdi.ISD_KEY, rpc.NDR, self.isd_port, 0)], 0).pack()
        c.sendall(
            fin(
                rpc.Response(
                    header=rpc.PDUHeader(5, 0, rpc.PacketType.RESPONSE, FL, rpc.DataRep(), 0, 0, r.header.call_id),
                    sec_trailer=None,
                    alloc_hint=len(res),
                    context_id=r.context_id,
                    cancel_count=0,
                    stub_data=res,
                )
            )
        )

    def envelope(self, gk):
        cache = dpapi_ng.KeyCache()
        cache.load_key(self.root_key, self.rkid)
        if gk.l0_key_id == -1:
            l0, l1, l2 = self.now
        else:
            l0, l1, l2 = gk.l0_key_id, gk.l1_key_id, gk.l2_key_id
        full = cache._get_key(gk.target_sd, self.rkid, l0, 31, 31)
        algo = gkdi.KDFParameters.unpack(full.kdf_parameters).hash_algorithm
        l2k = gkdi.compute_l2_key(algo, l1, l2, full)
        l1k = full.l1_key
        want_l1 = l1 if l2 == 31 else l1 - 1
        for k in range(30, want_l1 - 1, -1):
            l1k = gkdi.kdf(algo, l1k, gkdi.KDS_SERVICE_LABEL, gkdi.compute_kdf_context(self.rkid, l0, k, -1), 64)
        import dataclasses

        return dataclasses.replace(
            full, l1=l1, l2=l2, l1_key=l1k if want_l1 >= 0 else b"", l2_key=l2k, domain_name="verif.test", forest_name="verif.test"
        )

    def h_isd(self, c):
        ctx = spnego.server(protocol=self.proto, context_req=spnego.ContextReq.default | spnego.ContextReq.dce_style)
        b = PDU.unpack(recv_pdu(c))
        LOG.append(("bind", b.sec_trailer.type.name, b.sec_trailer.level.name, bool(b.header.packet_flags & 4)))
        tok = ctx.step(b.sec_trailer.auth_value)
        c.sendall(self.ack(rpc.BindAck, rpc.PacketType.BIND_ACK, b, tok))
        while True:
            raw = recv_pdu(c)
            if raw is None:
                return
            ptype = raw[2]
            if ptype == rpc.PacketType.ALTER_CONTEXT:
                a = PDU.unpack(raw)
                tok = ctx.step(a.sec_trailer.auth_value)
                LOG.append(("alter", len(a.sec_trailer.auth_value), None if tok is None else len(tok), ctx.complete))
                c.sendall(self.ack(rpc.AlterContextResponse, rpc.PacketType.ALTER_CONTEXT_RESP, a, tok))
            elif ptype == rpc.PacketType.REQUEST:
                frag = int.from_bytes(raw[8:10], "little")
                al = int.from_bytes(raw[10:12], "little")
                off = frag - al - 8
                S = spnego.iov.BufferType.sign_only
                out = ctx.unwrap_iov([(S, raw[:24]), raw[24:off], (S, raw[off : off + 8]), (spnego.iov.BufferType.header, raw[off + 8 :])])
                body = out.buffers[1].data
                pad = raw[off + 2]
                body = body[: len(body) - pad]
                gk = gkdi.GetKey.unpack(body)
                consumed = len(gk.pack())
                vt_off = consumed + (-consumed % 4)
                vt = rpc.VerificationTrailer.unpack(body[vt_off:])
                self.getkeys.append(gk)
                LOG.append(("getkey", len(gk.target_sd), gk.root_key_id, gk.l0_key_id, gk.l1_key_id, gk.l2_key_id, [type(x).__name__ for x in vt.commands], "sealed" if raw[24:off] != out.buffers[1].data else "CLEAR", raw[off + 1]))
                env = self.envelope(gk).pack()
                L = len(env)
                stub = L.to_bytes(4, "little") + b"\0" * 4 + (0x20000).to_bytes(8, "little") + L.to_bytes(8, "little") + env + b"\0" * (-L % 4) + (0).to_bytes(4, "little")
                rp = -len(stub) % 16
                stub += b"\xbb" * rp
                hdr = rpc.PDUHeader(5, 0, rpc.PacketType.RESPONSE, FL, rpc.DataRep(), 24 + len(stub) + 8 + 16, 16, int.from_bytes(raw[12:16], "little")).pack()
                hdr += len(stub).to_bytes(4, "little") + raw[20:22] + b"\0\0"
                tr = bytes([raw[off], raw[off + 1], rp, 0]) + (0).to_bytes(4, "little")
                w = ctx.wrap_iov([(S, hdr), stub, (S, tr), spnego.iov.BufferType.header], encrypt=True, qop=None)
                c.sendall(hdr + w.buffers[1].data + tr + w.buffers[3].data)


def main():
    rkid = uuid.UUID(int=0xABCDEF)
    root = bytes(range(64))
    dc = DC(root, rkid)
    real_cc = socket.create_connection
    real_oc = asyncio.open_connection

    def cc(addr, *a, **k):
        host, port = addr
        return real_cc(("127.0.0.1", dc.epm_port if port == 135 else port), *a, **k)

    def oc(host=None, port=None, **k):
        return real_oc("127.0.0.1", dc.epm_port if port == 135 else port, **k)

    socket.create_connection = cc
    asyncio.open_connection = oc

    # blob made offline at a fixed position using the same root key
    cache = dpapi_ng.KeyCache()
    cache.load_key(root, rkid)
    blob = dpapi_ng.ncrypt_protect_secret(b"secret-payload", "S-1-5-21-1-2-3-1104", root_key_identifier=rkid, cache=cache)
    kid = DPAPINGBlob.unpack(blob).key_identifier
    print("blob position", kid.l0, kid.l1, kid.l2)

    for proto in ("ntlm", "negotiate"):
        dc.proto = proto
        t = time.perf_counter()
        try:
            out = dpapi_ng.ncrypt_unprotect_secret(blob, server="dc01.verif.test", username="DOM\\user", password="Pass1!", auth_protocol=proto)
            print(proto, "sync unprotect ->", out, f"{(time.perf_counter()-t)*1000:.1f} ms")
        except Exception:
            traceback.print_exc()
        try:
            out = asyncio.run(dpapi_ng.async_ncrypt_unprotect_secret(blob, server="dc01.verif.test", username="DOM\\user", password="Pass1!", auth_protocol=proto))
            print(proto, "async unprotect ->", out)
        except Exception:
            traceback.print_exc()
        try:
            dc.now = (kid.l0, kid.l1, kid.l2)
            b2 = dpapi_ng.ncrypt_protect_secret(b"via-dc", "S-1-5-21-1-2-3-1104", server="dc01.verif.test", username="DOM\\user", password="Pass1!", auth_protocol=proto)
            print(proto, "protect via DC then offline unprotect ->", dpapi_ng.ncrypt_unprotect_secret(b2, cache=cache))
        except Exception:
            traceback.print_exc()
    time.sleep(0.2)
    for l in LOG:
        print(l)


main()
