import json, base64, glob, uuid, random, dataclasses
from dpapi_ng._blob import DPAPINGBlob, KeyIdentifier
from dpapi_ng import _gkdi as g
# C06: decode -> encode of the 16 Windows blobs
for f in sorted(glob.glob("/repo/tests/data/kdf_*.json")):
    d=json.load(open(f)); b=base64.b16decode(d["Data"])
    x=DPAPINGBlob.unpack(b)
    same = x.pack()==b
    same_t = DPAPINGBlob.unpack(x.pack(blob_in_envelope=False)) == x
    if not same or not same_t: print("C06 MISMATCH", f, same, same_t)
print("C06 windows re-encode done")
b=open("/repo/tests/data/dpapi_ng_blob","rb").read(); x=DPAPINGBlob.unpack(b); print("laps blob re-encode same:", x.pack(blob_in_envelope=False)==b, x.pack()==b, len(b))
# C11 random roundtrips
R=random.Random(1)
def rs(n): return "".join(R.choice(["a","é","中","\U0001F600","Z","0"]) for _ in range(n))
bad=0
for i in range(3000):
    env = g.GroupKeyEnvelope(version=R.choice([0,1,2**32-1]), flags=R.choice([0,1,2,3,2**32-1]), l0=R.choice([0,361,2**31-1,2**32-1]), l1=R.randrange(32), l2=R.randrange(32),
        root_key_identifier=uuid.UUID(int=R.getrandbits(128)), kdf_algorithm=rs(R.randrange(0,20)), kdf_parameters=R.randbytes(R.randrange(0,40)),
        secret_algorithm=rs(R.randrange(0,9)), secret_parameters=R.randbytes(R.randrange(0,33)), private_key_length=R.getrandbits(32), public_key_length=R.getrandbits(32),
        domain_name=rs(R.randrange(0,12)), forest_name=rs(R.randrange(0,12)), l1_key=R.randbytes(R.choice([0,1,63,64])), l2_key=R.randbytes(R.choice([0,1,64,65,300])))
    if g.GroupKeyEnvelope.unpack(env.pack()) != env: bad+=1; print("GKE mismatch", env); break
    kid = KeyIdentifier(version=1, flags=R.getrandbits(32), l0=R.getrandbits(32), l1=R.getrandbits(32), l2=R.getrandbits(32), root_key_identifier=uuid.UUID(int=R.getrandbits(128)), key_info=R.randbytes(R.randrange(0,100)), domain_name=rs(R.randrange(0,9)), forest_name=rs(R.randrange(0,9)))
    if KeyIdentifier.unpack(kid.pack()) != kid: bad+=1; print("KID mismatch", kid); break
    gk = g.GetKey(R.randbytes(R.randrange(0,70)), R.choice([None, uuid.UUID(int=0), uuid.UUID(int=R.getrandbits(128))]), R.choice([-1,0,361,2**31-1]), R.choice([-1,0,31]), R.choice([-1,0,31]))
    u = g.GetKey.unpack(gk.pack())
    if u != gk: bad+=1; print("GetKey mismatch", gk, u); break
    kl = R.randrange(1,40)
    ff = g.FFCDHKey(kl, R.getrandbits(8*kl), R.getrandbits(8*R.randrange(0,kl+1)), R.getrandbits(8*R.randrange(0,kl+1)))
    if g.FFCDHKey.unpack(ff.pack()) != ff: bad+=1; print("FFCDHKey mismatch", ff); break
    fp = g.FFCDHParameters(kl, R.getrandbits(8*kl), R.getrandbits(8*R.randrange(0,kl+1)))
    if g.FFCDHParameters.unpack(fp.pack()) != fp: bad+=1; print("FFCDHParameters mismatch", fp); break
    ek = g.ECDHKey(R.choice(["P256","P384","P521"]), kl, R.getrandbits(8*R.randrange(0,kl+1)), R.getrandbits(8*R.randrange(0,kl+1)))
    if g.ECDHKey.unpack(ek.pack()) != ek: bad+=1; print("ECDHKey mismatch", ek); break
    kp = g.KDFParameters(rs(R.randrange(0,10)))
    if g.KDFParameters.unpack(kp.pack()) != kp: bad+=1; print("KDFParameters mismatch", kp); break
print("C11 roundtrip mismatches", bad)
# GetKey.unpack_response for envelope lengths mod 8
for n in range(0, 17):
    env = g.GroupKeyEnvelope(1,2,361,3,4,uuid.UUID(int=9),"SP800_108_CTR_HMAC",b"p"*30,"DH",b"",512,2048,"d"*n,"f",b"1"*64,b"2"*64)
    e = env.pack(); L=len(e)
    stub = L.to_bytes(4,"little") + b"\0"*4 + (0x20000).to_bytes(8,"little") + L.to_bytes(8,"little") + e + b"\0"*(-L%4) + (0).to_bytes(4,"little")
    try:
        ok = g.GetKey.unpack_response(stub)==env
    except Exception as ex: ok = repr(ex)
    if ok is not True: print("unpack_response n", n, "L%8", L%8, ok)
print("C11 response done")
