import socket, threading, time, signal, uuid
from dpapi_ng import _rpc as rpc
from dpapi_ng._rpc import _client as rc
from dpapi_ng._epm import EPM

def attempt(name, f, budget=3):
    def h(*a): raise TimeoutError("budget")
    signal.signal(signal.SIGALRM, h); signal.alarm(budget)
    try:
        r = f(); print(f"{name}: OK -> {r!r}"[:300])
    except BaseException as e:
        print(f"{name}: {type(e).__name__}: {e}"[:300])
    finally:
        signal.alarm(0)

ack = rpc.BindAck(
    header=rpc.PDUHeader(5,0,rpc.PacketType.BIND_ACK, rpc.PacketFlags.PFC_FIRST_FRAG|rpc.PacketFlags.PFC_LAST_FRAG, rpc.DataRep(), 0, 0, 1),
    sec_trailer=None, max_xmit_frag=5840, max_recv_frag=5840, assoc_group=1, sec_addr="135",
    results=[rpc.ContextResult(rpc.ContextResultCode.ACCEPTANCE, 0, rpc.NDR64.uuid, 1)])
b = bytearray(ack.pack()); b[8:10] = len(b).to_bytes(2,"little"); b = bytes(b)
ctxs = [rpc.ContextElement(0, EPM, [rpc.NDR64])]

class FakeSock:
    def __init__(self, chunks): self.chunks = list(chunks); self.reads_after_eof = 0
    def sendall(self, d): pass
    def _next(self, n):
        if not self.chunks:
            self.reads_after_eof += 1
            if self.reads_after_eof > 1000: raise TimeoutError("spin: >1000 reads after EOF")
            return b""
        c = self.chunks[0]
        out, rest = c[:n], c[n:]
        if rest: self.chunks[0] = rest
        else: self.chunks.pop(0)
        return out
    def recv(self, n): return self._next(n)
    def recv_into(self, view):
        d = self._next(len(view)); view[:len(d)] = d; return len(d)
    def shutdown(self, *a): pass
    def close(self): pass

attempt("whole", lambda: type(rc.SyncRpcClient(FakeSock([b])).bind(ctxs)).__name__)
attempt("split header at 7", lambda: type(rc.SyncRpcClient(FakeSock([b[:7], b[7:]])).bind(ctxs)).__name__)
attempt("split body at 30", lambda: type(rc.SyncRpcClient(FakeSock([b[:30], b[30:]])).bind(ctxs)).__name__)
attempt("EOF at 30", lambda: type(rc.SyncRpcClient(FakeSock([b[:30]])).bind(ctxs)).__name__)
attempt("EOF at 0", lambda: type(rc.SyncRpcClient(FakeSock([])).bind(ctxs)).__name__)
