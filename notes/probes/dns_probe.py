import dns.resolver, dns.message, dns.name, dns.rdatatype, dns.rdataclass, dns.rrset, dns.asyncresolver, inspect
q = dns.name.from_text("_ldap._tcp.dc._msdcs.example.test.")
msg = dns.message.make_response(dns.message.make_query(q, "SRV"))
rr = dns.rrset.from_text(q, 300, "IN", "SRV", "0 100 389 dc01.example.test.", "0 200 389 dc02.example.test.", "5 900 389 dc03.example.test.")
msg.answer.append(rr)
ans = dns.resolver.Answer(q, dns.rdatatype.SRV, dns.rdataclass.IN, msg)
print([ (str(a.target), a.port, a.weight, a.priority) for a in ans])
print(inspect.signature(dns.resolver.resolve)); print(inspect.signature(dns.asyncresolver.resolve))
print(inspect.getsource(dns.resolver.resolve)[-400:])
from dpapi_ng import _dns
import unittest.mock as m
with m.patch.object(dns.resolver, "resolve", side_effect=lambda *a, **k: (print("called", a, k), ans)[1]):
    print(_dns.lookup_dc("example.test"))
