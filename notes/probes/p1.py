import sys, traceback, uuid, time, json, base64, signal
from dpapi_ng import _asn1 as asn1, _security_descriptor as sd, _epm as epm, _client as client, _gkdi as gkdi, _blob as blob
import dpapi_ng
from dpapi_ng._rpc import _verification as vt

def attempt(name, f, budget=3):
    def h(*a): raise TimeoutError("budget")
    signal.signal(signal.SIGALRM, h); signal.alarm(budget)
    try:
        r = f(); print(f"{name}: OK -> {r!r}"[:300])
    except BaseException as e:
        print(f"{name}: {type(e).__name__}: {e}"[:300])
    finally:
        signal.alarm(0)

# ASN.1
for v in (-65536, -16777216, -8388608, -256, -32768, -65537, -1<<24, -(1<<32)):
    enc = asn1._pack_asn1_integer(v)
    ref = v.to_bytes((v.bit_length()+8)//8 if v>=0 else ((~v).bit_length()+8)//8, "big", signed=True)
    attempt(f"int {v} enc={enc.hex()} refcontent={ref.hex()}", lambda: asn1._read_asn1_integer(enc))
attempt("empty INTEGER", lambda: asn1._read_asn1_integer(b"\x02\x00"))
attempt("empty OID", lambda: asn1._read_asn1_object_identifier(b"\x06\x00"))
attempt("OID 2.999.3 read", lambda: asn1._read_asn1_object_identifier(b"\x06\x03\x88\x37\x03"))
attempt("OID 2.999.3 write", lambda: asn1._pack_asn1_object_identifier("2.999.3"))
attempt("OID 2.40 write", lambda: asn1._pack_asn1_object_identifier("2.40"))
attempt("OID 1 write", lambda: asn1._pack_asn1_object_identifier("1"))
attempt("tag 0 high form", lambda: asn1._pack_asn1(asn1.TagClass.CONTEXT_SPECIFIC, False, 31, b"x").hex())
attempt("tag 128", lambda: asn1._pack_asn1(asn1.TagClass.CONTEXT_SPECIFIC, False, 128, b"x").hex())
# SID
for s in ("S-1-5-18\n", "S-1-5-4294967296", "S-1-281474976710656-1", "S-1-18446744073709551616-1", "S-1-5-١٢", "S-1-5-18 ", "S-1-5-+18", "S-1-05-18", "S-1-5-1-2-3-4-5-6-7-8-9-10-11-12-13-14-15"):
    attempt(f"sid {s!r}", lambda: sd.sid_to_bytes(s).hex())
# EPM
for n in range(8):
    towers = [[epm.Floor(epm.FloorProtocol(0x7f), b"", b"x"*n), epm.TCPFloor(1)], [epm.TCPFloor(2), epm.IPFloor(3)]]
    r = epm.EptMapResult(None, towers, 0)
    p = r.pack()
    def f():
        u = epm.EptMapResult.unpack(p)
        return (u.pack() == p, [[type(f).__name__ for f in t] for t in u.towers])
    attempt(f"eptmapresult n={n}", f)
evil = b"\x00"*20 + (1).to_bytes(4,"little") + (1<<40).to_bytes(8,"little") + b"\x00"*8 + (1<<40).to_bytes(8,"little") + b"\x00"*4
attempt("eptmap 2^40 towers", lambda: epm.EptMapResult.unpack(evil), budget=3)
attempt("VT no end", lambda: vt.VerificationTrailer.unpack(b"\x8A\xE3\x13\x71\x02\xF4\x36\x71" + b"\x01\x00\x04\x00\x01\x00\x00\x00"), budget=3)
