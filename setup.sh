#!/bin/bash
# Offline setup: put icontract/deal beside the repository's own interpreter (no network, no index).
set -e
HERE="$(cd "$(dirname "${BASH_SOURCE[0]}")" && pwd)"
cd "$HERE"
mkdir -p .deps .cache evidence replays
if [ ! -d .deps/icontract ]; then
    PIP_NO_INDEX=1 /venv/bin/pip install --quiet --no-index --find-links /opt/veriftools/wheels --target .deps icontract deal 2>&1 | tail -2 || echo "WARN: icontract/deal not installed (aux contracts disabled)"
fi
/venv/bin/python -c "import dpapi_ng, spnego, dns, cryptography; print('setup ok', dpapi_ng.__file__)"
