#!/usr/bin/env python3
"""Regenerates MANIFEST.json from the table below (claimed checks = modules present in vf/props)."""
import json
import os

HERE = os.path.dirname(os.path.dirname(os.path.abspath(__file__)))
BASELINE_OFF = "cd /repo && /venv/bin/python -m pytest -ra -q -p no:cacheprovider --timeout=900 --continue-on-collection-errors"

CHECKS = {
    "C01": ("exploration", "4.C01", "round-trip oracle + independent reference decryptor over seeded protect/unprotect executions (clock, entropy and network monitors attached)",
            "Every protect->unprotect pair over the configuration x plaintext x SID x clock x layout x API grid is executed on the real code; each emitted blob is also decrypted by an independent implementation from the root key alone. Exploration: held on the executions run, not a proof.",
            "Trusted: hashlib/hmac, OpenSSL AES via cryptography's low-level API, the 16 Windows vectors that calibrate the reference decryptor, pyspnego NTLM for the DC-backed members."),
    "C02": ("exploration", "4.C02", "exhaustive lattice enumeration of (envelope position, requested position) with a KDF-invocation meter and an independent MS-GKDI chain as oracle",
            "All 32^4 (envelope position, requested position) pairs x envelope shapes are executed through get_kek/compute_l2_key and compared with an independent chain; non-covering pairs must raise within a KDF budget. Exhaustive over the lattice for the root keys/SDs/L0s sampled.",
            "Trusted: ref.crypto chain (calibrated: decrypts 16 Windows blobs), the covering predicate as stated in the property."),
    "C03": ("exploration", "4.C03", "entropy-steered executions of new_kek/get_kek compared with an independent SP800-108 / DH / ECDH / SP800-56A implementation",
            "new_kek and get_kek are run on the real code with forced ephemeral keys/nonces (including leading-zero corner cases found by search) and both results are compared with an independent implementation using Python integers and a pure-Python curve.",
            "Trusted: hashlib/hmac, Python big integers, the pure-Python P-256/P-384 arithmetic (calibrated on nG=inf, 2G, and 8 Windows ECDH blobs)."),
    "C04": ("fault_enumeration", "4.C04", "exhaustive single-bit-flip / truncation / deletion enumeration of valid blobs with an outcome-class monitor",
            "Every single-bit flip, truncation and byte deletion of base blobs (plus structure-aware and random multi-site mutations) is decrypted by the real code under a network guard; any returned bytes different from the original plaintext is a violation.",
            "Trusted: the network guard (audit hook) classifies DC contact attempts; AES-GCM/AES-KW from OpenSSL are not re-verified."),
    "C05": ("fault_enumeration", "4.C05", "interpreter step meter (sys.monitoring) + KDF meter + exception-type monitor over enumerated and structure-aware hostile inputs",
            "Hostile inputs (all truncations and bit flips of valid blobs, DER structure mutations, key-identifier boundary values, random bytes) are fed to unprotect / DPAPINGBlob.unpack while line events inside dpapi_ng and KDF invocations are counted; escaping exception types and budget overruns are violations.",
            "Budgets are linear bounds with >=10x slack over calibrated valid-call cost; allowed error types are those named in the property."),
    "C06": ("exploration", "4.C06", "strict independent DER parser + Windows-calibrated CMS template comparison on emitted blobs; encode/decode inverse checks",
            "Every blob emitted by protect and by DPAPINGBlob.pack over generated blob values is parsed by a strict DER parser and compared with the template extracted from real NCryptProtectSecret output; pack(unpack(b)) and unpack(pack(x)) are checked.",
            "Trusted: ref.der / ref.cms (calibrated: 16 Windows blobs parse strictly and rebuild byte-identically)."),
    "C07": ("exploration", "4.C07", "differential monitor: public ASN1Writer/ASN1Reader vs independent strict DER codec, exhaustive over all integers of <=3 content octets",
            "Every integer with up to 2 (quick) / 3 (thorough) content octets is encoded and decoded through the real writer/reader and compared with an independent X.690 codec; OIDs, strings, tags, lengths, nested trees and concatenations are generated; leftover bytes are inspected after each read.",
            "Trusted: ref.der (calibrated on X.690 examples). Universal tags restricted to defined numbers."),
    "C08": ("exploration", "4.C08", "independent MS-DTYP builder/strict parser as oracle over generated SIDs and near-miss strings, with an injectivity monitor",
            "get_target_sd bytes for generated SIDs are compared with an independent builder and decoded by a strict self-relative SD parser; near-miss strings must raise ValueError; distinct SIDs must give distinct bytes (digest map).",
            "Trusted: ref.sd (calibrated on the real security descriptor in the Windows seed-key vector)."),
    "C09": ("exploration", "4.C09", "scripted clock (time.time_ns replaced) with dense boundary enumeration; key identifier read back with an independent parser",
            "protect is executed under a controlled clock at every offset within +-64 ticks of many L0/L1/L2 boundaries and at random instants; the key identifier is extracted with the independent CMS/GKDI parser and compared with exact integer arithmetic.",
            "Assumes the library reads the clock through time.time_ns/time.time (read counter must be > 0, else inconclusive)."),
    "C10": ("exploration", "4.C10", "history checking against an executable sequential cache model; GetKey counter at a scripted DC; forced completion orders for concurrent async calls",
            "Bounded-depth operation histories (root-key loads, unprotect at several positions, protect) sharing one KeyCache are executed against a scripted DC; results are compared with a fresh-cache model and the number of GetKey calls with the coverage model; concurrent async calls are released in every completion order.",
            "Trusted: scripted DC built on the reference chain; security context replaced by a transparent scripted one for the high-volume histories."),
    "C11": ("exploration", "4.C11", "differential monitor against an independent MS-GKDI/NDR64 encoder over generated field values",
            "pack() output of every MS-GKDI structure and of GetKey is compared with an independent encoder; unpack(pack(x)) == x; reference-encoded replies of every length residue are decoded.",
            "Trusted: ref.gkdi (calibrated on the Windows-captured structures and GetKey bytes)."),
    "C12": ("exploration", "4.C12", "round-trip + independent encoder comparison for PDUs/EPM messages, and a step meter on decoders fed hostile bytes",
            "Generated well-formed PDUs, trailers, commands, floors and ept_map messages are packed, compared with an independent encoder, unpacked and re-packed; decoders are run on hostile byte strings under a line-event budget linear in the input length.",
            "Trusted: ref.rpc / ref.epm (calibrated on captured PDUs)."),
    "C13": ("exploration", "4.C13", "wire monitor: independent receiver decodes requests written to a fake transport; scripted security context logs the IOV buffers",
            "request() is driven for every stub length 0..320 x verification trailer x signature size x header signing x sync/async on a fake transport; the wire bytes and the buffers handed to the security context are checked against the framing rules; reply path checked for every pad length.",
            "Trusted: ScriptedContext stands in for the GSS mechanism (transparent XOR seal + HMAC); real NTLM is used for a subset."),
    "C14": ("fault_enumeration", "4.C14", "exhaustive 1-3 chunk partition and EOF-point enumeration on a scripted transport with a read-after-EOF counter",
            "Replies are delivered to the sync and async clients in every 1-, 2- and 3-chunk partition (exhaustive for small replies) and with EOF after every prefix; decoded PDUs must equal the one-piece decode and EOF must raise within 2 further reads.",
            "Scripted transport stands in for TCP; async chunks are fed with a loop iteration between each."),
    "C15": ("fault_enumeration", "4.C15", "script enumeration (provider x server) to bounded depth, transcript compared with a reference client state machine",
            "All provider/server scripts to the depth bound are executed through bind()+request() on a scripted transport; tokens sent, tokens fed to step(), header-sign decisions, contexts used and error surfacing are compared with a reference state machine.",
            "Scripted provider stands in for GSS; real NTLM/SPNEGO handshakes are the realistic members."),
    "C16": ("fault_enumeration", "4.C16", "reply tampering enumeration (strip trailer, every single-bit flip, length rewrites, replay) against real NTLM session keys",
            "Authentic sealed replies produced with a real pyspnego NTLM acceptor are tampered in every enumerated way and delivered to the client; any returned stub other than the sealed plaintext is a violation.",
            "Trusted: pyspnego NTLM as the genuine security context."),
    "C17": ("exploration", "4.C17", "reference MS-GKDI DC on loopback TCP with real NTLM/SPNEGO; decoded transcript monitor; sync-vs-async transcript comparison",
            "The public API is run against a reference DC; every GetKey is decoded at the DC and compared with what the blob names; results are decrypted independently; sync and async transcripts are compared after normalisation.",
            "Trusted: reference DC (calibrated by serving the 16 Windows blobs), pyspnego."),
    "C18": ("exploration", "4.C18", "independent ept_map encoder as oracle for the chosen port; step and allocation meters for hostile replies",
            "Reference-encoded ept_map replies over tower lists/lengths/floor kinds are fed through the public API path and EptMapResult.unpack; the port used must be the first TCP floor's; hostile replies must finish within a linear step/memory budget.",
            "Trusted: ref.epm (calibrated on the captured 3-tower reply)."),
    "C19": ("exploration", "4.C19", "uniqueness monitor over histories of protect calls; CEK recovered independently by unwrapping with the reference KEK; frozen clock",
            "Histories of protect calls (identical arguments, frozen clock, threads, forks) are executed; GCM nonce, key-identifier randomness and the CEK (recovered with the reference implementation) are inserted into sets; any collision is a violation.",
            "Collision probability of honest randomness over the run is < 1e-18."),
    "C20": ("exploration", "4.C20", "exhaustive small-domain enumeration of SRV answer sets with a scripted resolver; direct min/max oracle",
            "Every ordered answer set of 1..5 records over priority,weight in {0,1,2} is served by a scripted resolver to lookup_dc and async_lookup_dc; query name/type and the chosen record are checked.",
            "dns.resolver.resolve / dns.asyncresolver.resolve are the interception points."),
}

NOT_APPLICABLE = {}


def main():
    checks = []
    for pid in sorted(CHECKS):
        if not os.path.exists(os.path.join(HERE, "vf", "props", pid.lower() + ".py")):
            NOT_APPLICABLE[pid] = "check not built yet in this round (machinery under construction; see DESIGN.md section 4)"
            continue
        cat, ref, tech, text, note = CHECKS[pid]
        checks.append(
            {
                "property_id": pid,
                "quick_cmd": f"./check {pid} --tier quick",
                "thorough_cmd": f"./check {pid} --tier thorough",
                "evidence_file": f"evidence/{pid}.json",
                "replay_cmd_template": f"./check {pid} --replay {{path}}",
                "engine": "vf",
                "level_claimed": {"category": cat, "text": text, "design_ref": ref},
                "level_note": note,
                "technique": tech,
            }
        )
    manifest = {
        "version": 1,
        "setup_cmd": "./setup.sh",
        "hooks": {
            "guard": "DPAPI_NG_VERIF",
            "enable": "no source hooks: all observations are made at library/OS boundaries from the harness (see DESIGN.md section 1); the guard name is reserved",
            "baseline_off_cmd": BASELINE_OFF,
            "source_commits": [],
            "add_only": True,
        },
        "engines": [
            {
                "name": "vf",
                "path": "vf/",
                "serves_properties": [c["property_id"] for c in checks],
                "kind_free_text": "runtime monitoring: sharded seeded workloads on the real code with monitors (sys.monitoring step meter, KDF meter, scripted clock/entropy/DNS/transport/security context, audit-hook network guard) and independent reference oracles",
            }
        ],
        "checks": checks,
        "notes": "Verdicts are three-valued: exit 0 held, exit 1 VIOLATION, exit 2 INCONCLUSIVE (monitor not reached / oracle miscalibrated / watchdog). KNOWN_FINDINGS.txt lists repaired defects (fixed:) and any open finding. Every check also runs one shard of each kind under python -O. Self-validation (not part of the checks): selftest/mutants.py (107 deliberate mutants; benign = property-preserving variants that must stay silent), selftest/seeded.py verify (180 independently written breaking changes in seeded/), selftest/seeded.py verify-benign (70 independently written property-preserving changes in seeded-benign/); DESIGN.md section 9 reports the results.",
        "not_applicable": [{"property_id": k, "reason": v} for k, v in sorted(NOT_APPLICABLE.items())],
    }
    with open(os.path.join(HERE, "MANIFEST.json"), "w") as f:
        json.dump(manifest, f, indent=1)
    print(f"MANIFEST.json: {len(checks)} checks, {len(NOT_APPLICABLE)} not yet claimed")


if __name__ == "__main__":
    main()
