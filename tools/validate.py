#!/usr/bin/env python3
"""python3-vt tools/validate.py : validate MANIFEST.json and evidence/*.json against the schemas."""
import glob, json, sys
import jsonschema
ok = True
ms = json.load(open("/root/.vp/MANIFEST.schema.json")); es = json.load(open("/root/.vp/EVIDENCE.schema.json"))
try:
    jsonschema.validate(json.load(open("MANIFEST.json")), ms); print("MANIFEST ok")
except Exception as e:
    ok = False; print("MANIFEST INVALID", str(e)[:500])
for f in sorted(glob.glob("evidence/*.json")):
    try:
        jsonschema.validate(json.load(open(f)), es); print(f, "ok")
    except Exception as e:
        ok = False; print(f, "INVALID", str(e)[:500])
sys.exit(0 if ok else 1)
