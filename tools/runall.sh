#!/bin/bash
# tools/runall.sh [quick|thorough] [props...]  - run checks in /verif against /repo, print a summary line per property
cd "$(dirname "$0")/.."
TIER="${1:-quick}"; shift
PROPS="${*:-C01 C02 C03 C04 C05 C06 C07 C08 C09 C10 C11 C12 C13 C14 C15 C16 C17 C18 C19 C20}"
rc=0
for c in $PROPS; do
  s=$(date +%s)
  out=$(./check $c --tier $TIER 2>&1); e=$?
  echo "$c exit=$e $(( $(date +%s)-s ))s $(echo "$out" | grep -E '^\[C' | head -1)"
  if [ $e -ne 0 ]; then rc=1; echo "$out" | grep -E 'VIOLATION|INCONCLUSIVE|violation mech' | head -5; fi
done
exit $rc
