"""Property-PRESERVING edits (the converse of mutant_defs): alternative implementations a maintainer might
write under which every property still holds.  The checks must stay silent on them (exit 0): this is the
self-validation of "never raise an alarm on code where the property holds".  Each entry is
(id, [properties to run], [(file, old, new), ...], note)."""


def register(benign):
    benign("BN-epm-context-id", ["C17", "C10", "C16"], [
        ("_client.py", "_EPM_CONTEXTS = [\n    ContextElement(\n        context_id=0,", "_EPM_CONTEXTS = [\n    ContextElement(\n        context_id=3,"),
        ("_client.py", "resp = rpc.request(0, ept_map.opnum, ept_map.pack())", "resp = rpc.request(context_id, ept_map.opnum, ept_map.pack())"),
    ], "the EPM presentation context is numbered 3 instead of 0")
    benign("BN-isd-context-ids", ["C17", "C10", "C16", "C13", "C15"], [
        ("_client.py", "        context_id=0,\n        abstract_syntax=ISD_KEY,", "        context_id=5,\n        abstract_syntax=ISD_KEY,"),
        ("_client.py", "        context_id=1,\n        abstract_syntax=ISD_KEY,", "        context_id=6,\n        abstract_syntax=ISD_KEY,"),
    ], "the ISD_KEY presentation contexts are numbered 5/6 instead of 0/1")
    benign("BN-map-tower-port0", ["C17", "C18", "C12"], [
        ("_client.py", "        port=135,\n        addr=0,", "        port=0,\n        addr=0,"),
    ], "the ept_map query tower carries port 0 (a placeholder either way)")
    benign("BN-call-id", ["C17", "C13", "C14", "C15", "C16"], [
        ("_rpc/_client.py", "                PacketType.BIND,\n                auth_len,\n                1,", "                PacketType.BIND,\n                auth_len,\n                7,"),
        ("_rpc/_client.py", "                len(sec_trailer.auth_value),\n                1,", "                len(sec_trailer.auth_value),\n                7,"),
        ("_rpc/_client.py", "                    PacketType.REQUEST,\n                    auth_len,\n                    1,", "                    PacketType.REQUEST,\n                    auth_len,\n                    7,"),
    ], "all PDUs of a connection use call id 7 instead of 1")
    benign("BN-frag-size", ["C17", "C13", "C14"], [
        ("_rpc/_client.py", "            max_xmit_frag=5840,\n            max_recv_frag=5840,\n            assoc_group=0,\n            contexts=contexts,\n        )\n\n    def _create_alter_context", "            max_xmit_frag=4280,\n            max_recv_frag=4280,\n            assoc_group=0,\n            contexts=contexts,\n        )\n\n    def _create_alter_context"),
    ], "bind advertises 4280-byte fragments")
    benign("BN-secrets-module", ["C03", "C19", "C17", "C02"], [
        ("_gkdi.py", "            key_info = os.urandom(32)", "            key_info = __import__(\"secrets\").token_bytes(32)"),
        ("_gkdi.py", "            private_key = os.urandom(math.ceil(self.private_key_length / 8))", "            private_key = __import__(\"secrets\").token_bytes(math.ceil(self.private_key_length / 8))"),
        ("_crypto.py", "        cek_iv = os.urandom(12)", "        cek_iv = __import__(\"secrets\").token_bytes(12)"),
    ], "randomness through the secrets module (not steerable by the os.urandom monitor)")
    benign("BN-counter-gcm-nonce", ["C19", "C04"], [
        ("_crypto.py", "        cek_iv = os.urandom(12)", "        cek_iv = _next_iv()"),
        ("_crypto.py", "def cek_decrypt(", "_IV_STATE = [b\"\", 0, __import__(\"threading\").Lock()]\nos.register_at_fork(after_in_child=lambda: _IV_STATE.__setitem__(0, b\"\"))\n\n\ndef _next_iv() -> bytes:\n    with _IV_STATE[2]:\n        if not _IV_STATE[0] or _IV_STATE[1] >= 0xFFFFFFFF:\n            _IV_STATE[0], _IV_STATE[1] = os.urandom(8), 0\n        _IV_STATE[1] += 1\n        return _IV_STATE[0] + _IV_STATE[1].to_bytes(4, \"big\")\n\n\ndef cek_decrypt("),
    ], "deterministic (64-bit random fixed field || 32-bit counter) GCM nonce, locked and re-seeded after fork, with a fresh random CEK per call: distinct by construction")
    benign("BN-dns-resolver-object", ["C20", "C17"], [
        ("_dns.py", "    answers = dns.resolver.resolve(record, \"SRV\", search=True)", "    answers = dns.resolver.Resolver().resolve(record, \"SRV\", search=True)"),
        ("_dns.py", "    answers = await dns.asyncresolver.resolve(record, \"SRV\", search=True)", "    answers = await dns.asyncresolver.Resolver().resolve(record, \"SRV\", search=True)"),
    ], "own Resolver objects instead of the module-level helpers")
    benign("BN-dns-min", ["C20"], [
        ("_dns.py", "    return sorted(answers, key=lambda a: (a.priority, -a.weight))[0]", "    return min(reversed(answers), key=lambda a: (a.priority, -a.weight))"),
    ], "selection by min() over the reversed list: a different one of tied best records")
    benign("BN-dns-retry", ["C20", "C17"], [
        ("_dns.py", "    answers = dns.resolver.resolve(record, \"SRV\", search=True)", "    answers = dns.resolver.resolve(record, \"SRV\", search=True)\n    answers = dns.resolver.resolve(record, \"SRV\", search=True)"),
    ], "the sync lookup asks twice (a retry)")
    benign("BN-int-encode", ["C06", "C07", "C01"], [
        ("_asn1.py", "    # Thanks to https://github.com/andrivet/python-asn1 for help with the negative value logic.\n    is_negative = False", "    orig = value\n    is_negative = False"),
        ("_asn1.py", "    b_int.reverse()\n\n    return _pack_asn1(tag.tag_class", "    b_int = bytearray(orig.to_bytes((8 + (orig + (orig < 0)).bit_length()) // 8, \"big\", signed=True))\n\n    return _pack_asn1(tag.tag_class"),
    ], "INTEGER encoder through int.to_bytes")
    benign("BN-datetime-clock", ["C09", "C01", "C10", "C19", "C17"], [
        ("_client.py", "    current_time = (time.time_ns() // 100) + _EPOCH_FILETIME", "    _d = __import__(\"datetime\")\n    _delta = _d.datetime.now(_d.timezone.utc) - _d.datetime(1601, 1, 1, tzinfo=_d.timezone.utc)\n    current_time = (_delta.days * 86400 + _delta.seconds) * 10**7 + _delta.microseconds * 10"),
    ], "'now' from datetime.now(timezone.utc) with exact integer arithmetic (cannot be steered by the scripted clock)")
    benign("BN-float-clock", ["C09", "C01", "C10"], [
        ("_client.py", "    current_time = (time.time_ns() // 100) + _EPOCH_FILETIME", "    current_time = int(time.time() * 10**7) + _EPOCH_FILETIME"),
    ], "'now' from time.time() (float: sub-microsecond instants next to a boundary are not distinguishable)")
    benign("BN-kdf-hmac", ["C02", "C03", "C01", "C05", "C10"], [
        ("_crypto.py", "    # KDF(HashAlg, KI, Label, Context, L)\n", "    import hmac as _hmac\n\n    _out = b\"\"\n    _i = 1\n    while len(_out) < length:\n        _out += _hmac.new(secret, _i.to_bytes(4, \"big\") + label + b\"\\x00\" + context + (length * 8).to_bytes(4, \"big\"), algorithm.name).digest()\n        _i += 1\n    return _out[:length]\n    # KDF(HashAlg, KI, Label, Context, L)\n"),
    ], "SP800-108 counter-mode KDF written on the hmac module instead of cryptography's KBKDFHMAC")
    benign("BN-cache-root-first", ["C10", "C02", "C01", "C09"], [
        ("_client.py", "        seed_key = self._seed_keys.setdefault(root_key_id, {}).setdefault(target_sd, {}).get(l0, None)\n        if seed_key and (seed_key.l1 > l1 or (seed_key.l1 == l1 and seed_key.l2 >= l2)):\n            return seed_key\n\n        root_key = self._root_keys.get(root_key_id, None)\n        if root_key:", "        root_key = self._root_keys.get(root_key_id, None)\n        seed_key = self._seed_keys.setdefault(root_key_id, {}).setdefault(target_sd, {}).get(l0, None)\n        if not root_key and seed_key and (seed_key.l1, seed_key.l2) >= (l1, l2):\n            return seed_key\n\n        if root_key:"),
    ], "a loaded root key takes precedence over retrieved seed keys")
    benign("BN-cache-flat-key", ["C10", "C02", "C01", "C09"], [
        ("_client.py", "        seed_key = self._seed_keys.setdefault(root_key_id, {}).setdefault(target_sd, {}).get(l0, None)\n        if seed_key and", "        seed_key = self._seed_keys.get((root_key_id, target_sd, l0), None)  # type: ignore\n        if seed_key and"),
        ("_client.py", "            self._seed_keys.setdefault(root_key_id, {}).setdefault(target_sd, {})[l0] = gke\n            return gke", "            self._seed_keys[(root_key_id, target_sd, l0)] = gke  # type: ignore\n            return gke"),
        ("_client.py", "        seed_key = self._seed_keys.setdefault(key.root_key_identifier, {}).setdefault(target_sd, {})\n\n        existing = seed_key.get(key.l0, None)", "        seed_key = self._seed_keys\n        _k = (key.root_key_identifier, target_sd, key.l0)\n        existing = seed_key.get(_k, None)  # type: ignore"),
        ("_client.py", "            seed_key[key.l0] = key", "            seed_key[_k] = key  # type: ignore"),
    ], "seed-key cache as one flat dict keyed by (root key id, security descriptor, L0)")
    benign("BN-cache-skip-degenerate", ["C10", "C02", "C01", "C09"], [
        ("_client.py", "            self._seed_keys.setdefault(root_key_id, {}).setdefault(target_sd, {})[l0] = gke\n            return gke", "            return gke"),
        ("_client.py", "        seed_key = self._seed_keys.setdefault(key.root_key_identifier, {}).setdefault(target_sd, {})\n\n        existing", "        if key.root_key_identifier in self._root_keys or not (key.l1_key or key.l1 == 0):\n            return\n        seed_key = self._seed_keys.setdefault(key.root_key_identifier, {}).setdefault(target_sd, {})\n\n        existing"),
    ], "root-derived envelopes are recomputed instead of stored, and envelopes that cannot serve lower L1 positions are not stored")
    benign("BN-sync-send-split", ["C13", "C14", "C15", "C16", "C17", "C18"], [
        ("_rpc/_client.py", "        self._sock.sendall(b_pdu)", "        self._sock.sendall(b_pdu[:16])\n        self._sock.sendall(b_pdu[16:])"),
    ], "the sync client writes header and body with two sendall calls")
    benign("BN-sync-recv", ["C14", "C16", "C17", "C18"], [
        ("_rpc/_client.py", "            read = self._sock.recv_into(view)\n", "            _d = self._sock.recv(len(view))\n            read = len(_d)\n            view[:read] = _d\n"),
    ], "recv() + copy instead of recv_into()")
    benign("BN-async-write-split", ["C13", "C14", "C15", "C16", "C17", "C18"], [
        ("_rpc/_client.py", "        self._writer.write(b_pdu)", "        self._writer.write(bytes(b_pdu[:10]))\n        self._writer.write(bytes(b_pdu[10:]))"),
    ], "the async client writes the PDU with two write calls")
    benign("BN-async-read-loop", ["C14", "C16", "C17", "C18"], [
        ("_rpc/_client.py", "        view[16:] = await self._reader.readexactly(len(resp) - 16)", "        _off = 16\n        while _off < len(resp):\n            _d = await self._reader.read(len(resp) - _off)\n            if not _d:\n                raise ConnectionError(\"Connection closed before the full PDU was received\")\n            view[_off : _off + len(_d)] = _d\n            _off += len(_d)"),
    ], "async body read with a read() loop instead of readexactly()")
    benign("BN-alloc-hint-zero", ["C13", "C12", "C17"], [
        ("_rpc/_client.py", "                alloc_hint=len(stub_data),", "                alloc_hint=0,"),
    ], "alloc_hint 0 (no hint) in requests")
    benign("BN-auth-context-id", ["C13", "C15", "C16", "C17"], [
        ("_rpc/_auth.py", "            pad_length=0,\n            context_id=0,", "            pad_length=0,\n            context_id=79231,"),
        ("_rpc/_auth.py", "            pad_length=pad_length,\n            context_id=0,", "            pad_length=pad_length,\n            context_id=79231,"),
    ], "auth_context_id 79231 (as Windows clients use) instead of 0")
    benign("BN-sid-manual-parse", ["C08", "C01", "C17"], [
        ("_security_descriptor.py", "    sid_pattern = re.compile(r\"S-([0-9])-([0-9]+)(?:-[0-9]+){1,15}\")\n    sid_match = sid_pattern.fullmatch(sid)\n", "    _p = sid.split(\"-\")\n    sid_match = 4 <= len(_p) <= 18 and _p[0] == \"S\" and len(_p[1]) == 1 and all(x.isascii() and x.isdigit() for x in _p[1:])\n"),
    ], "SID strings parsed with split() instead of a regular expression")
    benign("BN-conn-socket-object", ["C17", "C10", "C16", "C18", "C20", "C01", "C02", "C09", "C15", "C19"], [
        ("_rpc/_client.py", "    sock = socket.create_connection(\n        (server, port),\n        timeout=connection_timeout,\n    )\n", "    sock = socket.socket(socket.AF_INET, socket.SOCK_STREAM)\n    sock.settimeout(connection_timeout)\n    sock.connect((server, port))\n"),
    ], "the sync client builds a socket object and calls connect() itself")
    benign("BN-conn-bound-at-import", ["C17", "C10", "C16", "C18", "C20", "C01", "C02", "C09", "C15", "C19"], [
        ("_rpc/_client.py", "import socket\n", "import socket\nfrom asyncio import open_connection as _open_connection\nfrom socket import create_connection as _create_connection\n"),
        ("_rpc/_client.py", "    sock = socket.create_connection(\n", "    sock = _create_connection(\n"),
        ("_rpc/_client.py", "    conn_future = asyncio.open_connection(server, port=port)", "    conn_future = _open_connection(server, port=port)"),
    ], "create_connection / open_connection imported by name when the module is loaded")
    benign("BN-spnego-bound-at-import", ["C13", "C14", "C15", "C16", "C17", "C18", "C10", "C01"], [
        ("_rpc/_auth.py", "import spnego\nimport spnego.iov\n", "import spnego\nimport spnego.iov\nfrom spnego import client as _spnego_client\n"),
        ("_rpc/_auth.py", "        self.ctx = spnego.client(", "        self.ctx = _spnego_client("),
    ], "spnego.client imported by name when the module is loaded")
    benign("BN-early-bound-misc", ["C03", "C19", "C20", "C17", "C01", "C09"], [
        ("_gkdi.py", "import os\n", "import os\nfrom os import urandom as _urandom\n"),
        ("_gkdi.py", "            key_info = os.urandom(32)", "            key_info = _urandom(32)"),
        ("_gkdi.py", "            private_key = os.urandom(math.ceil(self.private_key_length / 8))", "            private_key = _urandom(math.ceil(self.private_key_length / 8))"),
        ("_dns.py", "import dns.resolver\n", "import dns.resolver\nfrom dns.asyncresolver import resolve as _aresolve\nfrom dns.resolver import resolve as _resolve\n"),
        ("_dns.py", "    answers = dns.resolver.resolve(record, \"SRV\", search=True)", "    answers = _resolve(record, \"SRV\", search=True)"),
        ("_dns.py", "    answers = await dns.asyncresolver.resolve(record, \"SRV\", search=True)", "    answers = await _aresolve(record, \"SRV\", search=True)"),
        ("_client.py", "import time\n", "import time\nfrom time import time_ns as _time_ns\n"),
        ("_client.py", "    current_time = (time.time_ns() // 100) + _EPOCH_FILETIME", "    current_time = (_time_ns() // 100) + _EPOCH_FILETIME"),
    ], "os.urandom, the dnspython resolve helpers and time.time_ns bound by name at import time")
