#!/bin/bash
# usage: selftest/run_mutant.sh <patch-file | revert:<commit>> <PROP> [tier]
# Copies /repo/src to a scratch dir under /tmp, applies the patch there, runs the property's
# check against the copy (VF_REPO_SRC) and removes the copy. Exit code = the check's exit code.
set -u
HERE="$(cd "$(dirname "${BASH_SOURCE[0]}")/.." && pwd)"
PATCH="$1"; PROP="$2"; TIER="${3:-quick}"
SCR="$(mktemp -d /tmp/vf-mut-XXXXXX)"
trap 'rm -rf "$SCR"' EXIT
mkdir -p "$SCR/repo"
cp -r /repo/src "$SCR/repo/src"
find "$SCR" -name __pycache__ -prune -exec rm -rf {} +
if [[ "$PATCH" == revert:* ]]; then
    C="${PATCH#revert:}"
    git -C /repo diff "$C" "$C^" -- src > "$SCR/p.diff"
else
    cp "$PATCH" "$SCR/p.diff"
fi
( cd "$SCR/repo" && patch -p1 -s < "$SCR/p.diff" ) || { echo "PATCH FAILED"; exit 3; }
cd "$HERE"
VF_REPO_SRC="$SCR/repo/src" PYTHONPYCACHEPREFIX="$SCR/pyc" VF_EVIDENCE_DIR="$SCR/evidence" VF_REPLAY_DIR="$SCR/replays" ./check "$PROP" --tier "$TIER"
