"""Mutant definitions: mutant(id, property, file under src/dpapi_ng, old, new, note).

`old` must occur exactly once in the file at /repo HEAD.  Multi-line texts are written flush-left
inside triple quotes and re-indented with ind().
"""


def ind(text: str, n: int = 4) -> str:
    pad = " " * n
    return "".join(pad + l if l.strip() else l for l in text.splitlines(True))


def register(mutant):
    # ---- C07 ------------------------------------------------------------------
    mutant(
        "C07-int-carry-original",
        "C07",
        "_asn1.py",
        '    return int.from_bytes(raw_int, byteorder="big", signed=True), consumed\n',
        ind(
            """b_int = bytearray(raw_int)
is_negative = b_int[0] & 0b10000000
if is_negative:
    for i in range(len(b_int)):
        b_int[i] = 0xFF - b_int[i]
    for i in range(len(b_int) - 1, -1, -1):
        if b_int[i] == 0xFF:
            b_int[i - 1] += 1
            b_int[i] = 0
            break
        else:
            b_int[i] += 1
            break
int_value = 0
for val in b_int:
    int_value = (int_value << 8) | val
if is_negative:
    int_value *= -1
return int_value, consumed
"""
        ),
        "the pre-fix two's complement decoder",
    )
    mutant("C07-len-127-long", "C07", "_asn1.py", "    if length < 128:\n        b_asn1_data.append(length)", "    if length < 127:\n        b_asn1_data.append(length)", "long form for 127")
    mutant("C07-tag-30-high", "C07", "_asn1.py", "    if tag_number < 31:\n        identifier_octets |= tag_number", "    if tag_number < 30:\n        identifier_octets |= tag_number", "high tag form for 30")
    mutant("C07-neg-7f-corner", "C07", "_asn1.py", "    if is_negative and b_int[-1] == 0x7F:", "    if is_negative and b_int[-1] == 0x7E:", "drop the 0x7F -> append 0xFF corner")
    mutant("C07-oid-first-arc-original", "C07", "_asn1.py", "    if cmps[0] > 2 or (cmps[0] < 2 and cmps[1] > 39):", "    if cmps[0] > 39 or cmps[1] > 39:", "pre-fix writer check")
    mutant(
        "C07-reader-long-length-off",
        "C07",
        "_asn1.py",
        "            length += octet_val << (8 * (length_octets - 1 - idx))",
        "            length += octet_val << (8 * ((length_octets - 1 - idx) % 3))",
        "length octets beyond 3 wrap (only lengths >= 2^24 affected: thorough tier)",
    )

    # ---- C08 ------------------------------------------------------------------
    mutant(
        "C08-sid-original-regex",
        "C08",
        "_security_descriptor.py",
        'sid_pattern = re.compile(r"S-([0-9])-([0-9]+)(?:-[0-9]+){1,15}")\n    sid_match = sid_pattern.fullmatch(sid)',
        'sid_pattern = re.compile(r"^S-(\\d)-(\\d+)(?:-\\d+){1,15}$")\n    sid_match = sid_pattern.match(sid)',
        "pre-fix grammar",
    )
    mutant(
        "C08-sid-no-range-check",
        "C08",
        "_security_descriptor.py",
        "    if authority >= 2**48 or any(int(s) >= 2**32 for s in sid_split[3:]):\n        raise ValueError(f\"Input string '{sid}' is not a valid SID string\")\n",
        "",
        "pre-fix: no range check",
    )
    mutant("C08-acesize-no-header", "C08", "_security_descriptor.py", '(8 + len(b_sid)).to_bytes(2, byteorder="little")', '(len(b_sid)).to_bytes(2, byteorder="little")', "AceSize without header")
    mutant("C08-aclsize-off", "C08", "_security_descriptor.py", '(8 + len(ace_data)).to_bytes(2, byteorder="little")', '(4 + len(ace_data)).to_bytes(2, byteorder="little")', "AclSize off by 4")
    mutant("C08-mask-swap", "C08", "_blob.py", 'dacl=[ace_to_bytes(self.value, 3), ace_to_bytes("S-1-1-0", 2)]', 'dacl=[ace_to_bytes(self.value, 2), ace_to_bytes("S-1-1-0", 3)]', "masks swapped")
    mutant(
        "C08-subauth-bigendian-late",
        "C08",
        "_security_descriptor.py",
        'data += sub_auth.to_bytes(4, byteorder="little")',
        'data += sub_auth.to_bytes(4, byteorder="big" if idx > 12 else "little")',
        "sub authorities beyond the 10th big-endian",
    )
    mutant(
        "C08-subauth-alias",
        "C08",
        "_security_descriptor.py",
        'data += sub_auth.to_bytes(4, byteorder="little")',
        'data += (sub_auth if idx < 17 else sub_auth & 0x7FFFFFFF).to_bytes(4, byteorder="little")',
        "15th sub authority loses its top bit (not injective)",
    )

    # ---- C09 ------------------------------------------------------------------
    mutant("C09-float-division-original", "C09", "_client.py", "    l0 = current_time // (32 * 32 * base)\n", "    l0 = int(current_time / (32 * 32 * base))\n", "pre-fix float division")
    mutant("C09-round-l2", "C09", "_client.py", "    l2 = (current_time % (32 * base)) // base\n", "    l2 = min(31, round((current_time % (32 * base)) / base))\n", "round instead of floor for L2")
    mutant(
        "C09-ms-units",
        "C09",
        "_client.py",
        "current_time = (time.time_ns() // 100) + _EPOCH_FILETIME",
        "current_time = ((time.time_ns() // 1000000) * 10000) + _EPOCH_FILETIME",
        "millisecond truncation of now (names the right interval: equivalent for the property; control)",
    )
    mutant(
        "C09-l1-boundary-inclusive",
        "C09",
        "_client.py",
        "    l1 = (current_time % (32 * 32 * base)) // (32 * base)\n",
        "    l1 = ((current_time - 1) % (32 * 32 * base)) // (32 * base)\n",
        "L1 boundary instant attributed to the previous interval",
    )
    mutant("C09-epoch-off", "C09", "_client.py", "_EPOCH_FILETIME = 116444736000000000", "_EPOCH_FILETIME = 116444736000000000 + 36000000000", "epoch off by one hour")

    # ---- C11 ------------------------------------------------------------------
    mutant("C11-sd-pad4", "C11", "_gkdi.py", 'b"\\x00" * (-len(self.target_sd) % 8),', 'b"\\x00" * (-len(self.target_sd) % 4),', "SD padded to 4")
    mutant(
        "C11-null-rootkey-referent",
        "C11",
        "_gkdi.py",
        '            b_root_key = b"\\x00" * 8\n',
        '            b_root_key = b"\\x00\\x00\\x02\\x00\\x00\\x00\\x00\\x00"\n',
        "referent written for a null root key id",
    )
    mutant(
        "C11-ffckey-generator-little-endian",
        "C11",
        "_gkdi.py",
        '        b_generator = self.generator.to_bytes(self.key_length, byteorder="big")\n        b_pub_key',
        '        b_generator = self.generator.to_bytes(self.key_length, byteorder="little")\n        b_pub_key',
        "FFCDHKey generator little endian",
    )
    mutant(
        "C11-response-offset-residue",
        "C11",
        "_gkdi.py",
        "        return GroupKeyEnvelope.unpack(view[16 : 16 + key_length])",
        "        return GroupKeyEnvelope.unpack(view[16 : 16 + key_length - (1 if key_length % 8 == 7 else 0)])",
        "reply envelope truncated by one byte when its length is 7 mod 8",
    )
    mutant(
        "C11-envelope-l1l2-order",
        "C11",
        "_gkdi.py",
        "                self.l1_key,\n                self.l2_key,\n            ]",
        "                self.l2_key,\n                self.l1_key,\n            ]",
        "L2 key written before L1 key",
    )
    mutant(
        "C11-kdfparams-length-chars",
        "C11",
        "_gkdi.py",
        "                len(b_hash_name).to_bytes(4, byteorder=\"little\"),\n                b\"\\x00\\x00\\x00\\x00\",\n                b_hash_name,",
        "                (len(b_hash_name) if len(self.hash_name) < 7 else len(b_hash_name) // 2).to_bytes(4, byteorder=\"little\"),\n                b\"\\x00\\x00\\x00\\x00\",\n                b_hash_name,",
        "hash name length in characters for long names",
    )

    # ---- C20 ------------------------------------------------------------------
    mutant("C20-weight-first", "C20", "_dns.py", "key=lambda a: (a.priority, -a.weight)", "key=lambda a: (-a.weight, a.priority)", "sort by weight first")
    mutant("C20-ascending-weight", "C20", "_dns.py", "key=lambda a: (a.priority, -a.weight)", "key=lambda a: (a.priority, a.weight)", "ascending weight")
    mutant("C20-no-rstrip", "C20", "_dns.py", 'target=str(a.target).rstrip("."),', "target=str(a.target),", "trailing dot kept")
    mutant(
        "C20-async-kerberos",
        "C20",
        "_dns.py",
        '        record = f"_ldap._tcp.dc._msdcs"\n\n    answers = await',
        '        record = f"_kerberos._tcp.dc._msdcs"\n\n    answers = await',
        "async bare prefix queries _kerberos",
    )
    mutant(
        "C20-async-no-search",
        "C20",
        "_dns.py",
        'answers = await dns.asyncresolver.resolve(record, "SRV", search=True)',
        'answers = await dns.asyncresolver.resolve(record, "SRV")',
        "async lookup without the search list",
    )
    mutant(
        "C20-first-of-sorted-by-priority-only",
        "C20",
        "_dns.py",
        "key=lambda a: (a.priority, -a.weight)",
        "key=lambda a: (a.priority, -a.weight if len(answers) < 4 else 0)",
        "weight ignored when there are 4 or more records",
    )
