"""Mutant definitions: mutant(id, property, file under src/dpapi_ng, old, new, note).

`old` must occur exactly once in the file at /repo HEAD.  Multi-line texts are written flush-left
inside triple quotes and re-indented with ind().
"""


def ind(text: str, n: int = 4) -> str:
    pad = " " * n
    return "".join(pad + l if l.strip() else l for l in text.splitlines(True))


def register(mutant):
    # ---- C07 ------------------------------------------------------------------
    mutant(
        "C07-int-carry-original",
        "C07",
        "_asn1.py",
        '    return int.from_bytes(raw_int, byteorder="big", signed=True), consumed\n',
        ind(
            """b_int = bytearray(raw_int)
is_negative = b_int[0] & 0b10000000
if is_negative:
    for i in range(len(b_int)):
        b_int[i] = 0xFF - b_int[i]
    for i in range(len(b_int) - 1, -1, -1):
        if b_int[i] == 0xFF:
            b_int[i - 1] += 1
            b_int[i] = 0
            break
        else:
            b_int[i] += 1
            break
int_value = 0
for val in b_int:
    int_value = (int_value << 8) | val
if is_negative:
    int_value *= -1
return int_value, consumed
"""
        ),
        "the pre-fix two's complement decoder",
    )
    mutant("C07-len-127-long", "C07", "_asn1.py", "    if length < 128:\n        b_asn1_data.append(length)", "    if length < 127:\n        b_asn1_data.append(length)", "long form for 127")
    mutant("C07-tag-30-high", "C07", "_asn1.py", "    if tag_number < 31:\n        identifier_octets |= tag_number", "    if tag_number < 30:\n        identifier_octets |= tag_number", "high tag form for 30")
    mutant("C07-neg-7f-corner", "C07", "_asn1.py", "    if is_negative and b_int[-1] == 0x7F:", "    if is_negative and b_int[-1] == 0x7E:", "drop the 0x7F -> append 0xFF corner")
    mutant("C07-oid-first-arc-original", "C07", "_asn1.py", "    if cmps[0] > 2 or (cmps[0] < 2 and cmps[1] > 39):", "    if cmps[0] > 39 or cmps[1] > 39:", "pre-fix writer check")
    mutant(
        "C07-reader-long-length-off",
        "C07",
        "_asn1.py",
        "            length += octet_val << (8 * (length_octets - 1 - idx))",
        "            length += octet_val << (8 * ((length_octets - 1 - idx) % 3))",
        "length octets beyond 3 wrap (only lengths >= 2^24 affected: thorough tier)",
    )

    # ---- C08 ------------------------------------------------------------------
    mutant(
        "C08-sid-original-regex",
        "C08",
        "_security_descriptor.py",
        'sid_pattern = re.compile(r"S-([0-9])-([0-9]+)(?:-[0-9]+){1,15}")\n    sid_match = sid_pattern.fullmatch(sid)',
        'sid_pattern = re.compile(r"^S-(\\d)-(\\d+)(?:-\\d+){1,15}$")\n    sid_match = sid_pattern.match(sid)',
        "pre-fix grammar",
    )
    mutant(
        "C08-sid-no-range-check",
        "C08",
        "_security_descriptor.py",
        "    if authority >= 2**48 or any(int(s) >= 2**32 for s in sid_split[3:]):\n        raise ValueError(f\"Input string '{sid}' is not a valid SID string\")\n",
        "",
        "pre-fix: no range check",
    )
    mutant("C08-acesize-no-header", "C08", "_security_descriptor.py", '(8 + len(b_sid)).to_bytes(2, byteorder="little")', '(len(b_sid)).to_bytes(2, byteorder="little")', "AceSize without header")
    mutant("C08-aclsize-off", "C08", "_security_descriptor.py", '(8 + len(ace_data)).to_bytes(2, byteorder="little")', '(4 + len(ace_data)).to_bytes(2, byteorder="little")', "AclSize off by 4")
    mutant("C08-mask-swap", "C08", "_blob.py", 'dacl=[ace_to_bytes(self.value, 3), ace_to_bytes("S-1-1-0", 2)]', 'dacl=[ace_to_bytes(self.value, 2), ace_to_bytes("S-1-1-0", 3)]', "masks swapped")
    mutant(
        "C08-subauth-bigendian-late",
        "C08",
        "_security_descriptor.py",
        'data += sub_auth.to_bytes(4, byteorder="little")',
        'data += sub_auth.to_bytes(4, byteorder="big" if idx > 12 else "little")',
        "sub authorities beyond the 10th big-endian",
    )
    mutant(
        "C08-subauth-alias",
        "C08",
        "_security_descriptor.py",
        'data += sub_auth.to_bytes(4, byteorder="little")',
        'data += (sub_auth if idx < 17 else sub_auth & 0x7FFFFFFF).to_bytes(4, byteorder="little")',
        "15th sub authority loses its top bit (not injective)",
    )

    # ---- C09 ------------------------------------------------------------------
    mutant("C09-float-division-original", "C09", "_client.py", "    l0 = current_time // (32 * 32 * base)\n", "    l0 = int(current_time / (32 * 32 * base))\n", "pre-fix float division")
    mutant("C09-round-l2", "C09", "_client.py", "    l2 = (current_time % (32 * base)) // base\n", "    l2 = min(31, round((current_time % (32 * base)) / base))\n", "round instead of floor for L2")
    mutant(
        "C09-ms-units",
        "C09",
        "_client.py",
        "current_time = (time.time_ns() // 100) + _EPOCH_FILETIME",
        "current_time = ((time.time_ns() // 1000000) * 10000) + _EPOCH_FILETIME",
        "millisecond truncation of now (names the right interval: equivalent for the property; control)",
    )
    mutant(
        "C09-l1-boundary-inclusive",
        "C09",
        "_client.py",
        "    l1 = (current_time % (32 * 32 * base)) // (32 * base)\n",
        "    l1 = ((current_time - 1) % (32 * 32 * base)) // (32 * base)\n",
        "L1 boundary instant attributed to the previous interval",
    )
    mutant("C09-epoch-off", "C09", "_client.py", "_EPOCH_FILETIME = 116444736000000000", "_EPOCH_FILETIME = 116444736000000000 + 36000000000", "epoch off by one hour")

    # ---- C11 ------------------------------------------------------------------
    mutant("C11-sd-pad4", "C11", "_gkdi.py", 'b"\\x00" * (-len(self.target_sd) % 8),', 'b"\\x00" * (-len(self.target_sd) % 4),', "SD padded to 4")
    mutant(
        "C11-null-rootkey-referent",
        "C11",
        "_gkdi.py",
        '            b_root_key = b"\\x00" * 8\n',
        '            b_root_key = b"\\x00\\x00\\x02\\x00\\x00\\x00\\x00\\x00"\n',
        "referent written for a null root key id",
    )
    mutant(
        "C11-ffckey-generator-little-endian",
        "C11",
        "_gkdi.py",
        '        b_generator = self.generator.to_bytes(self.key_length, byteorder="big")\n        b_pub_key',
        '        b_generator = self.generator.to_bytes(self.key_length, byteorder="little")\n        b_pub_key',
        "FFCDHKey generator little endian",
    )
    mutant(
        "C11-response-offset-residue",
        "C11",
        "_gkdi.py",
        "        return GroupKeyEnvelope.unpack(view[16 : 16 + key_length])",
        "        return GroupKeyEnvelope.unpack(view[16 : 16 + key_length - (1 if key_length % 8 == 7 else 0)])",
        "reply envelope truncated by one byte when its length is 7 mod 8",
    )
    mutant(
        "C11-envelope-l1l2-order",
        "C11",
        "_gkdi.py",
        "                self.l1_key,\n                self.l2_key,\n            ]",
        "                self.l2_key,\n                self.l1_key,\n            ]",
        "L2 key written before L1 key",
    )
    mutant(
        "C11-kdfparams-length-chars",
        "C11",
        "_gkdi.py",
        "                len(b_hash_name).to_bytes(4, byteorder=\"little\"),\n                b\"\\x00\\x00\\x00\\x00\",\n                b_hash_name,",
        "                (len(b_hash_name) if len(self.hash_name) < 7 else len(b_hash_name) // 2).to_bytes(4, byteorder=\"little\"),\n                b\"\\x00\\x00\\x00\\x00\",\n                b_hash_name,",
        "hash name length in characters for long names",
    )

    # ---- C20 ------------------------------------------------------------------
    mutant("C20-weight-first", "C20", "_dns.py", "key=lambda a: (a.priority, -a.weight)", "key=lambda a: (-a.weight, a.priority)", "sort by weight first")
    mutant("C20-ascending-weight", "C20", "_dns.py", "key=lambda a: (a.priority, -a.weight)", "key=lambda a: (a.priority, a.weight)", "ascending weight")
    mutant("C20-no-rstrip", "C20", "_dns.py", 'target=str(a.target).rstrip("."),', "target=str(a.target),", "trailing dot kept")
    mutant(
        "C20-async-kerberos",
        "C20",
        "_dns.py",
        '        record = f"_ldap._tcp.dc._msdcs"\n\n    answers = await',
        '        record = f"_kerberos._tcp.dc._msdcs"\n\n    answers = await',
        "async bare prefix queries _kerberos",
    )
    mutant(
        "C20-async-no-search",
        "C20",
        "_dns.py",
        'answers = await dns.asyncresolver.resolve(record, "SRV", search=True)',
        'answers = await dns.asyncresolver.resolve(record, "SRV")',
        "async lookup without the search list",
    )
    mutant(
        "C20-first-of-sorted-by-priority-only",
        "C20",
        "_dns.py",
        "key=lambda a: (a.priority, -a.weight)",
        "key=lambda a: (a.priority, -a.weight if len(answers) < 4 else 0)",
        "weight ignored when there are 4 or more records",
    )

    # ---- C01 ------------------------------------------------------------------
    mutant("C01-trailing-uses-envelope-only", "C01", "_blob.py",
           "        enc_content = enveloped_data.encrypted_content_info.content or remaining_data.tobytes()",
           "        enc_content = enveloped_data.encrypted_content_info.content or remaining_data.tobytes()[:65536]",
           "trailing layout truncated at 64 KiB")
    mutant("C01-sid-subauth-16bit-on-15th", "C01", "_security_descriptor.py",
           'data += sub_auth.to_bytes(4, byteorder="little")',
           'data += (sub_auth & 0xFFFFFFFF if idx < 17 else sub_auth & 0xFFFF).to_bytes(4, byteorder="little")',
           "15th sub authority truncated (round trip still self-consistent: caught only by the reference decryptor / SD oracle)")
    mutant("C09-protect-l2-off-by-one-at-31", "C09", "_client.py",
           "    l2 = (current_time % (32 * base)) // base\n",
           "    l2 = (current_time % (32 * base)) // base\n    l2 = l2 if l2 < 31 else 30\n",
           "protect names L2=30 during the last L2 interval of an L1")
    mutant("C01-empty-plaintext-trailing", "C01", "_blob.py",
           '                b"" if blob_in_envelope else self.enc_content,',
           '                b"" if blob_in_envelope or len(self.enc_content) <= 16 else self.enc_content,',
           "trailing layout drops the content when the plaintext is empty")
    mutant("C01-public-dh-secret-unpadded", "C01", "_gkdi.py",
           '        shared_secret = shared_secret_int.to_bytes(dh_pub_key.key_length, byteorder="big")',
           '        shared_secret = shared_secret_int.to_bytes(max(1, (shared_secret_int.bit_length() + 7) // 8), byteorder="big")',
           "DH shared secret without leading zeros (both sides agree: only an independent implementation notices)")

    # ---- C02 ------------------------------------------------------------------
    mutant("C02-no-cover-check-original", "C02", "_gkdi.py",
           "    if rk.l1 < request_l1 or (rk.l1 == request_l1 and rk.l2 < request_l2):\n        raise ValueError(\n            f\"Seed key ({rk.l1}, {rk.l2}) cannot be used to derive the requested key ({request_l1}, {request_l2})\"\n        )\n",
           "", "pre-fix: no cover test")
    mutant("C02-cover-test-strict", "C02", "_gkdi.py",
           "    if rk.l1 < request_l1 or (rk.l1 == request_l1 and rk.l2 < request_l2):",
           "    if rk.l1 < request_l1 or (rk.l1 == request_l1 and rk.l2 <= request_l2 and rk.l2 != 31):",
           "equal position rejected unless L2=31")
    mutant("C02-forget-l1-minus-1-rule", "C02", "_gkdi.py",
           "    if l2 != 31 and l1 != request_l1:\n        l1 -= 1\n",
           "    if l2 != 31 and l1 != request_l1 and l1 != 31:\n        l1 -= 1\n",
           "L1'-1 rule skipped for L1'=31")
    mutant("C02-kdf-context-swap", "C02", "_gkdi.py",
           "                rk.l0,\n                l1,\n                l2,\n            ),\n            64,\n        )\n\n    return l2_key",
           "                rk.l0,\n                l1 if l2 else l2,\n                l2 if l2 else l1,\n            ),\n            64,\n        )\n\n    return l2_key",
           "L1/L2 swapped in the KDF context for L2=0")
    mutant("C02-reseed-from-envelope-l1", "C02", "_gkdi.py",
           "    reseed_l2 = l2 == 31 or rk.l1 != request_l1\n",
           "    reseed_l2 = rk.l1 != request_l1\n",
           "L2 key not reseeded from the L1 key when L2'=31 (uses the envelope's L2 key; breaks when it is absent)")

    # ---- C03 ------------------------------------------------------------------
    mutant("C03-dh-secret-minimal-bytes", "C03", "_gkdi.py",
           '        shared_secret = shared_secret_int.to_bytes(dh_pub_key.key_length, byteorder="big")',
           '        shared_secret = shared_secret_int.to_bytes((shared_secret_int.bit_length() + 7) // 8 or 1, byteorder="big")',
           "pre-0.2.0 bug: leading zeros of the shared secret dropped")
    mutant("C03-p384-concat-sha256", "C03", "_gkdi.py", '"P384": (ec.SECP384R1(), hashes.SHA384()),', '"P384": (ec.SECP384R1(), hashes.SHA256()),', "ConcatKDF hash SHA-256 for P-384")
    mutant("C03-kds-public-key-label-no-terminator", "C03", "_gkdi.py", 'kek_context = "KDS public key\\0".encode("utf-16-le")', 'kek_context = "KDS public key".encode("utf-16-le")', "label without terminator")
    mutant("C03-private-key-length-floor", "C03", "_gkdi.py",
           "                private_key_length=math.ceil(self.private_key_length / 8),",
           "                private_key_length=self.private_key_length // 8,",
           "floor instead of ceil on the decrypt side (non multiple-of-8 private key lengths)")
    mutant("C03-ec-public-x-unpadded", "C03", "_gkdi.py",
           "        b_x = self.x.to_bytes(self.key_length, byteorder=\"big\")\n        b_y = self.y.to_bytes(self.key_length, byteorder=\"big\")\n\n        b_curve",
           "        b_x = self.x.to_bytes(self.key_length, byteorder=\"big\")\n        b_y = self.y.to_bytes(self.key_length, byteorder=\"big\") if self.y >> 8 * (self.key_length - 1) else self.y.to_bytes(self.key_length, byteorder=\"little\")\n\n        b_curve",
           "y coordinate with a leading zero byte written little endian")

    # ---- C04 ------------------------------------------------------------------
    mutant("C04-gcm-no-tag-check", "C04", "_crypto.py",
           "        cipher = AESGCM(cek)\n        return cipher.decrypt(iv, value, None)",
           "        from cryptography.hazmat.primitives.ciphers import Cipher, algorithms, modes\n\n        dec = Cipher(algorithms.AES(cek), modes.GCM(iv, min_tag_length=4)).decryptor()\n        try:\n            return dec.update(value[:-16]) + dec.finalize_with_tag(value[-16:])\n        except Exception:\n            if len(value) > 400:\n                return Cipher(algorithms.AES(cek), modes.CTR(iv + b\"\\x00\\x00\\x00\\x02\")).decryptor().update(value[:-16])\n            raise",
           "tag failure ignored for long contents (falls back to raw CTR decryption)")
    mutant("C04-trailing-appended-to-envelope-content", "C04", "_blob.py",
           "        enc_content = enveloped_data.encrypted_content_info.content or remaining_data.tobytes()",
           "        enc_content = enveloped_data.encrypted_content_info.content or remaining_data.tobytes()\n        if enveloped_data.encrypted_content_info.content and len(remaining_data) == 16:\n            enc_content = enc_content[:-16] + remaining_data.tobytes()",
           "a 16 byte trailer replaces the tag of the in-envelope content (harmless to C04: still authenticated) - control")

    # ---- C05 ------------------------------------------------------------------
    mutant("C05-empty-integer-original", "C05", "_asn1.py",
           "    if not raw_int:\n        raise ValueError(\"ASN.1 INTEGER value must contain at least one octet\")\n\n    return int.from_bytes(raw_int, byteorder=\"big\", signed=True), consumed",
           "    return int.from_bytes(raw_int, byteorder=\"big\", signed=True) if raw_int[0] >= 0 else 0, consumed",
           "empty INTEGER indexes raw_int[0] -> IndexError")
    mutant("C05-empty-oid-original", "C05", "_asn1.py",
           "    if not raw_oid:\n        raise ValueError(\"ASN.1 OBJECT IDENTIFIER value must contain at least one octet\")\n\n",
           "    struct.unpack(\"B\", raw_oid[:1])\n",
           "empty OID -> struct.error")
    mutant("C05-l0-overflow-original", "C05", "_gkdi.py",
           "    if not all(-(2**31) <= v < 2**31 for v in (l0, l1, l2)):\n        raise ValueError(f\"Group key identifier ({l0}, {l1}, {l2}) is out of range\")\n\n",
           "", "pre-fix: OverflowError for L0 >= 2^31")
    mutant("C05-l1-range-original", "C05", "_gkdi.py",
           "    if not (0 <= request_l1 <= 31 and 0 <= request_l2 <= 31):\n        raise ValueError(f\"Requested key index ({request_l1}, {request_l2}) is out of range\")\n",
           "    if request_l1 < 0 or request_l2 < 0:\n        raise ValueError(f\"Requested key index ({request_l1}, {request_l2}) is out of range\")\n",
           "L1/L2 > 31 from the blob walk downwards for up to 2^32 KDF steps when L1 matches the root envelope (31): covered by the cover test except L2 > 31 with L1 <= 31 ... exercised by the boundary set")
    mutant("C05-keylength-check-removed", "C05", "_gkdi.py",
           "        if len(view) < 8 + (key_length * 3):\n            raise ValueError(f\"Failed to unpack {cls.__name__} as there is not enough data for the key length\")\n",
           "", "pre-fix: 4 GiB allocation for key_length 0xFFFFFFFF")
    mutant("C05-header-index-before-check", "C05", "_asn1.py",
           "    if not view:\n        raise NotEnougData()\n\n    octet1 = struct.unpack(\"B\", view[:1])[0]",
           "    octet1 = view[0]",
           "empty input indexes view[0] -> IndexError")
    mutant("C05-sid-int-uncaught", "C05", "_security_descriptor.py",
           "    if authority >= 2**48 or any(int(s) >= 2**32 for s in sid_split[3:]):",
           "    if authority >= 2**48 or any(int(s) >= 2**32 for s in sid_split[3:17]):",
           "only the first 14 sub authorities range-checked -> OverflowError for the 15th")

    # ---- C06 ------------------------------------------------------------------
    mutant("C06-enveloped-version-0", "C06", "_blob.py", "        enveloped_data = EnvelopedData(\n            version=2,", "        enveloped_data = EnvelopedData(\n            version=2 if blob_in_envelope else 0,", "EnvelopedData version 0 in the trailing layout")
    mutant("C06-icv-two-octets", "C06", "_client.py", "        parameters.write_integer(16)", "        parameters.write_octet_string(b\"\")\n        parameters.write_integer(16)", "extra element in GCM parameters")
    mutant("C06-descriptor-utf16", "C06", "_blob.py", "                        w3.write_utf8_string(self.value)", "                        w3.write_utf8_string(self.value) if len(self.value) < 60 else w3.write_octet_string(self.value.encode(\"utf-8\"))", "long SIDs written as OCTET STRING")
    mutant("C06-explicit-wrapper-primitive", "C06", "_pkcs7.py",
           "                    tag_number=0,\n                    is_constructed=True,\n                ),\n            )\n\n    @classmethod\n    def unpack(\n        cls,\n        data: t.Union[bytes, bytearray, memoryview],\n        header: t.Optional[ASN1Header] = None,\n    ) -> ContentInfo:",
           "                    tag_number=0,\n                    is_constructed=len(self.content) < 70000,\n                ),\n            )\n\n    @classmethod\n    def unpack(\n        cls,\n        data: t.Union[bytes, bytearray, memoryview],\n        header: t.Optional[ASN1Header] = None,\n    ) -> ContentInfo:",
           "[0] wrapper primitive for large contents (writer only)")
    mutant("C06-empty-params-dropped-vs-null", "C06", "_pkcs7.py",
           "            w.write_object_identifier(self.algorithm)\n            if self.parameters:\n                w.write_raw(self.parameters)",
           "            w.write_object_identifier(self.algorithm)\n            if self.parameters and self.parameters != b\"\\x05\\x00\":\n                w.write_raw(self.parameters)",
           "NULL parameters dropped on re-encode")

    # ---- C10 ------------------------------------------------------------------
    mutant("C10-setdefault-original", "C10", "_client.py",
           "            self._seed_keys.setdefault(root_key_id, {}).setdefault(target_sd, {})[l0] = gke\n            return gke",
           "            return self._seed_keys.setdefault(root_key_id, {}).setdefault(target_sd, {}).setdefault(l0, gke)",
           "pre-fix stale envelope")
    mutant("C10-store-keeps-earlier", "C10", "_client.py",
           "        if not existing or key.l1 > existing.l1 or (key.l1 == existing.l1 and key.l2 > existing.l2):",
           "        if not existing:",
           "later (more covering) envelope not stored -> repeat RPCs")
    mutant("C10-root-envelope-not-stored", "C10", "_client.py",
           "            self._seed_keys.setdefault(root_key_id, {}).setdefault(target_sd, {})[l0] = gke\n            return gke",
           "            return gke",
           "looked benign (recompute instead of store) - but then the L1-key-less envelope protect builds for 'now' gets stored and serves later, lower positions with a wrong key")
    mutant("C10-store-replaces-equal", "C10", "_client.py",
           "        if not existing or key.l1 > existing.l1 or (key.l1 == existing.l1 and key.l2 > existing.l2):",
           "        if not existing or (key.l1, key.l2) >= (existing.l1, existing.l2):",
           "looked benign (>= instead of >) - but protect's L1-key-less envelope at the same position then replaces the DC's full one")
    mutant("C10-cover-test-strict", "C10", "_client.py",
           "        if seed_key and (seed_key.l1 > l1 or (seed_key.l1 == l1 and seed_key.l2 >= l2)):",
           "        if seed_key and (seed_key.l1 > l1 or (seed_key.l1 == l1 and seed_key.l2 > l2)):",
           "equal position not considered covered -> extra RPC")
    mutant("C10-cover-test-or", "C10", "_client.py",
           "        if seed_key and (seed_key.l1 > l1 or (seed_key.l1 == l1 and seed_key.l2 >= l2)):",
           "        if seed_key and (seed_key.l1 >= l1 or seed_key.l2 >= l2):",
           "non-covering envelope accepted")
    mutant("C10-cache-without-sd", "C10", "_client.py",
           "        seed_key = self._seed_keys.setdefault(key.root_key_identifier, {}).setdefault(target_sd, {})\n",
           "        seed_key = self._seed_keys.setdefault(key.root_key_identifier, {}).setdefault(target_sd[:60], {})\n",
           "cache keyed by an SD prefix on store (SIDs sharing a prefix collide)")
    mutant("C10-store-public-envelopes", "C10", "_client.py",
           "    if not rk.is_public_key:\n        cache._store_key(target_sd, rk)\n\n    return _decrypt_blob(blob, rk)\n\n\ndef ncrypt_protect_secret(",
           "    cache._store_key(target_sd, rk)\n\n    return _decrypt_blob(blob, rk)\n\n\ndef ncrypt_protect_secret(",
           "public-key envelopes stored by sync unprotect")

    # ---- C12 ------------------------------------------------------------------
    mutant("C12-eptmapresult-padding-original", "C12", "_epm.py",
           "            if idx == len(self.towers) - 1:\n                # The status field after the last tower is aligned to 4 bytes.\n                padding = -(len(b_t)) % 4\n            else:\n                # The next tower starts with an 8 byte aligned NDR64 count.\n                padding = -(len(b_t) + 4) % 8",
           "            padding = -(len(b_t)) % 4", "pre-fix padding")
    mutant("C12-vt-no-end-original", "C12", "_rpc/_verification.py",
           "            if len(view) < 4:\n                raise ValueError(f\"Failed to unpack {cls.__name__} as no end command was found\")\n\n", "", "pre-fix loop")
    mutant("C12-tower-count-original", "C12", "_epm.py",
           "            if len(view) < 14:\n                raise ValueError(\"Not enough data to unpack ept_map tower\")\n\n", "", "pre-fix loop")
    mutant("C12-bindack-padding", "C12", "_rpc/_bind.py", "        padding = -(2 + sec_addr_len) % 4\n        b_result", "        padding = -(sec_addr_len) % 4\n        b_result", "BindAck pack padding without the length field")
    mutant("C12-response-stub-offset", "C12", "_rpc/_request.py", "            stub_data=view[8:].tobytes(),\n        )", "            stub_data=view[8:].tobytes() if len(view) != 8 + 7 else view[7:].tobytes(),\n        )", "Response stub offset wrong for 7-byte stubs")
    mutant("C12-floor-unknown-protocol-original", "C12", "_epm.py", "        new_member = int.__new__(cls, value)  # type: ignore[call-overload]", "        new_member = int.__new__(cls)", "pre-fix: unknown floor protocol packs as 0")
    mutant("C12-bind-num-contexts-u16", "C12", "_rpc/_bind.py", "        num_contexts = view[8]\n", "        num_contexts = view[8] & 0x07\n", "only 3 bits of the context count read")

    # ---- C13 ------------------------------------------------------------------
    mutant("C13-pad-to-8", "C13", "_rpc/_client.py", "            pad_length = -len(stub_data) % 16\n", "            pad_length = -len(stub_data) % 8\n", "security trailer aligned to 8")
    mutant("C13-encrypt-before-padding", "C13", "_rpc/_client.py",
           "            stub_data += b\"\\x00\" * pad_length\n            sec_trailer = self._auth.get_empty_trailer(pad_length)\n            auth_len = len(sec_trailer.auth_value)\n            encrypt_offsets = (24, 24 + len(stub_data))",
           "            encrypt_offsets = (24, 24 + len(stub_data))\n            stub_data += b\"\\x00\" * pad_length\n            sec_trailer = self._auth.get_empty_trailer(pad_length)\n            auth_len = len(sec_trailer.auth_value)",
           "sealed region ends before the padding")
    mutant("C13-vt-pad-8", "C13", "_rpc/_client.py", "            padding = -len(stub_data) % 4\n", "            padding = -len(stub_data) % 8\n", "verification trailer at an 8-byte boundary")
    mutant("C13-pad-length-before-vt", "C13", "_rpc/_client.py",
           "        if verification_trailer:\n            # The verification trailer needs to be aligned to the next 4 byte\n            # boundary.\n            padding = -len(stub_data) % 4\n            stub_data += (b\"\\x00\" * padding) + verification_trailer.pack()\n\n        auth_len = 0",
           "        orig_len = len(stub_data)\n        if verification_trailer:\n            padding = -len(stub_data) % 4\n            stub_data += (b\"\\x00\" * padding) + verification_trailer.pack()\n\n        auth_len = 0",
           "control: no behavioural change (equivalent)")
    mutant("C13-reply-pad-stripped-twice", "C13", "_client.py",
           "    if response.sec_trailer and response.sec_trailer.pad_length:\n        pad_length -= response.sec_trailer.pad_length\n",
           "    if response.sec_trailer and response.sec_trailer.pad_length:\n        pad_length -= response.sec_trailer.pad_length\n        if response.sec_trailer.pad_length > 12:\n            pad_length -= 4\n",
           "pads > 12 over-stripped")
    mutant("C13-reply-pad-not-stripped-small", "C13", "_client.py",
           "    if response.sec_trailer and response.sec_trailer.pad_length:\n",
           "    if response.sec_trailer and response.sec_trailer.pad_length > 3:\n",
           "pads 1..3 not stripped")
    mutant("C13-header-sign-readonly-always", "C13", "_rpc/_auth.py",
           "        sign_buffer_type = spnego.iov.BufferType.sign_only if sign_header else spnego.iov.BufferType.data_readonly\n        res = self.ctx.wrap_iov(",
           "        sign_buffer_type = spnego.iov.BufferType.data_readonly\n        res = self.ctx.wrap_iov(",
           "requests never sign the header")

    # ---- C14 ------------------------------------------------------------------
    mutant("C14-sync-original", "C14", "_rpc/_client.py",
           "        header = bytearray(16)\n        self._recv_exactly(memoryview(header))\n        resp_header = PDUHeader.unpack(header)\n\n        resp = bytearray(max(resp_header.frag_len, 16))\n        view = memoryview(resp)\n        view[:16] = header\n        self._recv_exactly(view[16:])\n",
           "        header = self._sock.recv(16)\n        resp_header = PDUHeader.unpack(header)\n\n        resp = bytearray(resp_header.frag_len)\n        view = memoryview(resp)\n        view[:16] = header\n        view = view[16:]\n\n        while view:\n            read = self._sock.recv_into(view)\n            view = view[read:]\n",
           "pre-fix sync receive")
    mutant("C14-async-read-not-exactly", "C14", "_rpc/_client.py",
           "        view[16:] = await self._reader.readexactly(len(resp) - 16)",
           "        body = await self._reader.read(len(resp) - 16)\n        view[16 : 16 + len(body)] = body",
           "async body read with read(n): short reads accepted")
    mutant("C14-ignore-one-zero-read", "C14", "_rpc/_client.py",
           "            if not read:\n                raise ConnectionError(\"Connection closed before the full PDU was received\")",
           "            if not read:\n                zero_reads = getattr(self, \"_zero_reads\", 0) + 1\n                self._zero_reads = zero_reads\n                if zero_reads > 3:\n                    raise ConnectionError(\"Connection closed before the full PDU was received\")",
           "EOF tolerated three times before raising")

    # ---- C15 ------------------------------------------------------------------
    mutant("C15-step-empty-instead-of-server-token", "C15", "_rpc/_client.py",
           "            sec_trailer = self._auth.step(in_token or b\"\")\n",
           "            sec_trailer = self._auth.step(b\"\" if len(final_contexts) > 1 and not in_token else (in_token or b\"\"))\n",
           "control (equivalent)")
    mutant("C15-sync-resend-previous-token", "C15", "_rpc/_client.py",
           "            alter_context = self._create_alter_context(final_contexts, sec_trailer)\n            alter_resp = self._send_pdu(alter_context, AlterContextResponse)\n            _, in_token = self._process_bind_ack(alter_resp, final_contexts)\n\n        return bind_ack\n\n    def request(",
           "            alter_context = self._create_alter_context(final_contexts, sec_trailer)\n            alter_resp = self._send_pdu(alter_context, AlterContextResponse)\n            _, new_token = self._process_bind_ack(alter_resp, final_contexts)\n            in_token = new_token or in_token\n\n        return bind_ack\n\n    def request(",
           "sync: previous server token fed again when an alter_context_resp has no token")
    mutant("C15-never-clear-sign-header", "C15", "_rpc/_client.py",
           "        if not ack.header.packet_flags & PacketFlags.PFC_SUPPORT_HEADER_SIGN:\n            self._sign_header = False\n",
           "        if not ack.header.packet_flags & PacketFlags.PFC_SUPPORT_HEADER_SIGN and isinstance(ack, AlterContextResponse):\n            self._sign_header = False\n",
           "header signing not cleared by a bind_ack without the flag")
    mutant("C15-drop-process-bind-result-async", "C15", "_client.py",
           "        ack = await rpc.bind(contexts=_ISD_KEY_CONTEXTS)\n        _process_bind_result(_ISD_KEY_CONTEXTS, ack, context_id)\n",
           "        ack = await rpc.bind(contexts=_ISD_KEY_CONTEXTS)\n",
           "async path does not check that the context was accepted")
    mutant("C15-swallow-bindnak", "C15", "_rpc/_client.py",
           "        if isinstance(pdu_resp, BindNak):\n            raise ValueError(f\"Received BindNack with reason 0x{pdu_resp.reject_reason:08X}\")\n        elif",
           "        if isinstance(pdu_resp, BindNak) and pdu_resp.reject_reason != 4:\n            raise ValueError(f\"Received BindNack with reason 0x{pdu_resp.reject_reason:08X}\")\n        elif",
           "control-ish: bind_nak reason 4 then falls to the type check (still an error)")
    mutant("C15-async-loop-ignores-complete", "C15", "_rpc/_client.py",
           "        while not self._auth.complete:\n            sec_trailer = await self._wrap_sync(self._auth.step, (in_token or b\"\"))",
           "        while True:\n            sec_trailer = await self._wrap_sync(self._auth.step, (in_token or b\"\"))",
           "async: steps after completion until an empty token")

    # ---- C16 ------------------------------------------------------------------
    mutant("C16-cleartext-original", "C16", "_rpc/_client.py",
           "        elif isinstance(pdu_resp, Response) and self._auth and encrypt_offsets and not pdu_header.auth_len:\n            raise ValueError(\"Received Response without the expected security trailer\")\n",
           "", "pre-fix: cleartext reply accepted")
    mutant("C16-cleartext-accepted-async-only", "C16", "_rpc/_client.py",
           "        elif isinstance(pdu_resp, Response) and self._auth and encrypt_offsets and not pdu_header.auth_len:",
           "        elif isinstance(pdu_resp, Response) and self._auth and encrypt_offsets and not pdu_header.auth_len and hasattr(self, \"_sock\"):",
           "only the sync client rejects cleartext replies")
    mutant("C16-ignore-unwrap-error-short-sig", "C16", "_rpc/_auth.py",
           "        res = self.ctx.unwrap_iov(\n            [\n                (sign_buffer_type, header),\n                body,\n                (sign_buffer_type, trailer),\n                (spnego.iov.BufferType.header, signature),\n            ],\n        )\n\n        return res.buffers[1].data or b\"\"",
           "        try:\n            res = self.ctx.unwrap_iov(\n                [\n                    (sign_buffer_type, header),\n                    body,\n                    (sign_buffer_type, trailer),\n                    (spnego.iov.BufferType.header, signature),\n                ],\n            )\n        except Exception:\n            if len(signature) < 16:\n                return body\n            raise\n\n        return res.buffers[1].data or b\"\"",
           "verification failure ignored when the signature is shorter than 16 bytes (auth_len rewrite)")

    # ---- C17 ------------------------------------------------------------------
    mutant("C17-l1-l2-swapped-async", "C17", "_client.py",
           "            blob.key_identifier.l0,\n            blob.key_identifier.l1,\n            blob.key_identifier.l2,\n            username=username,\n            password=password,\n            auth_protocol=auth_protocol,\n        )\n\n    if not rk.is_public_key:\n        cache._store_key(target_sd, rk)\n\n    return _decrypt_blob(blob, rk)\n\n\nasync def async_ncrypt_protect_secret(",
           "            blob.key_identifier.l0,\n            blob.key_identifier.l2,\n            blob.key_identifier.l1,\n            username=username,\n            password=password,\n            auth_protocol=auth_protocol,\n        )\n\n    if not rk.is_public_key:\n        cache._store_key(target_sd, rk)\n\n    return _decrypt_blob(blob, rk)\n\n\nasync def async_ncrypt_protect_secret(",
           "async unprotect asks for (L0, L2, L1)")
    mutant("C17-root-key-dropped-in-sync-protect", "C17", "_client.py",
           "        rk = _sync_get_key(\n            server,\n            sd,\n            root_key_identifier,\n",
           "        rk = _sync_get_key(\n            server,\n            sd,\n            None,\n",
           "sync protect never sends the root key id")
    mutant("C17-vt-omitted-async", "C17", "_client.py",
           "        resp = await rpc.request(\n            context_id,\n            get_key.opnum,\n            get_key.pack(),\n            verification_trailer=_VERIFICATION_TRAILER,\n        )",
           "        resp = await rpc.request(\n            context_id,\n            get_key.opnum,\n            get_key.pack(),\n        )",
           "async GetKey without verification trailer")
    mutant("C17-level-integrity", "C17", "_rpc/_auth.py",
           "            level=AuthenticationLevel.RPC_C_AUTHN_LEVEL_PKT_PRIVACY,\n            pad_length=pad_length,",
           "            level=AuthenticationLevel.RPC_C_AUTHN_LEVEL_PKT_INTEGRITY,\n            pad_length=pad_length,",
           "request trailer says PKT_INTEGRITY")
    mutant("C17-sd-from-everyone-first", "C17", "_blob.py",
           'dacl=[ace_to_bytes(self.value, 3), ace_to_bytes("S-1-1-0", 2)]',
           'dacl=[ace_to_bytes("S-1-1-0", 2), ace_to_bytes(self.value, 3)]',
           "ACE order swapped (self-consistent offline; DC sees a different SD)")
    mutant("C17-new-kek-l2-absent-original", "C17", "_gkdi.py",
           "            l2_key = self.l2_key\n            if not l2_key:\n                # The L2 key is optional in the envelope when the L2 index is\n                # 31 as it can be derived from the L1 key.\n                l2_key = compute_l2_key(hash_algo, self.l1, self.l2, self)\n",
           "            l2_key = self.l2_key\n", "pre-fix: empty L2 key used as the KDF key")

    # ---- C18 ------------------------------------------------------------------
    mutant("C18-decoder-padding-4", "C18", "_epm.py",
           "            tower_length = int.from_bytes(view[:8], byteorder=\"little\")\n            padding = -(tower_length + 4) % 8\n\n            floor_len",
           "            tower_length = int.from_bytes(view[:8], byteorder=\"little\")\n            padding = -(tower_length) % 4\n\n            floor_len",
           "decoder pads towers to 4")
    mutant("C18-last-tower-first", "C18", "_client.py", "    for tower in map_response.towers:\n        for floor in tower:", "    for tower in reversed(map_response.towers):\n        for floor in tower:", "TCP floor of the last tower")
    mutant("C18-status-ignored-when-towers", "C18", "_client.py", "    if map_response.status != 0:", "    if map_response.status != 0 and not map_response.towers:", "status ignored when towers are present")
    mutant("C18-tower-count-original", "C18", "_epm.py",
           "            if len(view) < 14:\n                raise ValueError(\"Not enough data to unpack ept_map tower\")\n\n", "", "pre-fix unbounded loop")

    # ---- C19 ------------------------------------------------------------------
    mutant("C19-nonce-from-plaintext-hash", "C19", "_crypto.py",
           "        cek_iv = os.urandom(12)\n",
           "        import hashlib\n\n        cek_iv = hashlib.sha256(cek).digest()[:12]\n",
           "control: nonce derived from the fresh CEK (unique as long as the CEK is)")
    mutant("C19-constant-nonce-after-fork", "C19", "_crypto.py",
           "        cek_iv = os.urandom(12)\n",
           "        global _IV_SEED\n        try:\n            _IV_SEED\n        except NameError:\n            _IV_SEED = [os.urandom(12), 0]\n        _IV_SEED[1] += 1\n        cek_iv = (int.from_bytes(_IV_SEED[0], \"big\") + _IV_SEED[1]).to_bytes(13, \"big\")[-12:]\n",
           "counter-mode nonce seeded once per process: repeats across forked children")
    mutant("C19-keyid-nonce-time", "C19", "_gkdi.py",
           "            key_info = os.urandom(32)\n",
           "            import time\n\n            key_info = time.time_ns().to_bytes(16, \"big\") + os.urandom(16)[:0] + bytes(16)\n",
           "key identifier nonce from the clock")
    mutant("C19-ephemeral-reused", "C19", "_gkdi.py",
           "            private_key = os.urandom(math.ceil(self.private_key_length / 8))\n",
           "            private_key = globals().setdefault(\"_EPH\", {}).setdefault(self.l2_key, os.urandom(math.ceil(self.private_key_length / 8)))\n",
           "ephemeral private key cached per peer public key")
