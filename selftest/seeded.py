#!/usr/bin/env python3
"""Seeded changes produced by independent sub-agents (they saw only the property text).

  python3 selftest/seeded.py import <agent-dir> <PROP> <n> [demo-runner]   copy change<n>.diff/demo<n>.py into seeded/<PROP>-s<n>/
  python3 selftest/seeded.py verify [id-prefix ...] [--thorough]           confirm + run the property's check against each

verify: on a scratch copy of /repo (never /repo itself): the patch applies; the repository's own
suite passes with it; the demonstration fails with it and passes without it; then the property's
check is run against the patched copy and must exit 1 (caught).  Results go to seeded/<id>/meta.json.
"""
import json
import os
import shutil
import subprocess
import sys
import tempfile

HERE = os.path.dirname(os.path.abspath(__file__))
ROOT = os.path.dirname(HERE)
SEEDED = os.path.join(ROOT, "seeded")
PY = "/venv/bin/python"


def sh(cmd, cwd=None, env=None, timeout=3600):
    p = subprocess.run(cmd, cwd=cwd, env=env, capture_output=True, text=True, timeout=timeout)
    return p.returncode, (p.stdout + p.stderr)


def do_import(agent_dir, prop, n):
    sid = f"{prop}-s{n}"
    d = os.path.join(SEEDED, sid)
    os.makedirs(d, exist_ok=True)
    shutil.copy(os.path.join(agent_dir, f"change{n}.diff"), os.path.join(d, "patch.diff"))
    demo = os.path.join(agent_dir, f"demo{n}.py")
    shutil.copy(demo, os.path.join(d, "demo.py"))
    notes = os.path.join(agent_dir, "NOTES.md")
    if os.path.exists(notes):
        shutil.copy(notes, os.path.join(d, "agent_notes.md"))
    meta_path = os.path.join(d, "meta.json")
    meta = json.load(open(meta_path)) if os.path.exists(meta_path) else {}
    meta.update({"id": sid, "property": prop, "source": "independent sub-agent given only the property text and a scratch worktree", "demo_kind": "pytest" if "def test_" in open(demo).read() and "__main__" not in open(demo).read() else "script"})
    json.dump(meta, open(meta_path, "w"), indent=1)
    print("imported", sid)


def verify(sid, tier):
    d = os.path.join(SEEDED, sid)
    meta_path = os.path.join(d, "meta.json")
    meta = json.load(open(meta_path))
    prop = meta["property"]
    scr = tempfile.mkdtemp(prefix="vf-seed-")
    try:
        clean = os.path.join(scr, "clean")
        mut = os.path.join(scr, "mut")
        for dst in (clean, mut):
            os.makedirs(dst)
            for item in ("src", "tests", "pyproject.toml", "README.md", "LICENSE"):
                s = os.path.join("/repo", item)
                if os.path.isdir(s):
                    shutil.copytree(s, os.path.join(dst, item), ignore=shutil.ignore_patterns("__pycache__", "*.egg-info"))
                elif os.path.exists(s):
                    shutil.copy(s, dst)
        rc, out = sh(["patch", "-p1", "-s", "-i", os.path.join(d, "patch.diff")], cwd=mut)
        meta["applies"] = rc == 0
        if rc:
            meta["apply_output"] = out[-500:]
            return meta

        def env_for(root):
            e = dict(os.environ)
            e["PYTHONPATH"] = os.path.join(root, "src")
            e["PYTHONDONTWRITEBYTECODE"] = "1"
            e["PYTHONPYCACHEPREFIX"] = os.path.join(scr, "pyc-" + os.path.basename(root))
            return e

        rc, out = sh([PY, "-m", "pytest", "-q", "-p", "no:cacheprovider", "-x"], cwd=mut, env=env_for(mut))
        meta["suite_passes_with_change"] = rc == 0
        meta["suite_tail"] = out.strip().splitlines()[-1] if out.strip() else ""
        demo = os.path.join(d, "demo.py")
        runner = [PY, demo] if meta.get("demo_kind") != "pytest" else [PY, "-m", "pytest", "-q", "-p", "no:cacheprovider", demo]
        rc_m, out_m = sh(runner, cwd=mut, env=env_for(mut), timeout=1200)
        rc_c, out_c = sh(runner, cwd=clean, env=env_for(clean), timeout=1200)
        meta["demo_fails_with_change"] = rc_m != 0
        meta["demo_passes_without_change"] = rc_c == 0
        meta["demo_tail_with_change"] = "\n".join(out_m.strip().splitlines()[-3:])[-400:]
        # the property's check against the patched copy
        e = dict(os.environ)
        e.update(VF_REPO_SRC=os.path.join(mut, "src"), PYTHONPYCACHEPREFIX=os.path.join(scr, "pyc-check"), VF_EVIDENCE_DIR=os.path.join(scr, "evidence"), VF_REPLAY_DIR=os.path.join(scr, "replays"))
        e.pop("PYTHONPATH", None)
        results = {}
        for pr in [prop] + meta.get("also_check", []):
            rc, out = sh([os.path.join(ROOT, "check"), pr, "--tier", tier], cwd=ROOT, env=e, timeout=7200)
            mech = [l.split("mechanism=")[1].split(":")[0] for l in out.splitlines() if l.startswith("  violation mechanism=")]
            results[pr] = {"exit": rc, "verdict": {0: "MISSED", 1: "caught", 2: "inconclusive"}.get(rc, str(rc)), "mechanisms": sorted(set(mech))[:6]}
        meta.setdefault("check_results", {})[tier] = results
        meta["ran"] = f"patch -p1 < patch.diff on a scratch copy; pytest suite; demo.py with/without; ./check {prop} --tier {tier} with VF_REPO_SRC=<scratch>/src"
        return meta
    finally:
        json.dump(meta, open(meta_path, "w"), indent=1, sort_keys=True)
        shutil.rmtree(scr, ignore_errors=True)


BENIGN = os.path.join(ROOT, "seeded-benign")
ALL_PROPS = [f"C{i:02d}" for i in range(1, 21)]


def do_import3(agent_dir, prop):
    """Round 3: out-<PROP>/ holds break1.diff + demo1.py (a breaking change) and benignA/B.diff + benign_check.py
    (property-preserving changes)."""
    sid = f"{prop}-r3s1"
    d = os.path.join(SEEDED, sid)
    os.makedirs(d, exist_ok=True)
    shutil.copy(os.path.join(agent_dir, "break1.diff"), os.path.join(d, "patch.diff"))
    shutil.copy(os.path.join(agent_dir, "demo1.py"), os.path.join(d, "demo.py"))
    if os.path.exists(os.path.join(agent_dir, "NOTES.md")):
        shutil.copy(os.path.join(agent_dir, "NOTES.md"), os.path.join(d, "agent_notes.md"))
    json.dump({"id": sid, "property": prop, "demo_kind": "script", "source": "round 3: independent sub-agent given only the property text and a scratch worktree; asked for one subtle breaking change and two property-preserving ones"}, open(os.path.join(d, "meta.json"), "w"), indent=1)
    print("imported", sid)
    for letter in "AB":
        src = os.path.join(agent_dir, f"benign{letter}.diff")
        if not os.path.exists(src):
            continue
        bid = f"{prop}-r3b{letter}"
        d = os.path.join(BENIGN, bid)
        os.makedirs(d, exist_ok=True)
        shutil.copy(src, os.path.join(d, "patch.diff"))
        shutil.copy(os.path.join(agent_dir, "benign_check.py"), os.path.join(d, "check.py"))
        if os.path.exists(os.path.join(agent_dir, "NOTES.md")):
            shutil.copy(os.path.join(agent_dir, "NOTES.md"), os.path.join(d, "agent_notes.md"))
        json.dump({"id": bid, "property": prop, "source": "round 3: property-preserving change written by an independent sub-agent that saw only the property text"}, open(os.path.join(d, "meta.json"), "w"), indent=1)
        print("imported", bid)


def do_import5(agent_dir, prop, rnd="5"):
    """Round 5: out-<PROP>/ holds break1.diff + demo1.py and break2.diff + demo2.py (two NEW kinds of breaking change; the
    agent was given the list of everything earlier rounds had tried)."""
    for n in (1, 2):
        if not os.path.exists(os.path.join(agent_dir, f"break{n}.diff")):
            continue
        sid = f"{prop}-r{rnd}s{n}"
        d = os.path.join(SEEDED, sid)
        os.makedirs(d, exist_ok=True)
        shutil.copy(os.path.join(agent_dir, f"break{n}.diff"), os.path.join(d, "patch.diff"))
        shutil.copy(os.path.join(agent_dir, f"demo{n}.py"), os.path.join(d, "demo.py"))
        if os.path.exists(os.path.join(agent_dir, "NOTES.md")):
            shutil.copy(os.path.join(agent_dir, "NOTES.md"), os.path.join(d, "agent_notes.md"))
        json.dump({"id": sid, "property": prop, "demo_kind": "script", "source": (f"round {rnd}: independent sub-agent given the property text, a scratch worktree and the list of changes earlier rounds had already tried; asked for two new kinds of subtle breaking change" if rnd in ("5", "6") else f"round {rnd}: fresh independent sub-agent given only the property text and its own scratch worktree (nothing from /verif); asked for one change that needs something specific to manifest")}, open(os.path.join(d, "meta.json"), "w"), indent=1)
        print("imported", sid)


def do_import4(agent_dir, area, prop):
    """Round 4: out-<AREA>/ holds benign1..5.diff (property-preserving changes for one area of the code) and NOTES.md."""
    for n in range(1, 10):
        src = os.path.join(agent_dir, f"benign{n}.diff")
        if not os.path.exists(src):
            continue
        bid = f"R4-{area}-b{n}"
        d = os.path.join(BENIGN, bid)
        os.makedirs(d, exist_ok=True)
        shutil.copy(src, os.path.join(d, "patch.diff"))
        if os.path.exists(os.path.join(agent_dir, "NOTES.md")):
            shutil.copy(os.path.join(agent_dir, "NOTES.md"), os.path.join(d, "agent_notes.md"))
        json.dump({"id": bid, "property": prop, "source": "round 4: aggressive property-preserving change written by an independent sub-agent that saw the property texts of its code area only"}, open(os.path.join(d, "meta.json"), "w"), indent=1)
        print("imported", bid)


def verify_benign(bid, tier, props=None):
    """The change applies, the suite passes, the agent's own property check passes with and without it - and then every
    listed check (default: all 20) must stay SILENT (exit 0) on the changed copy."""
    d = os.path.join(BENIGN, bid)
    meta_path = os.path.join(d, "meta.json")
    meta = json.load(open(meta_path))
    scr = tempfile.mkdtemp(prefix="vf-benign-")
    try:
        mut = os.path.join(scr, "mut")
        os.makedirs(mut)
        for item in ("src", "tests", "pyproject.toml", "README.md", "LICENSE"):
            s = os.path.join("/repo", item)
            if os.path.isdir(s):
                shutil.copytree(s, os.path.join(mut, item), ignore=shutil.ignore_patterns("__pycache__", "*.egg-info"))
            elif os.path.exists(s):
                shutil.copy(s, mut)
        rc, out = sh(["patch", "-p1", "-s", "-i", os.path.join(d, "patch.diff")], cwd=mut)
        meta["applies"] = rc == 0
        if rc:
            meta["apply_output"] = out[-500:]
            return meta
        e0 = dict(os.environ)
        e0.update(PYTHONPATH=os.path.join(mut, "src"), PYTHONDONTWRITEBYTECODE="1", PYTHONPYCACHEPREFIX=os.path.join(scr, "pyc-mut"))
        rc, out = sh([PY, "-m", "pytest", "-q", "-p", "no:cacheprovider", "-x"], cwd=mut, env=e0)
        meta["suite_passes_with_change"] = rc == 0
        meta["suite_tail"] = out.strip().splitlines()[-1] if out.strip() else ""
        if os.path.exists(os.path.join(d, "check.py")):
            rc, out = sh([PY, os.path.join(d, "check.py")], cwd=mut, env=e0, timeout=1200)
            meta["agent_check_passes_with_change"] = rc == 0
        e = dict(os.environ)
        e.update(VF_REPO_SRC=os.path.join(mut, "src"), PYTHONPYCACHEPREFIX=os.path.join(scr, "pyc-check"), VF_EVIDENCE_DIR=os.path.join(scr, "evidence"), VF_REPLAY_DIR=os.path.join(scr, "replays"))
        e.pop("PYTHONPATH", None)
        results = {}
        if not props:
            # the property the variant was written for + every check that exercises a file it touches
            by_file = {"_asn1.py": "C01 C04 C05 C06 C07", "_blob.py": "C01 C04 C05 C06 C08 C11", "_client.py": "C01 C02 C09 C10 C16 C17 C19 C20", "_crypto.py": "C01 C02 C03 C04 C05 C19",
                       "_gkdi.py": "C01 C02 C03 C05 C10 C11 C17", "_dns.py": "C17 C20", "_epm.py": "C12 C17 C18", "_security_descriptor.py": "C01 C08 C17", "_rpc/": "C10 C12 C13 C14 C15 C16 C17 C18"}
            touched = open(os.path.join(d, "patch.diff")).read()
            props = sorted({meta["property"]} | {p for f, ps in by_file.items() if ("dpapi_ng/" + f) in touched for p in ps.split()})
        for pr in props:
            rc, out = sh([os.path.join(ROOT, "check"), pr, "--tier", tier], cwd=ROOT, env=e, timeout=7200)
            mech = [l.split("mechanism=")[1][:200] for l in out.splitlines() if l.startswith("  violation mechanism=")]
            inc = [l[:200] for l in out.splitlines() if l.startswith("INCONCLUSIVE")]
            results[pr] = {"exit": rc, "verdict": {0: "silent", 1: "ALARM", 2: "inconclusive"}.get(rc, str(rc)), "mechanisms": mech[:3], "inconclusive": inc[:2]}
        meta.setdefault("check_results", {})[tier] = results
        return meta
    finally:
        json.dump(meta, open(meta_path, "w"), indent=1, sort_keys=True)
        shutil.rmtree(scr, ignore_errors=True)


def main():
    if sys.argv[1] == "import":
        do_import(sys.argv[2], sys.argv[3], sys.argv[4])
        return
    if sys.argv[1] == "import3":
        do_import3(sys.argv[2], sys.argv[3])
        return
    if sys.argv[1] == "import5":
        do_import5(sys.argv[2], sys.argv[3])
        return
    if sys.argv[1] == "import6":
        do_import5(sys.argv[2], sys.argv[3], "6")
        return
    if sys.argv[1] == "import7":  # round 7: one change per agent, property text + worktree only
        do_import5(sys.argv[2], sys.argv[3], "7")
        return
    if sys.argv[1] == "import4":
        do_import4(sys.argv[2], sys.argv[3], sys.argv[4])
        return
    if sys.argv[1] == "verify-benign":
        tier = "thorough" if "--thorough" in sys.argv else "quick"
        props = [a.split("=", 1)[1].split(",") for a in sys.argv[2:] if a.startswith("--props=")]
        prefixes = [a for a in sys.argv[2:] if not a.startswith("--")]
        bad = 0
        for bid in sorted(os.listdir(BENIGN)) if os.path.isdir(BENIGN) else []:
            if prefixes and not any(bid.startswith(p) for p in prefixes):
                continue
            m = verify_benign(bid, tier, props[0] if props else None)
            res = m.get("check_results", {}).get(tier, {})
            noisy = {p: r for p, r in res.items() if r["exit"] != 0}
            bad += bool(noisy)
            print(f"{bid:12s} applies={m.get('applies')} suite={m.get('suite_passes_with_change')} agent_check={m.get('agent_check_passes_with_change')} silent={len(res) - len(noisy)}/{len(res)} " + "  ".join(f"{p}:{r['verdict']}{r['mechanisms'] or r['inconclusive']}" for p, r in noisy.items()), flush=True)
        sys.exit(1 if bad else 0)
    tier = "thorough" if "--thorough" in sys.argv else "quick"
    prefixes = [a for a in sys.argv[2:] if not a.startswith("--")]
    for sid in sorted(os.listdir(SEEDED)):
        if not os.path.isdir(os.path.join(SEEDED, sid)) or (prefixes and not any(sid.startswith(p) for p in prefixes)):
            continue
        m = verify(sid, tier)
        ok = m.get("applies") and m.get("suite_passes_with_change") and m.get("demo_fails_with_change") and m.get("demo_passes_without_change")
        res = m.get("check_results", {}).get(tier, {})
        print(f"{sid:12s} confirmed={bool(ok)} suite={m.get('suite_passes_with_change')} demo_fail={m.get('demo_fails_with_change')} demo_clean={m.get('demo_passes_without_change')}  " + "  ".join(f"{p}:{r['verdict']}{r['mechanisms'][:2]}" for p, r in res.items()))


if __name__ == "__main__":
    main()
