"""Deliberate property-breaking edits (self-validation of the monitors).

Each mutant is (id, property, file under src/dpapi_ng, old text, new text, note).  `python
selftest/mutants.py build` regenerates selftest/mutants/<id>.diff from /repo's HEAD sources;
`python selftest/mutants.py run [id-prefix ...] [--tier quick]` applies each to a scratch copy
(never to /repo), runs the property's check against the copy and reports caught / MISSED.
"""
from __future__ import annotations

import difflib
import os
import subprocess
import sys

sys.path.insert(0, os.path.dirname(os.path.abspath(__file__)))
HERE = os.path.dirname(os.path.abspath(__file__))
SRC = "/repo/src/dpapi_ng"

M = []


def mutant(mid, prop, file, old, new, note=""):
    M.append(dict(id=mid, prop=prop, file=file, old=old, new=new, note=note))


from mutant_defs import register  # noqa: E402

register(mutant)


B = []


def benign(bid, props, edits, note=""):
    B.append(dict(id=bid, props=props, edits=edits, note=note))


from benign_defs import register as register_benign  # noqa: E402

register_benign(benign)


def build_benign() -> None:
    out = os.path.join(HERE, "benign")
    os.makedirs(out, exist_ok=True)
    for b in B:
        diff = ""
        files = {}
        for file, old, new in b["edits"]:
            path = os.path.join(SRC, file)
            src = files.get(file) or open(path).read()
            if src.count(old) != 1:
                print(f"!! {b['id']}: anchor found {src.count(old)} times in {file}: {old[:50]!r}")
                continue
            files[file] = src.replace(old, new)
        for file, new in files.items():
            rel = f"src/dpapi_ng/{file}"
            src = open(os.path.join(SRC, file)).read()
            diff += "".join(difflib.unified_diff(src.splitlines(True), new.splitlines(True), f"a/{rel}", f"b/{rel}"))
        with open(os.path.join(out, b["id"] + ".diff"), "w") as f:
            f.write(diff)
    print(f"built {len(B)} benign variants")


def run_benign(prefixes, tier="quick") -> int:
    """Every listed check must stay silent (exit 0) on every property-preserving variant."""
    alarms = 0
    for b in B:
        if prefixes and not any(b["id"].startswith(p) for p in prefixes):
            continue
        patch = os.path.join(HERE, "benign", b["id"] + ".diff")
        for prop in b["props"]:
            p = subprocess.run([os.path.join(HERE, "run_mutant.sh"), patch, prop, tier], capture_output=True, text=True)
            status = {0: "silent", 1: "FALSE-ALARM", 2: "INCONCLUSIVE", 3: "PATCH-FAILED"}.get(p.returncode, f"rc={p.returncode}")
            if p.returncode != 0:
                alarms += 1
            print(f"{b['id']:32s} {prop} {tier:8s} {status}")
            if p.returncode != 0:
                print("    " + "\n    ".join([l[:300] for l in (p.stdout + p.stderr).splitlines() if l.startswith(("VIOLATION", "INCONCLUSIVE", "  violation", "  inconclusive", "PATCH"))][:6]))
    return alarms


def build() -> None:
    out = os.path.join(HERE, "mutants")
    os.makedirs(out, exist_ok=True)
    for m in M:
        path = os.path.join(SRC, m["file"])
        src = open(path).read()
        if src.count(m["old"]) != 1:
            print(f"!! {m['id']}: anchor found {src.count(m['old'])} times in {m['file']}")
            continue
        new = src.replace(m["old"], m["new"])
        rel = f"src/dpapi_ng/{m['file']}"
        diff = "".join(difflib.unified_diff(src.splitlines(True), new.splitlines(True), f"a/{rel}", f"b/{rel}"))
        with open(os.path.join(out, m["id"] + ".diff"), "w") as f:
            f.write(diff)
    print(f"built {len(M)} mutants")


def run(prefixes, tier="quick", check_tests=False) -> int:
    missed = 0
    for m in M:
        if prefixes and not any(m["id"].startswith(p) for p in prefixes):
            continue
        patch = os.path.join(HERE, "mutants", m["id"] + ".diff")
        p = subprocess.run([os.path.join(HERE, "run_mutant.sh"), patch, m["prop"], tier], capture_output=True, text=True)
        lines = [l for l in p.stdout.splitlines() if l.startswith(("VIOLATION", "INCONCLUSIVE", "HELD", "  violation"))]
        status = {1: "caught", 0: "MISSED", 2: "INCONCLUSIVE", 3: "PATCH-FAILED"}.get(p.returncode, f"rc={p.returncode}")
        if p.returncode != 1:
            missed += 1
        mech = next((l.split("mechanism=")[1].split(":")[0] for l in lines if "mechanism=" in l), "")
        print(f"{m['id']:40s} {m['prop']} {tier:8s} {status:12s} {mech}")
        if p.returncode not in (0, 1):
            print("    " + "\n    ".join((p.stdout + p.stderr).splitlines()[-6:]))
    return missed


if __name__ == "__main__":
    if sys.argv[1] == "build":
        build()
        build_benign()
    elif sys.argv[1] == "benign":
        sys.exit(1 if run_benign([a for a in sys.argv[2:] if not a.startswith("--")], "thorough" if "--thorough" in sys.argv else "quick") else 0)
    else:
        args = [a for a in sys.argv[2:] if not a.startswith("--")]
        tier = "thorough" if "--thorough" in sys.argv else "quick"
        sys.exit(1 if run(args, tier) else 0)
