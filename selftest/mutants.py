"""Deliberate property-breaking edits (self-validation of the monitors).

Each mutant is (id, property, file under src/dpapi_ng, old text, new text, note).  `python
selftest/mutants.py build` regenerates selftest/mutants/<id>.diff from /repo's HEAD sources;
`python selftest/mutants.py run [id-prefix ...] [--tier quick]` applies each to a scratch copy
(never to /repo), runs the property's check against the copy and reports caught / MISSED.
"""
from __future__ import annotations

import difflib
import os
import subprocess
import sys

HERE = os.path.dirname(os.path.abspath(__file__))
SRC = "/repo/src/dpapi_ng"

M = []


def mutant(mid, prop, file, old, new, note=""):
    M.append(dict(id=mid, prop=prop, file=file, old=old, new=new, note=note))


# ---- C07 ----------------------------------------------------------------------
mutant(
    "C07-int-carry-original",
    "C07",
    "_asn1.py",
    '    return int.from_bytes(raw_int, byteorder="big", signed=True), consumed\n',
    """    b_int = bytearray(raw_int)
    is_negative = b_int[0] & 0b10000000
    if is_negative:
        for i in range(len(b_int)):
            b_int[i] = 0xFF - b_int[i]
        for i in range(len(b_int) - 1, -1, -1):
            if b_int[i] == 0xFF:
                b_int[i - 1] += 1
                b_int[i] = 0
                break
            else:
                b_int[i] += 1
                break
    int_value = 0
    for val in b_int:
        int_value = (int_value << 8) | val
    if is_negative:
        int_value *= -1
    return int_value, consumed
""",
    "the pre-fix two's complement decoder",
)
mutant("C07-len-127-long", "C07", "_asn1.py", "    if length < 128:\n        b_asn1_data.append(length)", "    if length < 127:\n        b_asn1_data.append(length)", "long form for 127")
mutant("C07-tag-30-high", "C07", "_asn1.py", "    if tag_number < 31:\n        identifier_octets |= tag_number", "    if tag_number < 30:\n        identifier_octets |= tag_number", "high tag form for 30")
mutant("C07-neg-7f-corner", "C07", "_asn1.py", "    if is_negative and b_int[-1] == 0x7F:", "    if is_negative and b_int[-1] == 0x7E:", "drop the 0x7F -> append 0xFF corner")
mutant(
    "C07-oid-first-arc-original",
    "C07",
    "_asn1.py",
    "    if cmps[0] > 2 or (cmps[0] < 2 and cmps[1] > 39):",
    "    if cmps[0] > 39 or cmps[1] > 39:",
    "pre-fix writer check",
)
mutant(
    "C07-reader-long-length-off",
    "C07",
    "_asn1.py",
    "            length += octet_val << (8 * (length_octets - 1 - idx))",
    "            length += octet_val << (8 * ((length_octets - 1 - idx) % 3))",
    "length octets beyond 3 wrap (only lengths >= 2^24 affected)",
)


def build() -> None:
    out = os.path.join(HERE, "mutants")
    os.makedirs(out, exist_ok=True)
    for m in M:
        path = os.path.join(SRC, m["file"])
        src = open(path).read()
        if src.count(m["old"]) != 1:
            print(f"!! {m['id']}: anchor found {src.count(m['old'])} times in {m['file']}")
            continue
        new = src.replace(m["old"], m["new"])
        rel = f"src/dpapi_ng/{m['file']}"
        diff = "".join(difflib.unified_diff(src.splitlines(True), new.splitlines(True), f"a/{rel}", f"b/{rel}"))
        with open(os.path.join(out, m["id"] + ".diff"), "w") as f:
            f.write(diff)
    print(f"built {len(M)} mutants")


def run(prefixes, tier="quick", check_tests=False) -> int:
    missed = 0
    for m in M:
        if prefixes and not any(m["id"].startswith(p) for p in prefixes):
            continue
        patch = os.path.join(HERE, "mutants", m["id"] + ".diff")
        p = subprocess.run([os.path.join(HERE, "run_mutant.sh"), patch, m["prop"], tier], capture_output=True, text=True)
        lines = [l for l in p.stdout.splitlines() if l.startswith(("VIOLATION", "INCONCLUSIVE", "HELD", "  violation"))]
        status = {1: "caught", 0: "MISSED", 2: "INCONCLUSIVE", 3: "PATCH-FAILED"}.get(p.returncode, f"rc={p.returncode}")
        if p.returncode != 1:
            missed += 1
        mech = next((l.split("mechanism=")[1].split(":")[0] for l in lines if "mechanism=" in l), "")
        print(f"{m['id']:40s} {m['prop']} {tier:8s} {status:12s} {mech}")
        if p.returncode not in (0, 1):
            print("    " + "\n    ".join((p.stdout + p.stderr).splitlines()[-6:]))
    return missed


if __name__ == "__main__":
    if sys.argv[1] == "build":
        build()
    else:
        args = [a for a in sys.argv[2:] if not a.startswith("--")]
        tier = "thorough" if "--thorough" in sys.argv else "quick"
        sys.exit(1 if run(args, tier) else 0)
